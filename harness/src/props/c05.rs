//! C05 Compiled lig/kern programs equal direct interpretation; loops detected exactly.
//!
//! Oracle: `models::ligkern_interp` (TeX §1034–1040 on the raw instructions). Sub-checks:
//! * `calib_unit_run`, `calib_unit_compile`, `calib_compact_forms`, `calib_corpus_loops`,
//!   `calib_cmr10_facts`: the model is
//!   replayed on the repository's TeX-verified unit-test goldens, on TFtoPL's recorded verdicts
//!   for the corpus and on cmr10 before it is used;
//! * `ligkern` (4 letters, boundary character anywhere, padding), `ligkern_exact3` (3 letters, the
//!   ≤ 12-pair sub-space), `ligkern_dense2` (2 letters): generated programs × words;
//! * `cmr10_words`: compiled cmr10 against the interpreter on all short words over 12 characters;
//! * `corpus_words`: every TFM file of the repository's corpus whose lig/kern part TeX 573 accepts
//!   (PLtoTF's layouts: redirect words, boundary words, boundary programs), compiled with
//!   `compile_from_tfm_file`, against the interpreter on all words of 1-3 characters over windows of
//!   8 characters taken from the font's lig/kern programs; loop verdicts compared as well.
//!
//! Every route also sends words through `boxworks_text::TextPreprocessorImpl::add_word` and compares
//! the node list, and compares `Program::instructions_for_entrypoint` with the model's chain walk.

use crate::engine::*;
use crate::models::ligkern_interp::{self as li, Deviations, Glyph, Item, Limits, Outcome, RawFont};
use proptest::prelude::*;
use serde::{Deserialize, Serialize};
use std::collections::{BTreeMap, BTreeSet, HashMap};
use tfm::ligkern::lang::{Instruction, Operation, PostLigOperation, Program};
use tfm::ligkern::{CompiledProgram, RunItem, RunOptions};
use tfm::{Char, FixWord};

// ------------------------------------------------------------------------------------------
// Generated case

const LETTERS: [u8; 4] = *b"abcd";
/// boundary character outside the alphabet
const OUTSIDE: u8 = b'r';
/// left and right character of the padding block
const PAD_LEFT: u8 = b'z';
const PAD_RIGHT: u8 = b'y';
/// a character that can be inserted but has no program and occurs in no word
const EXTRA: u8 = b'e';
/// stands in for the last letter when `CaseSpec::high` is set: a character code above 127, or one
/// of the two extreme codes (`CaseSpec::high_code`)
const HIGH: u8 = 0xE9;
const HIGH_CODES: [u8; 3] = [HIGH, 0x00, 0xFF];
/// the boundary character outside the alphabet by `CaseSpec::outside_code`
const OUTSIDE_CODES: [u8; 3] = [OUTSIDE, 0x00, 0xFF];
/// design sizes by `CaseSpec::design`: 10pt, 12pt, 7.5pt, 17.28pt (fix_word, 2^-20 pt)
const DESIGN_SIZES: [i32; 4] = [10 << 20, 12 << 20, 15 << 19, 18119393];

fn text(word: &[u8]) -> String {
    word.iter().map(|b| *b as char).collect()
}

fn codes(s: &str) -> Vec<u8> {
    s.chars().map(|c| c as u32 as u8).collect()
}

const FORMS: [PostLigOperation; 8] = [
    PostLigOperation::RetainNeitherMoveToInserted, // =:
    PostLigOperation::RetainRightMoveToInserted,   // =:|
    PostLigOperation::RetainRightMoveToRight,      // =:|>
    PostLigOperation::RetainLeftMoveNowhere,       // |=:
    PostLigOperation::RetainLeftMoveToInserted,    // |=:>
    PostLigOperation::RetainBothMoveNowhere,       // |=:|
    PostLigOperation::RetainBothMoveToInserted,    // |=:|>
    PostLigOperation::RetainBothMoveToRight,       // |=:|>>
];

#[derive(Clone, Copy, Debug, PartialEq, Eq, Serialize, Deserialize)]
pub enum OpSpec {
    /// kern of k/16 design units
    Kern(i8),
    /// index into FORMS, index of the inserted letter (index = number of letters: the extra
    /// character `e`, which has no program)
    Lig { form: u8, insert: u8 },
}

#[derive(Clone, Copy, Debug, PartialEq, Eq, Serialize, Deserialize)]
pub struct InstrSpec {
    /// index into the right-character universe: the letters, then the boundary character when
    /// it lies outside the alphabet
    pub right: u8,
    pub op: OpSpec,
    /// 0..20. Inside a chain: 0..=15 continue, 16..=17 SKIP 1, 18 SKIP 2, 19 STOP.
    /// Last of a chain: 0..=15 STOP, 16..=18 fall through into the next chain, 19 SKIP 1.
    /// 20..: SKIP 3 + (next - 20) % 38, i.e. SKIP 3..40, wherever the instruction stands.
    pub next: u8,
}

#[derive(Clone, Copy, Debug, PartialEq, Eq, Serialize, Deserialize)]
pub enum LabelSpec {
    /// the label stands in front of the symbol's own chain (and so enters the following chain
    /// when its own chain is empty)
    Own,
    /// the label stands in front of an arbitrary instruction (monotone pick over the program)
    At(u16),
    /// the symbol has no program
    Absent,
    /// the label stands in the padding block, this many instructions before its end (`Own` when
    /// there is no padding block)
    PadTail(u8),
}

#[derive(Clone, Copy, Debug, PartialEq, Eq, Serialize, Deserialize)]
pub enum RbSpec {
    Absent,
    /// a letter of the alphabet
    Inside(u8),
    /// a character no word contains
    Outside,
}

#[derive(Clone, Copy, Debug, PartialEq, Eq, Serialize, Deserialize)]
pub struct PadSpec {
    /// the padding block stands in front of this chain
    pub before_chain: u8,
    pub len: u16,
    /// 0: every instruction is `y kern (1..7)/64`, continue. 1: instruction j kerns by the distinct
    /// amount (j+1)/1024 (so the kern array of the TFM route has more than 256 entries), from j = 200
    /// on the right characters cycle through the letters and `y` (a label standing there makes
    /// kerns with an index >= 256 observable), and every tenth instruction has SKIP 3..40.
    #[serde(default)]
    pub style: u8,
}

#[derive(Clone, Copy, Debug, PartialEq, Eq, Serialize, Deserialize)]
pub struct ModeSpec {
    pub disable_left_boundary: bool,
    /// 0..=5 none, 6..=7 a letter, 8 the outside character
    pub right_boundary_override: u8,
}

#[derive(Clone, Debug, PartialEq, Eq, Serialize, Deserialize)]
pub struct CaseSpec {
    /// 2, 3 or 4
    pub letters: u8,
    /// one chain per letter plus, last, the left boundary's chain
    pub chains: Vec<Vec<InstrSpec>>,
    pub labels: Vec<LabelSpec>,
    pub rb: RbSpec,
    pub pad: Option<PadSpec>,
    /// build a TFM file (pack entry points, kerns to indices), serialise, read it back and use
    /// `compile_from_tfm_file` instead of handing the program to `compile` directly
    pub via_tfm: bool,
    /// the last letter of the alphabet is the character code 0xE9 instead of an ASCII letter
    #[serde(default)]
    pub high: bool,
    /// (when not `via_tfm`) put the program into a `pl::File` and use `compile_from_pl_file`
    #[serde(default)]
    pub via_pl: bool,
    pub words: Vec<(Vec<u8>, ModeSpec)>,
    /// index into HIGH_CODES (only with `high`)
    #[serde(default)]
    pub high_code: u8,
    /// index into OUTSIDE_CODES; falls back to `r` when that code is a letter of the alphabet
    #[serde(default)]
    pub outside_code: u8,
    /// index into DESIGN_SIZES
    #[serde(default)]
    pub design: u8,
    /// instruction number k kerns by an extra (kern_low * (k+1)) mod 2^12 fix_word units, so that
    /// scaling by the design size rounds
    #[serde(default)]
    pub kern_low: u16,
    /// one more word, of 7-40 letters (empty: none)
    #[serde(default)]
    pub long_word: Vec<u8>,
    #[serde(default)]
    pub long_mode: Option<ModeSpec>,
}

fn instr_strategy(nletters: u8, outside: bool, rich: bool) -> impl Strategy<Value = InstrSpec> {
    let nr = nletters + outside as u8;
    // the extra character is inserted by about one ligature instruction in twelve (rich only)
    let insert = if rich { prop_oneof![11 => 0..nletters, 1 => Just(nletters)].boxed() } else { (0..nletters).boxed() };
    let op = prop_oneof![
        1 => (-8i8..=8).prop_map(OpSpec::Kern),
        2 => (0u8..8, insert).prop_map(|(form, insert)| OpSpec::Lig { form, insert }),
    ];
    // SKIP 3..40 for about one instruction in sixteen (rich only)
    let next = if rich { prop_oneof![15 => 0u8..20, 1 => 20u8..58].boxed() } else { (0u8..20).boxed() };
    (0..nr, op, next).prop_map(|(right, op, next)| InstrSpec { right, op, next })
}

fn label_strategy(pad: bool) -> BoxedStrategy<LabelSpec> {
    if pad {
        prop_oneof![
            16 => Just(LabelSpec::Own),
            3 => any::<u16>().prop_map(LabelSpec::At),
            1 => Just(LabelSpec::Absent),
            // the tail of the padding block, where the instruction number and the kern index exceed 255
            5 => (0u8..100).prop_map(LabelSpec::PadTail),
        ]
        .boxed()
    } else {
        prop_oneof![
            16 => Just(LabelSpec::Own),
            3 => any::<u16>().prop_map(LabelSpec::At),
            1 => Just(LabelSpec::Absent),
        ]
        .boxed()
    }
}

fn mode_strategy() -> impl Strategy<Value = ModeSpec> {
    (any::<bool>(), 0u8..9).prop_map(|(d, r)| ModeSpec { disable_left_boundary: d, right_boundary_override: r })
}

/// `rich = false`: `letters` letters, boundary character inside the alphabet or absent, no
/// padding — with three letters the sub-space of DESIGN.md on which at most 12 pairs exist.
/// `rich = true`: boundary character also outside the alphabet, padding blocks, an inserted
/// character outside the alphabet, optionally a letter with a code above 127.
pub fn case_strategy(letters: u8, rich: bool) -> impl Strategy<Value = CaseSpec> {
    let head = if !rich {
        (
            Just(letters),
            prop_oneof![2 => Just(RbSpec::Absent), 5 => (0u8..letters).prop_map(RbSpec::Inside)].boxed(),
            Just(None::<PadSpec>).boxed(),
            // route: 0 direct, 1 pl::File, 2 TFM file
            prop_oneof![4 => Just(0u8), 1 => Just(1u8), 1 => Just(2u8)].boxed(),
            Just((false, 0u8, 0u8)).boxed(),
        )
    } else {
        (
            Just(letters),
            prop_oneof![2 => Just(RbSpec::Absent), 3 => (0u8..letters).prop_map(RbSpec::Inside), 3 => Just(RbSpec::Outside)].boxed(),
            prop_oneof![
                12 => Just(None),
                1 => (0u8..=letters, 230u16..330, prop_oneof![1 => Just(0u8), 3 => Just(1u8)]).prop_map(|(b, l, style)| Some(PadSpec { before_chain: b, len: l, style }))
            ]
            .boxed(),
            prop_oneof![5 => Just(0u8), 1 => Just(1u8), 2 => Just(2u8)].boxed(),
            // a letter with a code above 127 (0xE9, or the extreme codes 0x00 / 0xFF); code of the
            // outside boundary character (r, 0x00, 0xFF)
            (prop_oneof![6 => Just(false), 2 => Just(true)], prop_oneof![2 => Just(0u8), 1 => Just(1u8), 1 => Just(2u8)], prop_oneof![2 => Just(0u8), 1 => Just(1u8), 1 => Just(2u8)]).boxed(),
        )
    };
    head.prop_flat_map(move |(letters, rb, pad, route, (high, high_code, outside_code))| {
        let outside = rb == RbSpec::Outside;
        let n = letters as usize;
        (
            proptest::collection::vec(proptest::collection::vec(instr_strategy(letters, outside, rich), 0..=4), n + 1),
            proptest::collection::vec(label_strategy(pad.is_some()), n + 1),
            proptest::collection::vec((proptest::collection::vec(0..letters, 1..=6), mode_strategy()), 5),
            // design size and kern low bits: half of the cases keep 10pt and exact multiples
            (prop_oneof![2 => Just(0u8), 1 => 1u8..4], prop_oneof![1 => Just(0u16), 1 => 1u16..4096]),
            // a long word for about one case in six; periodic (period 1-4) half of the time so that
            // one rule chain is driven deep
            prop_oneof![
                10 => Just(vec![]),
                1 => proptest::collection::vec(0..letters, 7..=40),
                1 => (proptest::collection::vec(0..letters, 1..=4), 7usize..=40).prop_map(|(p, l)| (0..l).map(|i| p[i % p.len()]).collect::<Vec<u8>>()),
            ],
            mode_strategy(),
            // a padded program is mostly sent through the TFM route: that is where entry points
            // above 255 need redirection
            prop_oneof![1 => Just(false), 4 => Just(true)],
        )
            .prop_map(move |(chains, labels, words, (design, kern_low), long_word, long_mode, pad_tfm)| CaseSpec {
                letters,
                chains,
                labels,
                rb,
                pad,
                via_tfm: route == 2 || (pad.is_some() && pad_tfm),
                high,
                via_pl: route == 1,
                words,
                high_code: if high { high_code } else { 0 },
                outside_code: if outside { outside_code } else { 0 },
                design,
                kern_low,
                long_mode: if long_word.is_empty() { None } else { Some(long_mode) },
                long_word,
            })
    })
}

pub struct Built {
    pub program: Program,
    pub entrypoints: HashMap<Char, u16>,
    pub font: RawFont,
    pub letters: Vec<u8>,
    /// the boundary character outside the alphabet (used or not)
    pub outside: u8,
    pub design_size: FixWord,
    pub shared_instruction: bool,
    pub uses_skip: bool,
    /// largest SKIP amount of an instruction that some left symbol's program contains
    pub max_skip: u8,
}

fn design_size_of(spec: &CaseSpec) -> FixWord {
    FixWord(DESIGN_SIZES[spec.design as usize % DESIGN_SIZES.len()])
}

pub fn build(spec: &CaseSpec) -> Built {
    let n = (spec.letters as usize).clamp(1, 4);
    let mut letters: Vec<u8> = LETTERS[..n].to_vec();
    if spec.high {
        letters[n - 1] = HIGH_CODES[spec.high_code as usize % 3];
    }
    let mut outside = OUTSIDE_CODES[spec.outside_code as usize % 3];
    if letters.contains(&outside) {
        outside = OUTSIDE;
    }
    let mut rights = letters.clone();
    if spec.rb == RbSpec::Outside {
        rights.push(outside);
    }
    let low = |k: usize| -> i32 { ((spec.kern_low as usize * (k + 1)) & 0xFFF) as i32 };
    let mut flat: Vec<Instruction> = vec![];
    let mut chain_start = vec![0usize; n + 1];
    let mut pad_start = None;
    for (i, start) in chain_start.iter_mut().enumerate() {
        if let Some(p) = spec.pad {
            if p.before_chain as usize % (n + 1) == i {
                pad_start = Some(flat.len());
                let len = p.len.clamp(1, 400) as usize;
                for j in 0..len {
                    flat.push(if p.style == 0 {
                        Instruction {
                            next_instruction: if j + 1 == len { None } else { Some(0) },
                            right_char: Char(PAD_RIGHT),
                            operation: Operation::Kern(FixWord(((j % 7) as i32 + 1) << 14)),
                        }
                    } else {
                        Instruction {
                            next_instruction: if j + 1 == len {
                                None
                            } else if j % 10 == 9 {
                                Some(3 + ((j * 7) % 38) as u8)
                            } else {
                                Some(0)
                            },
                            right_char: Char(if j < 200 || j % (n + 1) == n { PAD_RIGHT } else { letters[j % (n + 1)] }),
                            operation: Operation::Kern(FixWord((j as i32 + 1) << 10)),
                        }
                    });
                }
            }
        }
        *start = flat.len();
        let chain = spec.chains.get(i).map(|c| c.as_slice()).unwrap_or(&[]);
        for (j, ins) in chain.iter().enumerate() {
            let last = j + 1 == chain.len();
            let next = if ins.next >= 20 {
                Some(3 + (ins.next - 20) % 38)
            } else if last {
                match ins.next % 20 {
                    0..=15 => None,
                    16..=18 => Some(0),
                    _ => Some(1),
                }
            } else {
                match ins.next % 20 {
                    0..=15 => Some(0),
                    16..=17 => Some(1),
                    18 => Some(2),
                    _ => None,
                }
            };
            let operation = match ins.op {
                OpSpec::Kern(k) => Operation::Kern(FixWord(((k as i32) << 16) + low(flat.len()))),
                OpSpec::Lig { form, insert } => Operation::Ligature {
                    char_to_insert: Char(if insert as usize == n { EXTRA } else { letters[insert as usize % n] }),
                    post_lig_operation: FORMS[form as usize % 8],
                    post_lig_tag_invalid: false,
                },
            };
            flat.push(Instruction { next_instruction: next, right_char: Char(rights[ins.right as usize % rights.len()]), operation });
        }
    }
    // Well-formedness (what PLtoTF emits and TFtoPL/TeX accept): every continuation stays
    // inside the program; the last instruction stops.
    let total = flat.len();
    let mut uses_skip = false;
    for (k, ins) in flat.iter_mut().enumerate() {
        if let Some(s) = ins.next_instruction {
            if k + s as usize + 1 >= total {
                ins.next_instruction = None;
            } else if s > 0 {
                uses_skip = true;
            }
        }
    }
    let mut entrypoints: HashMap<Char, u16> = HashMap::new();
    let mut left_boundary = None;
    for i in 0..=n {
        let at = match spec.labels.get(i).copied().unwrap_or(LabelSpec::Own) {
            LabelSpec::Own => Some(chain_start[i]),
            LabelSpec::At(p) => Some(pick_idx(p, total.max(1))),
            LabelSpec::Absent => None,
            LabelSpec::PadTail(k) => match (pad_start, spec.pad) {
                (Some(s), Some(p)) => Some(s + (p.len.clamp(1, 400) as usize).saturating_sub(1 + k as usize)),
                _ => Some(chain_start[i]),
            },
        };
        let Some(at) = at.filter(|a| *a < total) else { continue };
        if i == n {
            left_boundary = Some(at as u16);
        } else {
            entrypoints.insert(Char(letters[i]), at as u16);
        }
    }
    if let Some(p) = pad_start {
        entrypoints.insert(Char(PAD_LEFT), p as u16);
    }
    let program = Program {
        instructions: flat,
        left_boundary_char_entrypoint: left_boundary,
        right_boundary_char: match spec.rb {
            RbSpec::Absent => None,
            RbSpec::Inside(i) => Some(Char(letters[i as usize % n])),
            RbSpec::Outside => Some(Char(outside)),
        },
        passthrough: Default::default(),
    };
    let mut ordered: Vec<(Char, u16)> = entrypoints.iter().map(|(c, e)| (*c, *e)).collect();
    ordered.sort();
    let font = RawFont::from_program(&program, ordered, &[]);
    // do two left symbols share an instruction?
    let mut owner: BTreeMap<usize, usize> = BTreeMap::new();
    let mut shared = false;
    let mut max_skip = 0u8;
    for (li_, l) in font.lefts().into_iter().enumerate() {
        if l == Some(PAD_LEFT) {
            continue;
        }
        let start = match l {
            None => font.left_boundary_entry().unwrap(),
            Some(c) => font.entries()[&c],
        };
        for k in font.chain(start) {
            if let Some(o) = owner.insert(k, li_) {
                if o != li_ {
                    shared = true;
                }
            }
            max_skip = max_skip.max(font.instructions()[k].next_instruction.unwrap_or(0));
        }
    }
    let design_size = design_size_of(spec);
    Built { program, entrypoints, font, letters, outside, design_size, shared_instruction: shared, uses_skip, max_skip }
}

fn mode_of(m: ModeSpec, letters: &[u8], outside: u8) -> (bool, Option<u8>) {
    let o = match m.right_boundary_override {
        6 | 7 => Some(letters[(m.right_boundary_override as usize) % letters.len()]),
        8 => Some(outside),
        _ => None,
    };
    (m.disable_left_boundary, o)
}

// ------------------------------------------------------------------------------------------
// Driving the implementation

fn impl_items(compiled: &CompiledProgram, word: &str, default_run: bool, disable_left: bool, rbo: Option<u8>) -> Result<Vec<RunItem>, String> {
    // a run that the interpreter finishes takes at most 10^5 ligature steps per pair under the
    // cursor (`word_limits`); each step adds at most one item, each character at most two
    let limit: usize = 100_000 * (word.len() + 2) + 2 * word.len() + 8;
    let r = panics::catch(|| {
        if default_run {
            compiled.run(word).take(limit + 1).collect::<Vec<RunItem>>()
        } else {
            compiled
                .run_with_options(word.chars(), RunOptions { disable_left_boundary: disable_left, right_boundary_override: rbo.map(|c| c as char) })
                .take(limit + 1)
                .collect::<Vec<RunItem>>()
        }
    });
    match r {
        Ok(v) if v.len() > limit => Err(format!("RunIter yields more than {limit} items for a word of {} characters", word.len())),
        Ok(v) => Ok(v),
        Err(p) => Err(format!("panic at {}: {}", p.site(), p.message)),
    }
}

fn impl_skeleton(items: &[RunItem]) -> Vec<Glyph> {
    items
        .iter()
        .map(|i| match i {
            RunItem::Char(c) => Glyph::Char(*c as u32 as u8),
            RunItem::Kern(k) => Glyph::Kern(k.0),
            RunItem::Ligature(l) => Glyph::Lig(l.c as u32 as u8),
        })
        .collect()
}

fn impl_spelled(items: &[RunItem]) -> String {
    let mut s = String::new();
    for i in items {
        match i {
            RunItem::Char(c) => s.push(*c),
            RunItem::Ligature(l) => s.push_str(&l.original),
            RunItem::Kern(_) => {}
        }
    }
    s
}

/// The implementation's output in the model's vocabulary (originals and boundary bits included).
fn impl_as_items(items: &[RunItem]) -> Vec<(Glyph, Vec<u8>, bool, bool)> {
    items
        .iter()
        .map(|i| match i {
            RunItem::Char(c) => (Glyph::Char(*c as u32 as u8), vec![], false, false),
            RunItem::Kern(k) => (Glyph::Kern(k.0), vec![], false, false),
            RunItem::Ligature(l) => (Glyph::Lig(l.c as u32 as u8), codes(&l.original), l.includes_left_boundary, l.includes_right_boundary),
        })
        .collect()
}

fn model_as_items(items: &[Item], ds: FixWord) -> Vec<(Glyph, Vec<u8>, bool, bool)> {
    items
        .iter()
        .map(|i| match i {
            Item::Char(c) => (Glyph::Char(*c), vec![], false, false),
            Item::Kern(k) => (Glyph::Kern(k.to_scaled(ds).0), vec![], false, false),
            Item::Lig { c, original, left_boundary, right_boundary } => (Glyph::Lig(*c), original.clone(), *left_boundary, *right_boundary),
        })
        .collect()
}

fn render_glyphs(g: &[Glyph]) -> String {
    let mut s = String::new();
    for x in g {
        match x {
            Glyph::Char(c) => s.push_str(&li::show(*c)),
            Glyph::Lig(c) => s.push_str(&format!("<{}>", li::show(*c))),
            Glyph::Kern(k) => s.push_str(&format!("[{}sp]", k)),
        }
    }
    s
}

fn render_run_items(items: &[RunItem]) -> String {
    let mut s = String::new();
    for i in items {
        match i {
            RunItem::Char(c) => s.push_str(&show_char(*c)),
            RunItem::Kern(k) => s.push_str(&format!("[{}sp]", k.0)),
            RunItem::Ligature(l) => s.push_str(&format!(
                "<{}:{}{}{}>",
                show_char(l.c),
                if l.includes_left_boundary { "|" } else { "" },
                l.original.chars().map(show_char).collect::<String>(),
                if l.includes_right_boundary { "|" } else { "" }
            )),
        }
    }
    s
}

fn pair_name(p: (Option<u8>, u8)) -> String {
    format!("({},{})", p.0.map(li::show).unwrap_or("^".into()), li::show(p.1))
}

/// printable ASCII as it is, anything else as \xNN (or \u{..} beyond Latin-1)
fn show_char(c: char) -> String {
    if (c as u32) < 256 {
        li::show(c as u32 as u8)
    } else {
        format!("\\u{{{:x}}}", c as u32)
    }
}

// ------------------------------------------------------------------------------------------
// What the model predicts, with or without named deviations

#[derive(Clone, Debug, PartialEq, Eq)]
enum RunPred {
    Finished(Vec<Glyph>),
    /// the word reaches a pair whose instructions never terminate
    Diverges,
    Undecided,
}

#[derive(Clone, Debug, PartialEq, Eq)]
struct Prediction {
    diverging: BTreeSet<(Option<u8>, u8)>,
    undecided: bool,
    /// per run plan
    runs: Vec<RunPred>,
}

struct RunPlan {
    word: Vec<u8>,
    default_run: bool,
    disable_left: bool,
    rbo: Option<u8>,
}

fn plans(spec: &CaseSpec, letters: &[u8], outside: u8) -> Vec<RunPlan> {
    let mut v = vec![];
    let long = spec.long_mode.map(|m| (spec.long_word.clone(), m));
    for (w, m) in spec.words.iter().chain(long.iter()) {
        let word: Vec<u8> = w.iter().map(|i| letters[*i as usize % letters.len()]).collect();
        if word.is_empty() {
            continue;
        }
        v.push(RunPlan { word: word.clone(), default_run: true, disable_left: false, rbo: None });
        let (d, o) = mode_of(*m, letters, outside);
        // a generated mode that equals the default run is not run twice
        if d || o.is_some() {
            v.push(RunPlan { word, default_run: false, disable_left: d, rbo: o });
        }
    }
    v
}

fn universe(font: &RawFont, letters: &[u8]) -> Vec<(Option<u8>, u8)> {
    let mut out = vec![];
    for l in font.lefts() {
        let mut rs: BTreeSet<u8> = font.rights_of(l).into_iter().collect();
        rs.extend(letters.iter().copied());
        if let Some(b) = font.right_boundary_char() {
            rs.insert(b);
        }
        for r in rs {
            out.push((l, r));
        }
    }
    out
}

/// The step cap of a run over a word: every pair that comes under the cursor of a terminating run
/// has been evaluated on its own within `cap` steps, and at most len+1 of them are evaluated in a row.
fn word_limits(l: Limits, len: usize) -> Limits {
    Limits { cap: l.cap.saturating_mul(len as u64 + 2), ..l }
}

/// `partial_table`: not TeX but the named deviation of a listed finding together with what
/// `compile` does about the loops that the deviation creates (diverging pairs get no entry).
fn predict(font: &RawFont, ds: FixWord, letters: &[u8], plans: &[RunPlan], limits: Limits, with_runs: bool, partial_table: bool) -> (Prediction, Vec<Option<(Vec<Item>, li::RunStats)>>) {
    let mut diverging = BTreeSet::new();
    let mut undecided = false;
    for (l, r) in universe(font, letters) {
        match font.run_pair(l, r, limits) {
            Outcome::Finished { .. } => {}
            Outcome::Diverges(_) => {
                diverging.insert((l, r));
            }
            Outcome::Undecided { .. } => undecided = true,
        }
    }
    let mut runs = vec![];
    let mut full = vec![];
    if with_runs && !undecided {
        for p in plans {
            let opts = li::RunOptions { left_boundary: !p.disable_left, right_boundary: p.rbo.or(font.right_boundary_char()) };
            let out = if partial_table {
                font.run_word_on_partial_table(&p.word, opts, word_limits(limits, p.word.len()), &diverging)
            } else {
                font.run_word_given(&p.word, opts, word_limits(limits, p.word.len()), Some(&diverging))
            };
            match out {
                Outcome::Finished { items, stats } => {
                    runs.push(RunPred::Finished(li::skeleton(&items, |k| k.to_scaled(ds).0)));
                    full.push(Some((items, stats)));
                }
                Outcome::Diverges(_) => {
                    runs.push(RunPred::Diverges);
                    full.push(None);
                }
                Outcome::Undecided { .. } => {
                    runs.push(RunPred::Undecided);
                    full.push(None);
                }
            }
        }
    }
    (Prediction { diverging, undecided, runs }, full)
}

const MODELLED_FLAGS: [&str; 1] = ["phantom_ligature_in_chain"];

/// Deviation flags this property knows how to model.
fn deviation_for(flag: &str) -> Option<Deviations> {
    match flag {
        "phantom_ligature_in_chain" => Some(Deviations { tftopl_phantom_ligature: true }),
        _ => None,
    }
}

fn tfm_round_trip(b: &Built) -> Result<tfm::File, String> {
    let mut file = tfm::File::default();
    file.header = tfm::Header::tfm_default();
    file.header.design_size = b.design_size;
    file.widths = vec![FixWord::ZERO, FixWord::ONE];
    let mut chars: Vec<u8> = b.letters.clone();
    chars.extend([b.outside, PAD_LEFT, PAD_RIGHT, EXTRA]);
    for c in &chars {
        file.char_dimens.insert(
            Char(*c),
            tfm::CharDimensions { width_index: tfm::WidthIndex::Valid(std::num::NonZeroU8::new(1).unwrap()), height_index: 0, depth_index: 0, italic_index: 0 },
        );
    }
    file.smallest_char = Char(chars.iter().copied().min().unwrap());
    file.replace_lig_kern_program(b.program.clone(), b.entrypoints.clone());
    let bytes = file.serialize();
    let (r, _warnings) = tfm::File::deserialize(&bytes);
    r.map_err(|e| format!("the serialised TFM file does not deserialise: {e:?}"))
}

fn limits() -> Limits {
    Limits::default()
}

// ------------------------------------------------------------------------------------------
// boxworks-text: the node list `add_word` builds from the run items

/// A text preprocessor of boxworks-text with the compiled program registered as its only font.
struct AddWord {
    tp: boxworks_text::TextPreprocessorImpl,
}

impl AddWord {
    fn new(compiled: &CompiledProgram) -> Result<AddWord, String> {
        static PARAMS_FONT: std::sync::OnceLock<tfm::File> = std::sync::OnceLock::new();
        // register_font reads the four space parameters of the font; nothing else of the file matters
        let file = PARAMS_FONT.get_or_init(|| {
            let mut f = tfm::File::default();
            f.params = vec![FixWord::ZERO; 7];
            f
        });
        panics::catch(|| {
            let mut tp = boxworks_text::TextPreprocessorImpl::new(boxworks_text::Params::plain_tex_defaults());
            tp.register_font(0, file, compiled.clone());
            tp.activate_font(0);
            AddWord { tp }
        })
        .map_err(|p| format!("register_font panics at {}: {}", p.site(), p.message))
    }

    /// (node, original characters, includes_left_boundary, includes_right_boundary); discretionary
    /// nodes (TeX 1039, after a hyphen character; C12/C14's business) are dropped, nodes of any
    /// other kind (add_word builds none today) are counted and dropped.
    fn nodes(&mut self, word: &str) -> Result<Vec<(Glyph, Vec<u8>, bool, bool)>, String> {
        use boxworks::ds;
        use boxworks::TextPreprocessor;
        let tp = &mut self.tp;
        let r = panics::catch(|| {
            let mut list: Vec<ds::Horizontal> = vec![];
            tp.add_word(word, &mut list);
            let mut out = vec![];
            for h in &list {
                match h {
                    ds::Horizontal::Char(c) if c.font == 0 => out.push((Glyph::Char(c.char as u32 as u8), vec![], false, false)),
                    ds::Horizontal::Kern(k) => out.push((Glyph::Kern(k.width.0), vec![], false, false)),
                    ds::Horizontal::Ligature(l) if l.font == 0 => out.push((Glyph::Lig(l.char as u32 as u8), codes(&l.original_chars), l.includes_left_boundary, l.includes_right_boundary)),
                    ds::Horizontal::Discretionary(_) => {}
                    // the statement speaks about characters, ligature glyphs and kerns only; any
                    // other node is counted and left to the properties about horizontal lists
                    _ => {
                        OBS_OTHER_NODES.fetch_add(1, std::sync::atomic::Ordering::Relaxed);
                    }
                }
            }
            Ok::<_, String>(out)
        });
        match r {
            Ok(x) => x,
            Err(p) => Err(format!("add_word panics at {}: {}", p.site(), p.message)),
        }
    }
}

fn render_nodes(n: &[(Glyph, Vec<u8>, bool, bool)]) -> String {
    let mut s = String::new();
    for (g, o, l, r) in n {
        match g {
            Glyph::Char(c) => s.push_str(&li::show(*c)),
            Glyph::Kern(k) => s.push_str(&format!("[{}sp]", k)),
            Glyph::Lig(c) => s.push_str(&format!("<{}:{}{}{}>", li::show(*c), if *l { "|" } else { "" }, o.iter().map(|c| li::show(*c)).collect::<String>(), if *r { "|" } else { "" })),
        }
    }
    s
}

/// `add_word` on one word against the interpreter's output: the nodes must be the same characters,
/// ligature glyphs and kerns in the same order, and characters plus ligature originals must spell
/// the word. Returns whether originals and boundary bits are TeX's too (observation).
fn check_add_word(aw: &mut AddWord, word: &[u8], want: &[Glyph], items: &[Item], ds: FixWord) -> Result<bool, String> {
    let w = text(word);
    let nodes = aw.nodes(&w)?;
    let skel: Vec<Glyph> = nodes.iter().map(|n| n.0).collect();
    if skel != want {
        return Err(format!("boxworks_text add_word({w:?}) builds other nodes than TeX's main loop\ninterpreter: {}\nadd_word:    {}", render_glyphs(want), render_nodes(&nodes)));
    }
    let mut spelled: Vec<u8> = vec![];
    for (g, o, _, _) in &nodes {
        match g {
            Glyph::Char(c) => spelled.push(*c),
            Glyph::Lig(_) => spelled.extend(o),
            Glyph::Kern(_) => {}
        }
    }
    if spelled != word {
        return Err(format!("boxworks_text add_word({w:?}): characters plus original_chars of the ligature nodes spell {:?}\nadd_word: {}", text(&spelled), render_nodes(&nodes)));
    }
    Ok(nodes == model_as_items(items, ds))
}

static OBS_BITS_DIFFER: std::sync::atomic::AtomicU64 = std::sync::atomic::AtomicU64::new(0);
static OBS_GOLDEN_BITS_DIFFER: std::sync::atomic::AtomicU64 = std::sync::atomic::AtomicU64::new(0);
static OBS_OTHER_NODES: std::sync::atomic::AtomicU64 = std::sync::atomic::AtomicU64::new(0);

/// `Program::instructions_for_entrypoint` against the model's chain walk (SKIP n continues n+1
/// further on, STOP and stop words end the program).
fn check_entrypoint_iter(program: &Program, font: &RawFont) -> Result<(), String> {
    for l in font.lefts() {
        let e = font.entry_of(l).unwrap();
        let want = font.chain(e);
        let r = panics::catch(|| {
            let mut got = vec![];
            for (i, ins) in program.instructions_for_entrypoint(e as u16).take(want.len() + 2) {
                if program.instructions.get(i) != Some(ins) {
                    return Err(format!("instructions_for_entrypoint({e}) yields index {i} with another instruction than instructions[{i}]"));
                }
                got.push(i);
            }
            Ok(got)
        });
        let got = match r {
            Ok(Ok(g)) => g,
            Ok(Err(m)) => return Err(m),
            Err(p) => return Err(format!("instructions_for_entrypoint({e}) panics at {}: {}", p.site(), p.message)),
        };
        if got != want {
            return Err(format!(
                "instructions_for_entrypoint({e}) (program of {}) visits instructions {:?}, the SKIP/STOP chain from there is {:?}",
                l.map(|c| format!("{:?}", c as char)).unwrap_or("the left boundary".into()),
                got,
                want
            ));
        }
    }
    Ok(())
}

fn oracle(ctx: &Ctx, spec: &CaseSpec, case: &mut Case) -> Verdict {
    let v = oracle_inner(ctx, spec, case);
    // one count per case and class
    case.classes.sort();
    case.classes.dedup();
    v
}

fn oracle_inner(ctx: &Ctx, spec: &CaseSpec, case: &mut Case) -> Verdict {
    let b = build(spec);
    let ds = b.design_size;
    let plans = plans(spec, &b.letters, b.outside);
    let listing = li::render_font(&b.font);
    case.note = Some(format!("{}  words: {}", listing, plans.iter().filter(|p| p.default_run).map(|p| text(&p.word)).collect::<Vec<_>>().join(",")));
    case.class(if spec.via_tfm {
        "route:tfm"
    } else if spec.via_pl {
        "route:pl"
    } else {
        "route:direct"
    });
    case.class_if(b.program.instructions.len() > 255, "program>255 instructions");
    case.class_if(b.shared_instruction, "two labels enter one chain");
    case.class_if(b.uses_skip, "SKIP n>0");
    case.class_if(b.max_skip > 2, "SKIP n>2 in the program of a letter or of the left boundary");
    case.class(match spec.rb {
        RbSpec::Absent => "bchar:none",
        RbSpec::Inside(_) => "bchar:in alphabet",
        RbSpec::Outside => "bchar:outside alphabet",
    });
    case.class_if(b.program.left_boundary_char_entrypoint.is_some(), "left boundary program");
    case.class_if(spec.high, "a letter with code > 127");
    case.class_if(b.letters.contains(&0) || (spec.rb == RbSpec::Outside && b.outside == 0), "character code 0x00 in the alphabet or as boundary character");
    case.class_if(b.letters.contains(&0xFF) || (spec.rb == RbSpec::Outside && b.outside == 0xFF), "character code 0xFF in the alphabet or as boundary character");
    case.class_if(spec.design % 4 != 0, "design size other than 10pt");
    case.class_if(b.program.instructions.iter().any(|i| matches!(i.operation, Operation::Ligature { char_to_insert, .. } if char_to_insert.0 == EXTRA)), "inserts a character that has no program");

    // Program::instructions_for_entrypoint
    if let Err(m) = check_entrypoint_iter(&b.program, &b.font) {
        return Verdict::Fail(format!("{m}\nprogram: {listing}"));
    }

    // the implementation
    let (compiled, errors, font_eff) = if spec.via_tfm {
        let mut file = match panics::catch(|| tfm_round_trip(&b)) {
            Ok(Ok(f)) => f,
            Ok(Err(m)) => return Verdict::Fail(format!("{m}\nprogram: {listing}")),
            Err(p) => return Verdict::Fail(format!("panic while packing/serialising the program at {}: {}\nprogram: {listing}", p.site(), p.message)),
        };
        let (c, e) = match panics::catch(|| CompiledProgram::compile_from_tfm_file(&mut file)) {
            Ok(x) => x,
            Err(p) => return Verdict::Fail(format!("compile_from_tfm_file panics at {}: {}\nprogram: {listing}", p.site(), p.message)),
        };
        let f2 = RawFont::from_tfm_file(&file);
        case.class_if(f2.entries().iter().any(|(c, e)| file.lig_kern_entrypoints().get(&Char(*c)).map(|e8| *e8 as usize != *e).unwrap_or(false)), "entry point redirected");
        case.class_if(file.kerns.len() > 256, "kern array > 256 entries");
        // the same on the program as read back (stop words in it)
        if let Err(m) = check_entrypoint_iter(&file.lig_kern_program, &f2) {
            return Verdict::Fail(format!("{m}\nprogram (as read back from the TFM file): {}", li::render_font(&f2)));
        }
        (c, e, f2)
    } else if spec.via_pl {
        let mut pl = tfm::pl::File::default();
        pl.header.design_size = ds;
        let mut chars: Vec<u8> = b.letters.clone();
        chars.extend([b.outside, PAD_LEFT, PAD_RIGHT, EXTRA]);
        for c in chars {
            pl.char_dimens.insert(Char(c), tfm::pl::CharDimensions { width: Some(FixWord::ONE), ..Default::default() });
        }
        pl.replace_lig_kern_program(b.program.clone(), b.entrypoints.clone());
        match panics::catch(|| CompiledProgram::compile_from_pl_file(&pl)) {
            Ok((c, e)) => (c, e, b.font.clone()),
            Err(p) => return Verdict::Fail(format!("compile_from_pl_file panics at {}: {}\nprogram: {listing}", p.site(), p.message)),
        }
    } else {
        let mut ordered: Vec<(Char, u16)> = b.entrypoints.iter().map(|(c, e)| (*c, *e)).collect();
        ordered.sort();
        match panics::catch(|| CompiledProgram::compile(&b.program, ds, &[], ordered.into_iter().collect())) {
            Ok((c, e)) => (c, e, b.font.clone()),
            Err(p) => return Verdict::Fail(format!("compile panics at {}: {}\nprogram: {listing}", p.site(), p.message)),
        }
    };

    // the model on the instructions as generated
    let lim = limits();
    let (pred, full) = predict(&b.font, ds, &b.letters, &plans, lim, true, false);
    let exact = b.font.step_bound(1).map(|x| x <= lim.cap).unwrap_or(false);
    case.class(if exact { "termination decided exactly (2^(P+1) <= cap)" } else { "termination by cap 10^5 + repeated configuration" });
    if pred.undecided {
        case.class("termination undecided");
        // what is decided still binds: a pair proven to diverge obliges compile to report a loop,
        // and a reported pair that the interpreter finishes is a false report
        let one_sided = |font: &RawFont, diverging: &BTreeSet<(Option<u8>, u8)>| -> Result<(), String> {
            if !diverging.is_empty() && errors.is_empty() {
                return Err(format!("compile reports no infinite loop, but the instructions for {} never terminate", diverging.iter().map(|p| pair_name(*p)).collect::<Vec<_>>().join(" ")));
            }
            for e in &errors {
                let r = (e.starting_pair.0.map(|c| c.0), e.starting_pair.1 .0);
                if matches!(font.run_pair(r.0, r.1, lim), Outcome::Finished { .. }) {
                    return Err(format!("compile reports an infinite loop starting with {}, but that pair terminates", pair_name(r)));
                }
            }
            Ok(())
        };
        if let Err(msg) = one_sided(&b.font, &pred.diverging) {
            for f in ctx.known_flags().into_iter().filter(|f| deviation_for(f).is_some()) {
                let fd = font_eff.clone().with_deviations(deviation_for(&f).unwrap());
                let (pd, _) = predict(&fd, ds, &b.letters, &plans, lim, false, true);
                if one_sided(&fd, &pd.diverging).is_ok() {
                    return Verdict::Known(format!("flag:{f}"));
                }
            }
            return Verdict::Fail(format!("{msg}\n(termination of some other pair is undecided within the step cap)\nprogram: {listing}"));
        }
        return Verdict::Skip("termination undecided within the step cap");
    }
    if spec.via_tfm {
        // packing, serialising and reading back must not change the meaning of the raw program
        let (pred2, full2) = predict(&font_eff, ds, &b.letters, &plans, lim, true, false);
        if pred2 != pred {
            return Verdict::Fail(format!(
                "the raw program means something else after replace_lig_kern_program + serialize + deserialize\nbefore: {listing}\nafter:  {}\nbefore: diverging {:?} runs {:?}\nafter:  diverging {:?} runs {:?}",
                li::render_font(&font_eff),
                pred.diverging.iter().map(|p| pair_name(*p)).collect::<Vec<_>>(),
                pred.runs,
                pred2.diverging.iter().map(|p| pair_name(*p)).collect::<Vec<_>>(),
                pred2.runs,
            ));
        }
        case.class_if(full2.iter().flatten().any(|(_, st)| st.kern_index_ge_256), "kern with index >= 256 fires");
    }

    // observations of the implementation: every word is run, also on the table that compile
    // returns together with a loop report (it is what every consumer in the repository runs)
    let impl_loop = !errors.is_empty();
    let reported: Vec<(Option<u8>, u8)> = errors.iter().map(|e| (e.starting_pair.0.map(|c| c.0), e.starting_pair.1 .0)).collect();
    let mut impl_raw: Vec<Result<Vec<RunItem>, String>> = vec![];
    for (i, p) in plans.iter().enumerate() {
        // a word on which TeX itself does not come to an end has no expected output
        if !matches!(pred.runs[i], RunPred::Finished(_)) {
            impl_raw.push(Err("not run".into()));
            continue;
        }
        impl_raw.push(impl_items(&compiled, &text(&p.word), p.default_run, p.disable_left, p.rbo));
    }
    let describe = |p: &RunPlan| -> String {
        format!(
            "{}left boundary {}, right boundary {}",
            if p.default_run { "run(), " } else { "run_with_options(), " },
            if p.disable_left { "off" } else { "on" },
            match p.rbo {
                Some(c) => format!("overridden by {:?}", c as char),
                None => "of the font".to_string(),
            }
        )
    };

    let agrees = |pr: &Prediction| -> Result<(), String> {
        let model_loop = !pr.diverging.is_empty();
        if model_loop != impl_loop {
            return Err(if model_loop {
                format!("compile reports no infinite loop, but the instructions for {} never terminate", pr.diverging.iter().map(|p| pair_name(*p)).collect::<Vec<_>>().join(" "))
            } else {
                format!("compile reports an infinite loop starting with {} but every pair terminates", reported.iter().map(|p| pair_name(*p)).collect::<Vec<_>>().join(" "))
            });
        }
        for r in &reported {
            if !pr.diverging.contains(r) {
                return Err(format!("compile reports an infinite loop starting with {}, but that pair terminates (diverging pairs: {})", pair_name(*r), pr.diverging.iter().map(|p| pair_name(*p)).collect::<Vec<_>>().join(" ")));
            }
        }
        for (i, p) in plans.iter().enumerate() {
            // compared: the words on which TeX comes to an end
            if !matches!(pred.runs[i], RunPred::Finished(_)) {
                if pred.runs[i] == RunPred::Diverges && pred.diverging.is_empty() {
                    return Err(format!("model diverges on word {} although every pair terminates (model defect)", text(&p.word)));
                }
                continue;
            }
            let want = match &pr.runs[i] {
                RunPred::Finished(w) => w,
                _ => return Err(format!("deviating model does not finish on word {}", text(&p.word))),
            };
            let got = match &impl_raw[i] {
                Ok(items) => impl_skeleton(items),
                Err(m) => return Err(format!("{m}\nword: {:?} ({})", text(&p.word), describe(p))),
            };
            if &got != want {
                return Err(format!(
                    "glyph/kern sequence differs for word {:?} ({}){}\ninterpreter: {}\ncompiled:    {}",
                    text(&p.word),
                    describe(p),
                    if model_loop { "; compile reports a loop, but TeX's main loop comes to an end on this word" } else { "" },
                    render_glyphs(want),
                    render_glyphs(&got)
                ));
            }
        }
        Ok(())
    };

    if let Err(msg) = agrees(&pred) {
        // Is it exactly one of the listed known deviations (or a combination)?
        let flags: Vec<String> = ctx.known_flags().into_iter().filter(|f| deviation_for(f).is_some()).collect();
        for f in &flags {
            let dev = deviation_for(f).unwrap();
            let fd = font_eff.clone().with_deviations(dev);
            let (pd, _) = predict(&fd, ds, &b.letters, &plans, lim, true, true);
            if !pd.undecided && agrees(&pd).is_ok() {
                // the third sentence of the statement holds of any table: what was run must spell the word
                for (i, p) in plans.iter().enumerate() {
                    if let Ok(raw) = &impl_raw[i] {
                        if impl_spelled(raw) != text(&p.word) {
                            return Verdict::Fail(format!(
                                "plain characters plus ligature originals spell {:?}, not the word {:?} ({})\ncompiled: {}\nprogram: {listing}",
                                impl_spelled(raw),
                                text(&p.word),
                                describe(p),
                                render_run_items(raw)
                            ));
                        }
                    }
                }
                return Verdict::Known(format!("flag:{f}"));
            }
        }
        return Verdict::Fail(format!("{msg}\nprogram: {listing}\nroute: {}\ndesign size: {}/2^20 pt", if spec.via_tfm { "TFM file" } else if spec.via_pl { "pl::File" } else { "direct" }, ds.0));
    }

    if impl_loop {
        case.class("loop");
        case.class_if(pred.diverging.iter().any(|p| p.0.is_none()), "loop at the left boundary");
    } else {
        case.class("loop-free");
    }

    // the recorded characters spell the word; per-ligature originals are an observation only
    let mut nontrivial = impl_loop;
    let mut add_word: Option<AddWord> = None;
    for (i, p) in plans.iter().enumerate() {
        case.class_if(pred.runs[i] == RunPred::Undecided, "word: termination undecided within the step cap (not compared)");
        let RunPred::Finished(want) = &pred.runs[i] else { continue };
        let raw = impl_raw[i].as_ref().unwrap();
        let word = text(&p.word);
        let spelled = impl_spelled(raw);
        if spelled != word {
            return Verdict::Fail(format!(
                "plain characters plus ligature originals spell {:?}, not the word {:?} ({})\ncompiled: {}\nprogram: {listing}",
                spelled,
                word,
                describe(p),
                render_run_items(raw)
            ));
        }
        let (items, stats) = full[i].as_ref().unwrap();
        if li::spelled(items) != p.word {
            return Verdict::Fail(format!("model defect: the interpreter's originals spell {:?} for {:?}", text(&li::spelled(items)), word));
        }
        let mut bits_differ = impl_as_items(raw) != model_as_items(items, ds);
        if p.default_run {
            // boxworks-text: add_word runs the word with the default options
            if add_word.is_none() {
                add_word = match AddWord::new(&compiled) {
                    Ok(a) => Some(a),
                    Err(m) => return Verdict::Fail(m),
                };
            }
            match check_add_word(add_word.as_mut().unwrap(), &p.word, want, items, ds) {
                Ok(same) => bits_differ |= !same,
                Err(m) => return Verdict::Fail(format!("{m}\nprogram: {listing}")),
            }
            case.class("add_word node list compared");
        }
        if bits_differ {
            OBS_BITS_DIFFER.fetch_add(1, std::sync::atomic::Ordering::Relaxed);
            case.class("obs: per-ligature originals/boundary bits differ from TeX's (not part of the property)");
        }
        case.class_if(impl_loop, "loop program: word on which TeX terminates compared");
        case.class_if(p.word.len() > 6, "word of 7-40 letters");
        case.class_if(p.word.len() > 6 && stats.lig_steps >= 8, "word of 7-40 letters with >= 8 ligature steps");
        case.class_if(stats.reentered, "ligature result re-enters a pair with a rule");
        case.class_if(stats.left_boundary_rule, "left boundary rule fires");
        case.class_if(stats.right_boundary_rule, "right boundary rule fires");
        case.class_if(stats.kern_steps > 0, "kern fires");
        case.class_if(stats.kern_steps > 0 && spec.design % 4 != 0, "kern fires at a design size other than 10pt");
        case.class_if(stats.kern_steps > 0 && spec.kern_low != 0, "kern with low-order bits fires");
        case.class_if(stats.fired_after_skip_gt_2, "rule reached over a SKIP n>2 fires");
        case.class_if(stats.lig_steps >= 4, ">=4 ligature steps in a word");
        case.class_if(stats.touched_00_or_ff, "rule on a pair with character code 0x00 or 0xFF fires");
        for (fi, name) in ["=:", "=:|", "=:|>", "|=:", "|=:>", "|=:|", "|=:|>", "|=:|>>"].iter().enumerate() {
            if stats.forms & (1 << fi) != 0 {
                case.class(match *name {
                    "=:" => "form =:",
                    "=:|" => "form =:|",
                    "=:|>" => "form =:|>",
                    "|=:" => "form |=:",
                    "|=:>" => "form |=:>",
                    "|=:|" => "form |=:|",
                    "|=:|>" => "form |=:|>",
                    _ => "form |=:|>>",
                });
            }
        }
        case.class_if(!p.default_run && p.disable_left, "mode: left boundary off");
        case.class_if(!p.default_run && p.rbo.is_some(), "mode: right boundary overridden");
        nontrivial |= stats.reentered || stats.left_boundary_rule || stats.right_boundary_rule;
    }
    Verdict::pass(nontrivial)
}

// ------------------------------------------------------------------------------------------
// Calibration: a tiny reader for the unit-test tables of the repository

#[derive(Clone, Debug, PartialEq)]
enum Tok {
    Id(String),
    Ch(char),
    Str(String),
    Num(i64),
    P(char),
}

fn lex(src: &str) -> Vec<Tok> {
    let b: Vec<char> = src.chars().collect();
    let mut i = 0;
    let mut out = vec![];
    while i < b.len() {
        let c = b[i];
        if c.is_whitespace() {
            i += 1;
        } else if c == '/' && b.get(i + 1) == Some(&'/') {
            while i < b.len() && b[i] != '\n' {
                i += 1;
            }
        } else if c == '"' {
            let mut s = String::new();
            i += 1;
            while i < b.len() && b[i] != '"' {
                if b[i] == '\\' && i + 1 < b.len() {
                    i += 1;
                    s.push(match b[i] {
                        'n' => '\n',
                        't' => '\t',
                        x => x,
                    });
                } else {
                    s.push(b[i]);
                }
                i += 1;
            }
            i += 1;
            out.push(Tok::Str(s));
        } else if c == '\'' && b.get(i + 2) == Some(&'\'') {
            out.push(Tok::Ch(b[i + 1]));
            i += 3;
        } else if c.is_ascii_digit() {
            let mut n = 0i64;
            while i < b.len() && (b[i].is_ascii_digit() || b[i] == '_') {
                if b[i] != '_' {
                    n = n * 10 + b[i].to_digit(10).unwrap() as i64;
                }
                i += 1;
            }
            out.push(Tok::Num(n));
        } else if c.is_alphabetic() || c == '_' {
            let mut s = String::new();
            while i < b.len() && (b[i].is_alphanumeric() || b[i] == '_') {
                s.push(b[i]);
                i += 1;
            }
            out.push(Tok::Id(s));
        } else {
            out.push(Tok::P(c));
            i += 1;
        }
    }
    out
}

struct Rd {
    t: Vec<Tok>,
    i: usize,
}

impl Rd {
    fn peek(&self) -> Option<&Tok> {
        self.t.get(self.i)
    }
    fn next(&mut self) -> Result<Tok, String> {
        let t = self.t.get(self.i).cloned().ok_or("unexpected end")?;
        self.i += 1;
        Ok(t)
    }
    fn p(&mut self, c: char) -> Result<(), String> {
        match self.next()? {
            Tok::P(x) if x == c => Ok(()),
            t => Err(format!("expected {c:?}, found {t:?} at token {}", self.i)),
        }
    }
    fn eat(&mut self, c: char) -> bool {
        if self.peek() == Some(&Tok::P(c)) {
            self.i += 1;
            true
        } else {
            false
        }
    }
    fn id(&mut self) -> Result<String, String> {
        match self.next()? {
            Tok::Id(s) => Ok(s),
            t => Err(format!("expected identifier, found {t:?} at token {}", self.i)),
        }
    }
    fn kw(&mut self, k: &str) -> Result<(), String> {
        let s = self.id()?;
        if s == k {
            Ok(())
        } else {
            Err(format!("expected {k}, found {s} at token {}", self.i))
        }
    }
    fn ch(&mut self) -> Result<char, String> {
        match self.next()? {
            Tok::Ch(c) => Ok(c),
            t => Err(format!("expected char literal, found {t:?} at token {}", self.i)),
        }
    }
    fn st(&mut self) -> Result<String, String> {
        match self.next()? {
            Tok::Str(s) => Ok(s),
            t => Err(format!("expected string literal, found {t:?} at token {}", self.i)),
        }
    }
    fn num(&mut self) -> Result<i64, String> {
        match self.next()? {
            Tok::Num(n) => Ok(n),
            t => Err(format!("expected number, found {t:?} at token {}", self.i)),
        }
    }
    /// `a::b::c` → last segment
    fn path(&mut self) -> Result<String, String> {
        let mut s = self.id()?;
        while self.peek() == Some(&Tok::P(':')) {
            self.p(':')?;
            self.p(':')?;
            s = self.id()?;
        }
        Ok(s)
    }
    /// `X::ONE` or `X::ONE * k`
    fn one_times(&mut self) -> Result<i64, String> {
        let last = self.path()?;
        if last != "ONE" {
            return Err(format!("expected ..::ONE, found {last}"));
        }
        if self.eat('*') {
            self.num()
        } else {
            Ok(1)
        }
    }
    fn vec_open(&mut self) -> Result<(), String> {
        self.kw("vec")?;
        self.p('!')?;
        self.p('[')
    }
}

#[derive(Clone, Debug, PartialEq, Eq, Serialize, Deserialize)]
pub enum GItem {
    Char(u8),
    /// multiples of 1pt
    Kern(i64),
    Lig { c: u8, original: String, lb: bool, rb: bool },
}

#[derive(Clone, Debug, Serialize, Deserialize)]
pub struct RunGolden {
    pub name: String,
    pub program: String,
    pub input: String,
    pub want: Vec<GItem>,
}

fn parse_run_goldens(src: &str) -> Result<Vec<RunGolden>, String> {
    let at = src.find("\n    tests!(").ok_or("no tests!( invocation")?;
    let mut r = Rd { t: lex(&src[at..]), i: 0 };
    r.kw("tests")?;
    r.p('!')?;
    r.p('(')?;
    let mut out = vec![];
    while !r.eat(')') {
        r.p('(')?;
        let name = r.id()?;
        r.p(',')?;
        let program = r.st()?;
        r.p(',')?;
        let input = r.st()?;
        r.p(',')?;
        r.vec_open()?;
        let mut want = vec![];
        while !r.eat(']') {
            let kind = r.id()?;
            r.p('(')?;
            match kind.as_str() {
                "Char" => want.push(GItem::Char(r.ch()? as u32 as u8)),
                "Kern" => want.push(GItem::Kern(r.one_times()?)),
                "Ligature" => {
                    r.kw("L")?;
                    r.p('{')?;
                    let (mut c, mut original, mut lb, mut rb) = (0u8, String::new(), false, false);
                    while !r.eat('}') {
                        let f = r.id()?;
                        r.p(':')?;
                        match f.as_str() {
                            "c" => c = r.ch()? as u32 as u8,
                            "original" => {
                                original = r.st()?;
                                r.p('.')?;
                                r.kw("into")?;
                                r.p('(')?;
                                r.p(')')?;
                            }
                            "includes_left_boundary" => lb = r.id()? == "true",
                            "includes_right_boundary" => rb = r.id()? == "true",
                            o => return Err(format!("unknown field {o}")),
                        }
                        r.eat(',');
                    }
                    want.push(GItem::Lig { c, original, lb, rb });
                }
                o => return Err(format!("unknown item {o} in {name}")),
            }
            r.p(')')?;
            r.eat(',');
        }
        r.eat(',');
        r.p(')')?;
        r.eat(',');
        out.push(RunGolden { name, program, input, want });
    }
    Ok(out)
}

#[derive(Clone, Debug, Serialize, Deserialize)]
pub enum GInstr {
    Kern { next: Option<u8>, right: u8, k: i64 },
    Lig { next: Option<u8>, right: u8, insert: u8, form: String },
}

/// (char, is_lig)
type GC = (u8, bool);

#[derive(Clone, Debug, Serialize, Deserialize)]
pub enum GOp {
    C(u8, bool),
    Kern(i64),
}

#[derive(Clone, Debug, Serialize, Deserialize)]
pub struct CompileGolden {
    pub name: String,
    pub instrs: Vec<GInstr>,
    pub entries: Vec<(u8, u16)>,
    pub want: Vec<(u8, u8, Vec<GOp>, GC)>,
}

fn parse_opt_u8(r: &mut Rd) -> Result<Option<u8>, String> {
    match r.id()?.as_str() {
        "None" => Ok(None),
        "Some" => {
            r.p('(')?;
            let n = r.num()?;
            r.p(')')?;
            Ok(Some(n as u8))
        }
        o => Err(format!("expected None/Some, found {o}")),
    }
}

fn parse_c(r: &mut Rd) -> Result<GC, String> {
    // `C::char(Char::A)` or `C { c: Char::Z, is_lig: true, }`
    r.kw("C")?;
    if r.eat('{') {
        let (mut c, mut lig) = (0u8, false);
        while !r.eat('}') {
            let f = r.id()?;
            r.p(':')?;
            match f.as_str() {
                "c" => c = r.path()?.bytes().next().unwrap(),
                "is_lig" => lig = r.id()? == "true",
                o => return Err(format!("unknown field {o}")),
            }
            r.eat(',');
        }
        Ok((c, lig))
    } else {
        r.p(':')?;
        r.p(':')?;
        r.kw("char")?;
        r.p('(')?;
        let c = r.path()?.bytes().next().unwrap();
        r.p(')')?;
        Ok((c, false))
    }
}

fn parse_compile_goldens(src: &str) -> Result<Vec<CompileGolden>, String> {
    let at = src.find("\n    success_tests!(").ok_or("no success_tests!( invocation")?;
    let mut r = Rd { t: lex(&src[at..]), i: 0 };
    r.kw("success_tests")?;
    r.p('!')?;
    r.p('(')?;
    let mut out = vec![];
    while !r.eat(')') {
        r.p('(')?;
        let name = r.id()?;
        r.p(',')?;
        r.vec_open()?;
        let mut instrs = vec![];
        while !r.eat(']') {
            let f = r.id()?;
            r.p('(')?;
            let next = parse_opt_u8(&mut r)?;
            r.p(',')?;
            let right = r.ch()? as u32 as u8;
            r.p(',')?;
            match f.as_str() {
                "new_kern" => {
                    let k = r.one_times()?;
                    instrs.push(GInstr::Kern { next, right, k });
                }
                "new_lig" => {
                    let insert = r.ch()? as u32 as u8;
                    r.p(',')?;
                    let form = r.id()?;
                    instrs.push(GInstr::Lig { next, right, insert, form });
                }
                o => return Err(format!("unknown constructor {o}")),
            }
            r.eat(',');
            r.p(')')?;
            r.eat(',');
        }
        r.p(',')?;
        r.vec_open()?;
        let mut entries = vec![];
        while !r.eat(']') {
            r.p('(')?;
            let c = r.ch()? as u32 as u8;
            r.p(',')?;
            let e = r.num()? as u16;
            r.p(')')?;
            r.eat(',');
            entries.push((c, e));
        }
        r.p(',')?;
        r.vec_open()?;
        let mut want = vec![];
        while !r.eat(']') {
            r.p('(')?;
            let l = r.ch()? as u32 as u8;
            r.p(',')?;
            let rr = r.ch()? as u32 as u8;
            r.p(',')?;
            r.vec_open()?;
            let mut ops = vec![];
            while !r.eat(']') {
                r.kw("IntermediateOp")?;
                r.p(':')?;
                r.p(':')?;
                let k = r.id()?;
                r.p('(')?;
                match k.as_str() {
                    "C" => {
                        let (c, lig) = parse_c(&mut r)?;
                        ops.push(GOp::C(c, lig));
                    }
                    "Kern" => ops.push(GOp::Kern(r.one_times()?)),
                    o => return Err(format!("unknown op {o}")),
                }
                r.p(')')?;
                r.eat(',');
            }
            r.p(',')?;
            let last = parse_c(&mut r)?;
            r.eat(',');
            r.p(')')?;
            r.eat(',');
            want.push((l, rr, ops, last));
        }
        r.eat(',');
        r.p(')')?;
        r.eat(',');
        out.push(CompileGolden { name, instrs, entries, want });
    }
    Ok(out)
}

fn repo_dir() -> String {
    std::env::var("VP_REPO").unwrap_or_else(|_| "/repo".to_string())
}

fn read_repo(rel: &str) -> Option<String> {
    let p = format!("{}/{}", repo_dir(), rel);
    match std::fs::read_to_string(&p) {
        Ok(s) => Some(s),
        Err(e) => {
            eprintln!("C05: cannot read {p}: {e} (that calibration is skipped)");
            None
        }
    }
}

/// A calibration whose source (the text of a unit-test table in the repository) cannot be read by
/// the little parser below is skipped and counted; it says nothing about the property.
fn calib_skipped(ctx: &Ctx, sub: &str, reason: &'static str) {
    eprintln!("C05: {sub}: {reason}");
    run_list(ctx, sub, vec![serde_json::Value::Null], move |_: &serde_json::Value, _case| Verdict::Skip(reason));
}

fn form_by_name(n: &str) -> Option<PostLigOperation> {
    use PostLigOperation::*;
    Some(match n {
        "RetainBothMoveNowhere" => RetainBothMoveNowhere,
        "RetainBothMoveToInserted" => RetainBothMoveToInserted,
        "RetainBothMoveToRight" => RetainBothMoveToRight,
        "RetainRightMoveToInserted" => RetainRightMoveToInserted,
        "RetainRightMoveToRight" => RetainRightMoveToRight,
        "RetainLeftMoveNowhere" => RetainLeftMoveNowhere,
        "RetainLeftMoveToInserted" => RetainLeftMoveToInserted,
        "RetainNeitherMoveToInserted" => RetainNeitherMoveToInserted,
        _ => return None,
    })
}

fn golden_as_items(w: &[GItem]) -> Vec<(Glyph, Vec<u8>, bool, bool)> {
    w.iter()
        .map(|g| match g {
            GItem::Char(c) => (Glyph::Char(*c), vec![], false, false),
            GItem::Kern(k) => (Glyph::Kern((*k as i32) << 16), vec![], false, false),
            GItem::Lig { c, original, lb, rb } => (Glyph::Lig(*c), original.bytes().collect(), *lb, *rb),
        })
        .collect()
}

fn run_golden_oracle(ligaroo: &str, g: &RunGolden, case: &mut Case) -> Verdict {
    let source = ligaroo.replace("(LIGTABLE", &format!("(LIGTABLE\n{}", g.program));
    let pl = tfm::pl::File::from_pl_source_code(&source).0;
    let mut eps: Vec<(Char, u16)> = pl.lig_kern_entrypoints(false).into_iter().collect();
    eps.sort();
    let font = RawFont::from_program(&pl.lig_kern_program, eps, &[]);
    case.note = Some(format!("{}: {} on {:?}", g.name, li::render_font(&font), g.input));
    let opts = li::RunOptions { left_boundary: true, right_boundary: font.right_boundary_char() };
    let out = font.run_word(g.input.as_bytes(), opts, limits());
    let Some((items, stats)) = out.finished() else {
        return Verdict::Fail(format!("model does not finish on unit test {}: {:?}", g.name, out));
    };
    let want = golden_as_items(&g.want);
    let got = model_as_items(items, pl.header.design_size);
    // what the property speaks about: glyph/kern sequence and spelling
    let skel = |v: &[(Glyph, Vec<u8>, bool, bool)]| v.iter().map(|x| x.0).collect::<Vec<Glyph>>();
    if skel(&got) != skel(&want) || li::spelled(items) != g.input.as_bytes() {
        return Verdict::Fail(format!("MODEL DISAGREES WITH A TeX-VERIFIED GOLDEN (unit test {}): model {} golden {:?}", g.name, li::render_items(items), g.want));
    }
    // per-ligature originals and boundary bits: an observation, as in the main oracle
    if got != want {
        OBS_GOLDEN_BITS_DIFFER.fetch_add(1, std::sync::atomic::Ordering::Relaxed);
        case.class("obs: the golden's per-ligature originals/boundary bits differ from the model's (not part of the property)");
    }
    Verdict::pass(stats.reentered || stats.left_boundary_rule || stats.right_boundary_rule)
}

fn compile_golden_oracle(g: &CompileGolden, case: &mut Case) -> Verdict {
    let mut instructions = vec![];
    for i in &g.instrs {
        instructions.push(match i {
            GInstr::Kern { next, right, k } => Instruction { next_instruction: *next, right_char: Char(*right), operation: Operation::Kern(FixWord::ONE * (*k as i32)) },
            GInstr::Lig { next, right, insert, form } => {
                let Some(f) = form_by_name(form) else { return Verdict::Fail(format!("unknown form {form}")) };
                Instruction { next_instruction: *next, right_char: Char(*right), operation: Operation::Ligature { char_to_insert: Char(*insert), post_lig_operation: f, post_lig_tag_invalid: false } }
            }
        });
    }
    let program = Program { instructions, ..Default::default() };
    let font = RawFont::from_program(&program, g.entries.iter().map(|(c, e)| (Char(*c), *e)), &[]);
    case.note = Some(format!("{}: {}", g.name, li::render_font(&font)));
    // the pairs that own an instruction are exactly the keys of the golden table
    let mut have = BTreeSet::new();
    for l in font.lefts() {
        for r in font.rights_of(l) {
            if font.lookup(l, r).is_some() {
                have.insert((l.unwrap(), r));
            }
        }
    }
    let keys: BTreeSet<(u8, u8)> = g.want.iter().map(|w| (w.0, w.1)).collect();
    if have != keys {
        return Verdict::Fail(format!("MODEL DISAGREES WITH A GOLDEN ({}): pairs with an instruction {:?}, golden table has {:?}", g.name, have, keys));
    }
    let mut nontrivial = false;
    for (l, r, ops, last) in &g.want {
        let out = font.run_pair(Some(*l), *r, limits());
        let Some((items, stats)) = out.finished() else {
            return Verdict::Fail(format!("model does not finish on pair ({},{}) of {}", *l as char, *r as char, g.name));
        };
        nontrivial |= stats.reentered;
        let got = li::skeleton(items, |k| k.to_scaled(FixWord::ONE).0);
        let mut want: Vec<Glyph> = ops
            .iter()
            .map(|o| match o {
                GOp::C(c, false) => Glyph::Char(*c),
                GOp::C(c, true) => Glyph::Lig(*c),
                GOp::Kern(k) => Glyph::Kern((*k as i32) << 16),
            })
            .collect();
        want.push(if last.1 { Glyph::Lig(last.0) } else { Glyph::Char(last.0) });
        if got != want {
            return Verdict::Fail(format!("MODEL DISAGREES WITH A GOLDEN ({} pair ({},{})): model {} golden {}", g.name, *l as char, *r as char, render_glyphs(&got), render_glyphs(&want)));
        }
    }
    Verdict::pass(nontrivial)
}

// lang.rs: the compact notation `ab -> a^xb` of the parse_compact unit tests spells a form out
// (retained characters, `_` for a deleted one, `^` after the character under the cursor).

#[derive(Clone, Debug, Serialize, Deserialize)]
pub struct CompactGolden {
    pub text: String,
    pub form: String,
}

fn parse_compact_goldens(src: &str) -> Vec<CompactGolden> {
    let Some(at) = src.find("\n    parse_compact_operation_tests!(") else { return vec![] };
    let toks = lex(&src[at..]);
    let mut cur: Option<String> = None;
    let mut out = vec![];
    let mut i = 0;
    while i < toks.len() {
        match &toks[i] {
            Tok::Str(s) if s.contains(" -> ") => cur = Some(s.clone()),
            Tok::Id(id) if id == "PostLigOperation" => {
                if let (Some(Tok::P(':')), Some(Tok::P(':')), Some(Tok::Id(name))) = (toks.get(i + 1), toks.get(i + 2), toks.get(i + 3)) {
                    if let Some(text) = cur.take() {
                        out.push(CompactGolden { text, form: name.clone() });
                    }
                }
            }
            _ => {}
        }
        i += 1;
    }
    out
}

fn compact_golden_oracle(g: &CompactGolden, case: &mut Case) -> Verdict {
    case.note = Some(format!("{} = {}", g.text, g.form));
    let words: Vec<&str> = g.text.split_whitespace().collect();
    if words.len() != 3 {
        return Verdict::Fail(format!("cannot read compact golden {:?}", g.text));
    }
    let lr: Vec<char> = words[0].chars().collect();
    let third: Vec<char> = words[2].chars().collect();
    let elems: Vec<char> = third.iter().copied().filter(|c| *c != '^').collect();
    let caret = third.iter().position(|c| *c == '^').unwrap_or(0);
    if lr.len() != 2 || elems.len() != 3 || caret == 0 {
        return Verdict::Fail(format!("cannot read compact golden {:?}", g.text));
    }
    let keep_left = elems[0] != '_';
    let keep_right = elems[2] != '_';
    // the cursor stands on element caret-1; the first surviving element is 0 or 1
    let advance = (caret - 1 - if keep_left { 0 } else { 1 }) as u8;
    let Some(op) = form_by_name(&g.form) else { return Verdict::Fail(format!("unknown form {}", g.form)) };
    let got = li::lig_form(op);
    let want = li::LigForm { keep_left, keep_right, advance };
    if got != want {
        return Verdict::Fail(format!("MODEL DISAGREES WITH A GOLDEN: {} is {:?} in the model, the unit test {:?} says {:?}", g.form, got, g.text, want));
    }
    // and the interpreter leaves exactly the spelled list
    let left = if lr[0] == '|' { None } else { Some(lr[0] as u32 as u8) };
    let program = Program {
        instructions: vec![Instruction {
            next_instruction: None,
            right_char: Char(lr[1] as u32 as u8),
            operation: Operation::Ligature { char_to_insert: Char(elems[1] as u32 as u8), post_lig_operation: op, post_lig_tag_invalid: false },
        }],
        left_boundary_char_entrypoint: if left.is_none() { Some(0) } else { None },
        ..Default::default()
    };
    let font = RawFont::from_program(&program, left.map(|c| (Char(c), 0u16)), &[]);
    let out = font.run_pair(left, lr[1] as u32 as u8, limits());
    let Some((items, _)) = out.finished() else { return Verdict::Fail(format!("model does not finish on {:?}", g.text)) };
    let got: String = li::skeleton(items, |_| 0)
        .iter()
        .map(|x| match x {
            Glyph::Char(c) | Glyph::Lig(c) => *c as char,
            Glyph::Kern(_) => '?',
        })
        .collect();
    let want: String = elems.iter().filter(|c| **c != '_' && !(left.is_none() && **c == '|')).collect();
    if got != want {
        return Verdict::Fail(format!("MODEL DISAGREES WITH A GOLDEN: {:?} leaves {:?} in the model", g.text, got));
    }
    Verdict::pass(false)
}

// Corpus: TFtoPL's recorded verdict about infinite loops.

#[derive(Clone, Debug, Serialize, Deserialize)]
pub struct CorpusFile {
    pub tfm: String,
    pub expect_loop: bool,
}

fn corpus_files() -> Vec<CorpusFile> {
    let mut out = vec![];
    for dir in ["computer-modern", "ctan", "originals", "fuzz"] {
        let d = format!("{}/crates/tfm/corpus/{}", repo_dir(), dir);
        let Ok(rd) = std::fs::read_dir(&d) else { continue };
        let mut names: Vec<String> = rd.filter_map(|e| e.ok()).map(|e| e.file_name().to_string_lossy().to_string()).filter(|n| n.ends_with(".tfm")).collect();
        names.sort();
        for n in names {
            let stem = n.trim_end_matches(".tfm");
            let stderr = std::fs::read_to_string(format!("{d}/{stem}.stderr.txt")).unwrap_or_default();
            if stderr.contains("All ligatures will be cleared") {
                continue; // PLtoTF direction: the .tfm is the cleaned output
            }
            out.push(CorpusFile { tfm: format!("{dir}/{n}"), expect_loop: stderr.contains("Infinite ligature loop") });
        }
    }
    out
}

fn corpus_oracle(c: &CorpusFile, case: &mut Case) -> Verdict {
    let path = format!("{}/crates/tfm/corpus/{}", repo_dir(), c.tfm);
    let Ok(bytes) = std::fs::read(&path) else { return Verdict::Skip("corpus file unreadable") };
    let (r, _) = match panics::catch(|| tfm::File::deserialize(&bytes)) {
        Ok(x) => x,
        Err(_) => return Verdict::Skip("deserialize panics (C10's business)"),
    };
    let Ok(mut file) = r else { return Verdict::Skip("not a TFM file TFtoPL reads") };
    // TFtoPL looks for loops after its repairs (nonexistent characters replaced, bad labels
    // removed); these repairs are pinned by the repository's TFtoPL end-to-end tests.
    if panics::catch(|| file.validate_and_fix()).is_err() {
        return Verdict::Skip("validate_and_fix panics (C10's business)");
    }
    // TFtoPL semantics: phantom ligatures count
    let font = RawFont::from_tfm_file(&file).with_deviations(Deviations { tftopl_phantom_ligature: true });
    let mut diverging = vec![];
    for l in font.lefts() {
        for r in font.rights_of(l) {
            match font.run_pair(l, r, limits()) {
                Outcome::Finished { .. } => {}
                Outcome::Diverges(_) => diverging.push((l, r)),
                Outcome::Undecided { .. } => return Verdict::Skip("termination undecided within the step cap"),
            }
        }
    }
    case.note = Some(format!("{} loop={}", c.tfm, c.expect_loop));
    case.class_if(c.expect_loop, "TFtoPL reports a loop");
    if diverging.is_empty() == c.expect_loop {
        return Verdict::Fail(format!(
            "MODEL DISAGREES WITH TFtoPL on {}: TFtoPL {} an infinite loop, model finds diverging pairs {:?}",
            c.tfm,
            if c.expect_loop { "reports" } else { "does not report" },
            diverging.iter().map(|p| pair_name(*p)).collect::<Vec<_>>()
        ));
    }
    Verdict::pass(c.expect_loop)
}

// cmr10

fn cmr10() -> Result<&'static (CompiledProgram, RawFont, FixWord), Verdict> {
    static CELL: std::sync::OnceLock<Result<(CompiledProgram, RawFont, FixWord), (bool, String)>> = std::sync::OnceLock::new();
    let r = CELL.get_or_init(|| {
        let path = format!("{}/crates/tfm/corpus/computer-modern/cmr10.tfm", repo_dir());
        let bytes = std::fs::read(&path).map_err(|e| (false, format!("cannot read {path}: {e}")))?;
        let mut file = tfm::File::deserialize(&bytes).0.map_err(|e| (true, format!("cmr10.tfm does not deserialise: {e:?}")))?;
        let font = RawFont::from_tfm_file(&file);
        let ds = file.header.design_size;
        let (c, e) = CompiledProgram::compile_from_tfm_file(&mut file);
        if !e.is_empty() {
            return Err((true, format!("compile_from_tfm_file reports an infinite loop in cmr10 starting with {:?}", e[0].starting_pair)));
        }
        Ok((c, font, ds))
    });
    match r {
        Ok(x) => Ok(x),
        Err((true, m)) => Err(Verdict::Fail(m.clone())),
        Err((false, m)) => {
            eprintln!("C05: {m}");
            Err(Verdict::Skip("cmr10.tfm of the corpus is unreadable"))
        }
    }
}

const CMR_ALPHABET: &[u8] = b"fil-`'!?AVka";

/// Facts about cmr10 known from cmr10.pl / The TeXbook (glyph codes in octal).
fn cmr10_facts() -> Vec<(&'static str, Vec<Glyph>)> {
    vec![
        ("ff", vec![Glyph::Lig(0o13)]),
        ("fi", vec![Glyph::Lig(0o14)]),
        ("fl", vec![Glyph::Lig(0o15)]),
        ("ffi", vec![Glyph::Lig(0o16)]),
        ("ffl", vec![Glyph::Lig(0o17)]),
        ("--", vec![Glyph::Lig(0o173)]),
        ("---", vec![Glyph::Lig(0o174)]),
        ("``", vec![Glyph::Lig(0o134)]),
        ("''", vec![Glyph::Lig(0o42)]),
        ("!`", vec![Glyph::Lig(0o74)]),
        ("?`", vec![Glyph::Lig(0o76)]),
        ("il", vec![Glyph::Char(b'i'), Glyph::Char(b'l')]),
        // (A,V): KRN R -0.111112 of a 10pt design size = -1.11112pt = -72819sp
        ("AV", vec![Glyph::Char(b'A'), Glyph::Kern(-72819), Glyph::Char(b'V')]),
    ]
}

fn cmr_word(i: u64) -> Vec<u8> {
    let n = CMR_ALPHABET.len() as u64;
    let (len, mut k) = if i < n {
        (1, i)
    } else if i < n + n * n {
        (2, i - n)
    } else {
        (3, i - n - n * n)
    };
    let mut w = vec![];
    for _ in 0..len {
        w.push(CMR_ALPHABET[(k % n) as usize]);
        k /= n;
    }
    w
}

/// Model against facts about cmr10 (calibration; the implementation is not involved).
fn cmr_fact_oracle(i: usize, case: &mut Case) -> Verdict {
    let (_, font, ds) = match cmr10() {
        Ok(x) => x,
        Err(v) => return v,
    };
    let (w, fg) = cmr10_facts().swap_remove(i);
    case.note = Some(format!("cmr10 {w:?}"));
    let opts = li::RunOptions { left_boundary: true, right_boundary: font.right_boundary_char() };
    let out = font.run_word(w.as_bytes(), opts, limits());
    let Some((items, stats)) = out.finished() else { return Verdict::Fail(format!("model does not finish on cmr10 word {w:?}")) };
    let got = li::skeleton(items, |k| k.to_scaled(*ds).0);
    if got != fg {
        return Verdict::Fail(format!("MODEL DISAGREES WITH cmr10 FACT {w:?}: model {} expected {}", render_glyphs(&got), render_glyphs(&fg)));
    }
    if li::spelled(items) != w.as_bytes() {
        return Verdict::Fail(format!("MODEL: originals of {w:?} spell {:?}", li::spelled(items)));
    }
    Verdict::pass(stats.reentered)
}

/// Compiled cmr10 against the interpreter on short words (a real font as a differential case).
fn cmr_oracle(word: &[u8], case: &mut Case) -> Verdict {
    let (compiled, font, ds) = match cmr10() {
        Ok(x) => x,
        Err(v) => return v,
    };
    let w = String::from_utf8(word.to_vec()).unwrap();
    case.note = Some(format!("cmr10 {w:?}"));
    let mut nontrivial = false;
    for disable_left in [false, true] {
        let opts = li::RunOptions { left_boundary: !disable_left, right_boundary: font.right_boundary_char() };
        let out = font.run_word(word, opts, limits());
        let Some((items, stats)) = out.finished() else { return Verdict::Fail(format!("model does not finish on cmr10 word {w:?}")) };
        nontrivial |= stats.reentered;
        let want = li::skeleton(items, |k| k.to_scaled(*ds).0);
        let got = match impl_items(compiled, &w, false, disable_left, None) {
            Ok(x) => x,
            Err(m) => return Verdict::Fail(m),
        };
        if impl_skeleton(&got) != want {
            return Verdict::Fail(format!("cmr10 word {w:?}: interpreter {} compiled {}", render_glyphs(&want), render_run_items(&got)));
        }
        if impl_spelled(&got) != w {
            return Verdict::Fail(format!("cmr10 word {w:?}: compiled output spells {:?}: {}", impl_spelled(&got), render_run_items(&got)));
        }
    }
    Verdict::pass(nontrivial)
}

// ------------------------------------------------------------------------------------------
// corpus_words: the real TFM files of the repository's corpus (layouts written by PLtoTF and by
// other programs: redirect words, the boundary word in location 0, boundary programs, unreachable
// words), compiled the way boxworks compiles a font, against the interpreter.

#[derive(Clone, Debug, Serialize, Deserialize)]
pub struct CorpusWordsCase {
    /// path below crates/tfm/corpus
    pub tfm: String,
    /// the words are taken over characters 8*window .. 8*window+8 of the font's candidate list
    pub window: u32,
}

struct CorpusFont {
    compiled: CompiledProgram,
    reported: Vec<(Option<u8>, u8)>,
    /// TeX's reading of the file
    font: RawFont,
    diverging: BTreeSet<(Option<u8>, u8)>,
    /// the deviating readings of the file that this check can model (flag name, font, diverging pairs)
    devs: Vec<(&'static str, RawFont, BTreeSet<(Option<u8>, u8)>)>,
    ds: FixWord,
    /// characters of the font that occur in its lig/kern programs: each left character that has a
    /// program (those with ligature instructions first), followed by the right and inserted
    /// characters of its instructions
    candidates: Vec<u8>,
    redirected: bool,
    stop_word_in_a_program: bool,
}

fn all_corpus_tfms() -> Vec<String> {
    let mut out = vec![];
    for dir in ["computer-modern", "ctan", "originals", "fuzz"] {
        let d = format!("{}/crates/tfm/corpus/{}", repo_dir(), dir);
        let Ok(rd) = std::fs::read_dir(&d) else { continue };
        let mut names: Vec<String> = rd.filter_map(|e| e.ok()).map(|e| e.file_name().to_string_lossy().to_string()).filter(|n| n.ends_with(".tfm")).collect();
        names.sort();
        out.extend(names.into_iter().map(|n| format!("{dir}/{n}")));
    }
    out
}

/// TeX 570 + 573 on the lig/kern part of a file: would `\font` load it? (TeX aborts with "Bad
/// metric (TFM) file" otherwise, so the interpreter has nothing to say about other files.) Beyond
/// TeX's tests the domain excludes op bytes that are none of 0,1,2,3,5,6,7,11: TeX 1040 executes
/// some of them unlike any of the eight forms, and the repository reads them as `=:`.
fn tex_accepts_lig_kern(file: &tfm::File) -> Result<(), &'static str> {
    let ins = &file.lig_kern_program.instructions;
    let nl = ins.len();
    let nk = file.kerns.len();
    let exists = |c: Char| file.char_dimens.contains_key(&c);
    let bchar = file.lig_kern_program.right_boundary_char;
    for (k, i) in ins.iter().enumerate() {
        match i.operation {
            Operation::EntrypointRedirect(u, _) => {
                if u as usize >= nl {
                    return Err("TeX 573 rejects the file (stop word with 256*op+rem >= nl)");
                }
            }
            op => {
                if Some(i.right_char) != bchar && !exists(i.right_char) {
                    return Err("TeX 573 rejects the file (right character does not exist)");
                }
                match op {
                    Operation::Ligature { char_to_insert, post_lig_tag_invalid, .. } => {
                        if post_lig_tag_invalid {
                            return Err("op byte that is none of the eight ligature forms (outside the property's domain)");
                        }
                        if !exists(char_to_insert) {
                            return Err("TeX 573 rejects the file (inserted character does not exist)");
                        }
                    }
                    Operation::KernAtIndex(x) => {
                        if x as usize >= nk {
                            return Err("TeX 573 rejects the file (kern index >= nk)");
                        }
                    }
                    _ => {}
                }
                if let Some(a) = i.next_instruction {
                    if k + a as usize + 1 >= nl {
                        return Err("TeX 573 rejects the file (SKIP leaves the program)");
                    }
                }
            }
        }
    }
    for (_, e) in file.lig_kern_entrypoints() {
        if e as usize >= nl {
            return Err("TeX 570 rejects the file (lig/kern label >= nl)");
        }
    }
    Ok(())
}

fn diverging_pairs(font: &RawFont) -> Option<BTreeSet<(Option<u8>, u8)>> {
    let mut d = BTreeSet::new();
    for l in font.lefts() {
        for r in font.rights_of(l) {
            match font.run_pair(l, r, limits()) {
                Outcome::Finished { .. } => {}
                Outcome::Diverges(_) => {
                    d.insert((l, r));
                }
                Outcome::Undecided { .. } => return None,
            }
        }
    }
    Some(d)
}

const COMPILE_PANICS: &str = "compile_from_tfm_file panics";

fn load_corpus_font(tfm: &str) -> Result<CorpusFont, &'static str> {
    let path = format!("{}/crates/tfm/corpus/{}", repo_dir(), tfm);
    let Ok(bytes) = std::fs::read(&path) else { return Err("corpus file unreadable") };
    let (r, _) = match panics::catch(|| tfm::File::deserialize(&bytes)) {
        Ok(x) => x,
        Err(_) => return Err("deserialize panics (C10's business)"),
    };
    let Ok(mut file) = r else { return Err("not a TFM file") };
    tex_accepts_lig_kern(&file)?;
    let font = RawFont::from_tfm_file(&file);
    let ds = file.header.design_size;
    let Some(diverging) = diverging_pairs(&font) else { return Err("termination undecided within the step cap") };
    let exists = |c: u8| file.char_dimens.contains_key(&Char(c));
    // candidate characters
    let mut lefts: Vec<u8> = font.entries().keys().copied().filter(|c| exists(*c)).collect();
    let has_lig = |l: u8| font.chain(font.entries()[&l]).iter().any(|k| matches!(font.instructions()[*k].operation, Operation::Ligature { .. }));
    lefts.sort_by_key(|l| (!has_lig(*l), *l));
    let mut candidates: Vec<u8> = vec![];
    let push = |c: u8, v: &mut Vec<u8>| {
        if exists(c) && !v.contains(&c) {
            v.push(c);
        }
    };
    if let Some(e) = font.left_boundary_entry() {
        for k in font.chain(e) {
            let i = &font.instructions()[k];
            push(i.right_char.0, &mut candidates);
            if let Operation::Ligature { char_to_insert, .. } = i.operation {
                push(char_to_insert.0, &mut candidates);
            }
        }
    }
    if let Some(b) = font.right_boundary_char() {
        // the characters with a rule for the right boundary come early
        for l in &lefts {
            if font.lookup(Some(*l), b).is_some() {
                push(*l, &mut candidates);
            }
        }
        push(b, &mut candidates);
    }
    for l in &lefts {
        push(*l, &mut candidates);
        for k in font.chain(font.entries()[l]) {
            let i = &font.instructions()[k];
            push(i.right_char.0, &mut candidates);
            if let Operation::Ligature { char_to_insert, .. } = i.operation {
                push(char_to_insert.0, &mut candidates);
            }
        }
    }
    let redirected = font.entries().iter().any(|(c, e)| file.lig_kern_entrypoints().get(&Char(*c)).map(|e8| *e8 as usize != *e).unwrap_or(false));
    let stop_word_in_a_program = font.lefts().iter().any(|l| font.chain(font.entry_of(*l).unwrap()).iter().any(|k| matches!(font.instructions()[*k].operation, Operation::EntrypointRedirect(..))));
    // the implementation, as boxworks uses it: the file as deserialised, errors beside the table
    let (compiled, errors) = match panics::catch(|| CompiledProgram::compile_from_tfm_file(&mut file)) {
        Ok(x) => x,
        Err(_) => return Err(COMPILE_PANICS),
    };
    let reported = errors.iter().map(|e| (e.starting_pair.0.map(|c| c.0), e.starting_pair.1 .0)).collect();
    let mut devs = vec![];
    for fl in MODELLED_FLAGS {
        let fd = font.clone().with_deviations(deviation_for(fl).unwrap());
        if let Some(d) = diverging_pairs(&fd) {
            devs.push((fl, fd, d));
        }
    }
    Ok(CorpusFont { compiled, reported, font, diverging, devs, ds, candidates, redirected, stop_word_in_a_program })
}

fn corpus_font(tfm: &str) -> std::sync::Arc<Result<CorpusFont, &'static str>> {
    static CACHE: std::sync::Mutex<BTreeMap<String, std::sync::Arc<Result<CorpusFont, &'static str>>>> = std::sync::Mutex::new(BTreeMap::new());
    if let Some(f) = CACHE.lock().unwrap().get(tfm) {
        return f.clone();
    }
    let f = std::sync::Arc::new(load_corpus_font(tfm));
    CACHE.lock().unwrap().entry(tfm.to_string()).or_insert(f).clone()
}

/// Evaluate `f(0..n)` on 16 threads (the engine hands a list of fewer than 4096 cases to a single
/// worker; the corpus fonts are few but big). Deterministic: results are stored by index.
fn par_map<R: Send>(n: usize, f: impl Fn(usize) -> R + Sync) -> Vec<R> {
    let next = std::sync::atomic::AtomicUsize::new(0);
    let out: std::sync::Mutex<Vec<Option<R>>> = std::sync::Mutex::new((0..n).map(|_| None).collect());
    std::thread::scope(|s| {
        for _ in 0..16 {
            std::thread::Builder::new()
                .stack_size(256 << 20)
                .spawn_scoped(s, || loop {
                    let i = next.fetch_add(1, std::sync::atomic::Ordering::Relaxed);
                    if i >= n {
                        break;
                    }
                    let r = f(i);
                    out.lock().unwrap()[i] = Some(r);
                })
                .expect("spawn");
        }
    });
    out.into_inner().unwrap().into_iter().map(|r| r.expect("worker died")).collect()
}

fn corpus_words_cases(max_windows: usize) -> Vec<CorpusWordsCase> {
    let mut out = vec![];
    let files = all_corpus_tfms();
    par_map(files.len(), |i| {
        corpus_font(&files[i]);
    });
    for tfm in files {
        let n = match &*corpus_font(&tfm) {
            Ok(f) => f.candidates.len().div_ceil(8).clamp(1, max_windows),
            Err(_) => 1,
        };
        for window in 0..n as u32 {
            out.push(CorpusWordsCase { tfm: tfm.clone(), window });
        }
    }
    out
}

fn corpus_words_oracle(ctx: &Ctx, c: &CorpusWordsCase, case: &mut Case) -> Verdict {
    let loaded = corpus_font(&c.tfm);
    let f = match &*loaded {
        Ok(f) => f,
        Err(r) if *r == COMPILE_PANICS => return Verdict::Fail(format!("compile_from_tfm_file panics on corpus font {}", c.tfm)),
        Err(r) => return Verdict::Skip(*r),
    };
    let start = (c.window as usize).saturating_mul(8).min(f.candidates.len());
    let alphabet: Vec<u8> = f.candidates[start..(start + 8).min(f.candidates.len())].to_vec();
    case.note = Some(format!("{} window {} characters {:?}", c.tfm, c.window, text(&alphabet)));
    case.class_if(f.font.right_boundary_char().is_some(), "font has a boundary character");
    case.class_if(f.font.left_boundary_entry().is_some(), "font has a left boundary program");
    case.class_if(f.redirected, "font has a redirected entry point (label word with skip byte > 128)");
    case.class_if(f.stop_word_in_a_program, "a program of the font runs into a stop word");
    case.class_if(f.ds != FixWord::ONE * 10, "design size other than 10pt");
    case.class_if(f.font.instructions().len() > 255, "program>255 instructions");
    case.class_if(f.font.kerns().len() > 256, "kern array > 256 entries");
    case.class_if(!f.diverging.is_empty(), "font with an infinite loop");

    // deviating readings of the font for the listed known findings
    let devs: Vec<&(&'static str, RawFont, BTreeSet<(Option<u8>, u8)>)> = f.devs.iter().filter(|(fl, _, _)| ctx.known(&format!("flag:{fl}"))).collect();
    let mut known: Option<String> = None;

    // loop report (once per font)
    if c.window == 0 {
        let verdict = |d: &BTreeSet<(Option<u8>, u8)>| -> Result<(), String> {
            if d.is_empty() != f.reported.is_empty() {
                return Err(if d.is_empty() {
                    format!("compile_from_tfm_file reports an infinite loop starting with {} but every pair terminates", f.reported.iter().map(|p| pair_name(*p)).collect::<Vec<_>>().join(" "))
                } else {
                    format!("compile_from_tfm_file reports no infinite loop, but the instructions for {} never terminate", d.iter().map(|p| pair_name(*p)).collect::<Vec<_>>().join(" "))
                });
            }
            for r in &f.reported {
                if !d.contains(r) {
                    return Err(format!("compile_from_tfm_file reports an infinite loop starting with {}, but that pair terminates", pair_name(*r)));
                }
            }
            Ok(())
        };
        if let Err(m) = verdict(&f.diverging) {
            match devs.iter().find(|(_, _, d)| verdict(d).is_ok()) {
                Some((fl, _, _)) => known = Some(format!("flag:{fl}")),
                None => return Verdict::Fail(format!("{m}\nfont: {}", c.tfm)),
            }
        }
    }

    // words of 1-3 characters over the window
    let n = alphabet.len();
    let mut words: Vec<Vec<u8>> = vec![];
    for a in 0..n {
        words.push(vec![alphabet[a]]);
        for b in 0..n {
            words.push(vec![alphabet[a], alphabet[b]]);
            for d in 0..n {
                words.push(vec![alphabet[a], alphabet[b], alphabet[d]]);
            }
        }
    }
    let mut nontrivial = !f.diverging.is_empty();
    let mut add_word = match AddWord::new(&f.compiled) {
        Ok(a) => a,
        Err(m) => return Verdict::Fail(m),
    };
    for word in &words {
        let w = text(word);
        for (disable_left, rbo) in [(false, None), (true, None), (false, Some(alphabet[0]))] {
            let opts = |font: &RawFont| li::RunOptions { left_boundary: !disable_left, right_boundary: rbo.or(font.right_boundary_char()) };
            let model = |font: &RawFont, d: &BTreeSet<(Option<u8>, u8)>| font.run_word_given(word, opts(font), word_limits(limits(), word.len()), Some(d));
            let out = model(&f.font, &f.diverging);
            let Some((items, stats)) = out.finished() else {
                case.class("word on which TeX does not terminate (not compared)");
                continue;
            };
            let want = li::skeleton(items, |k| k.to_scaled(f.ds).0);
            let got = match impl_items(&f.compiled, &w, !disable_left && rbo.is_none(), disable_left, rbo) {
                Ok(x) => x,
                Err(m) => return Verdict::Fail(format!("{m}\nfont {} word {w:?}", c.tfm)),
            };
            let how = format!("left boundary {}, right boundary {}", if disable_left { "off" } else { "on" }, rbo.map(|c| format!("overridden by {:?}", c as char)).unwrap_or("of the font".into()));
            if impl_skeleton(&got) != want {
                // exactly a listed deviation?
                let explained = devs.iter().find(|(_, fd, d)| {
                    fd.run_word_on_partial_table(word, opts(fd), word_limits(limits(), word.len()), d).finished().map(|(it, _)| li::skeleton(it, |k| k.to_scaled(f.ds).0) == impl_skeleton(&got)).unwrap_or(false)
                });
                match explained {
                    Some((fl, _, _)) => {
                        known = Some(format!("flag:{fl}"));
                        continue;
                    }
                    None => return Verdict::Fail(format!("font {} word {w:?} ({how}): glyph/kern sequence differs\ninterpreter: {}\ncompiled:    {}", c.tfm, render_glyphs(&want), render_run_items(&got))),
                }
            }
            if impl_spelled(&got) != w {
                return Verdict::Fail(format!("font {} word {w:?} ({how}): compiled output spells {:?}: {}", c.tfm, impl_spelled(&got), render_run_items(&got)));
            }
            let mut bits_differ = impl_as_items(&got) != model_as_items(items, f.ds);
            if !disable_left && rbo.is_none() {
                match check_add_word(&mut add_word, word, &want, items, f.ds) {
                    Ok(same) => bits_differ |= !same,
                    Err(m) => return Verdict::Fail(format!("{m}\nfont {}", c.tfm)),
                }
            }
            if bits_differ {
                OBS_BITS_DIFFER.fetch_add(1, std::sync::atomic::Ordering::Relaxed);
                case.class("obs: per-ligature originals/boundary bits differ from TeX's (not part of the property)");
            }
            case.class_if(!f.diverging.is_empty(), "loop program: word on which TeX terminates compared");
            case.class_if(stats.lig_steps > 0, "ligature fires");
            case.class_if(stats.kern_steps > 0, "kern fires");
            case.class_if(stats.reentered, "ligature result re-enters a pair with a rule");
            case.class_if(stats.left_boundary_rule, "left boundary rule fires");
            case.class_if(stats.right_boundary_rule, "right boundary rule fires");
            case.class_if(stats.kern_index_ge_256, "kern with index >= 256 fires");
            case.class_if(stats.fired_after_skip_gt_2, "rule reached over a SKIP n>2 fires");
            nontrivial |= stats.reentered || stats.left_boundary_rule || stats.right_boundary_rule;
        }
    }
    case.classes.sort();
    case.classes.dedup();
    match known {
        Some(k) => Verdict::Known(k),
        None => Verdict::pass(nontrivial),
    }
}

// ------------------------------------------------------------------------------------------

pub fn run(ctx: &Ctx) {
    ctx.rule("cases = lig/kern program (alphabet of 2, 3 or 4 letters, one of them optionally a code above 127 or one of the extreme codes 0x00/0xFF; per left symbol and for the left boundary a chain of 0-4 instructions: right character, kern (multiples of 1/16, optionally with low-order bits) or one of the eight ligature forms =: =:| =:|> |=: |=:> |=:| |=:|> |=:|>> with an inserted letter (rarely a character that has no program), continue/SKIP 1..40/STOP; labels may stand anywhere so several symbols enter one chain; optional right boundary character inside or outside the alphabet (outside: r, 0x00 or 0xFF); optional 230-330 instruction padding block so entry points and kern indices exceed 255, labels may stand in its tail; design size 10pt, 12pt, 7.5pt or 17.28pt; handed to compile directly, through pl::File, or through a serialised and re-read TFM file) x 5 words of 1-6 letters and sometimes one of 7-40 letters, each run with run(), with one generated run_with_options mode (left boundary off, right boundary overridden) and through boxworks_text add_word. corpus_words: every corpus TFM file that TeX would load x all words of 1-3 characters over windows of 8 characters from its lig/kern programs. Oracle: moving-cursor interpreter of the raw instructions after TeX 1034-1040; every pair (left symbol that has a program incl. the left boundary, right character) is evaluated on its own for termination; words are compared whenever the interpreter comes to an end on them, also when the program has a loop elsewhere. non-trivial = some pair diverges, or in some word a rule fires on a pair containing a character inserted by an earlier ligature step, or a left/right boundary rule fires; distinct = by generated case");
    ctx.assume("programs are well formed as PLtoTF writes them: every SKIP lands inside the program and the last instruction stops; stop words (skip byte > 128) are never reachable inside a chain except the ones pack_entrypoints itself creates; corpus files: the lig/kern part passes TeX's loading tests (TeX 570, 573) and every op byte is one of the eight forms");
    ctx.assume("all characters of words, right characters and inserted characters exist in the font (TeX 1036 drops nonexistent word characters before the lig/kern loop; TFtoPL repairs nonexistent instruction operands)");
    ctx.assume("termination: a run with more than symbols*2^(P+1) ligature steps (P = pairs owning a ligature instruction) diverges - exact; when that bound exceeds the fixed cap of 10^5 steps a repeated (cursor symbol, unread list) configuration proves divergence, finishing proves termination, anything else is skipped and counted; a word diverges exactly when its run brings a diverging pair under the cursor");
    ctx.assume("kern amounts are compared after the same FixWord::to_scaled(design size) (decided by C17)");
    ctx.assume("per-ligature original strings and the includes_left/right_boundary bits (of run items and of add_word's ligature nodes) are compared with TeX's only as an observation class and exported as a counter; the property demands the glyph/kern sequence and that plain characters plus originals spell the word; discretionary nodes that add_word inserts after a hyphen are ignored");
    ctx.assume("compile's report names a pair: each reported starting pair must itself diverge (a report for a terminating pair counts as a false report)");
    ctx.assume("a program with an infinite loop: the table compile returns beside the report is what every consumer in the repository runs (compile_from_tfm_file(..).0); the statement quantifies over every program and every word, so on each word on which TeX's main loop comes to an end (no diverging pair comes under the cursor) the table must give TeX's output; words on which TeX does not terminate have no expected output and are not compared");

    if ctx.is_generate() || matches!(&ctx.mode, Mode::Replay { sub, .. } if sub.starts_with("calib")) {
        // Calibration first: a model that disagrees with a golden is wrong. The goldens are read
        // from the text of the repository's unit tests; a table that this reader cannot parse
        // (layout of the test source changed) skips that calibration, it is no verdict.
        let ligaroo = read_repo("crates/tfm/src/ligkern/ligaroo.plst");
        match (read_repo("crates/tfm/src/ligkern/mod.rs").map(|s| parse_run_goldens(&s)), ligaroo) {
            (Some(Ok(g)), Some(ligaroo)) if g.len() >= 40 => {
                ctx.extra("calib_unit_run", "goldens", serde_json::json!(g.len()));
                run_list(ctx, "calib_unit_run", g, |g: &RunGolden, case| run_golden_oracle(&ligaroo, g, case));
                ctx.extra("calib_unit_run", "obs_goldens_whose_originals_or_boundary_bits_differ_from_the_model", serde_json::json!(OBS_GOLDEN_BITS_DIFFER.load(std::sync::atomic::Ordering::Relaxed)));
            }
            (Some(Err(e)), _) => {
                eprintln!("C05: unit-test table of ligkern/mod.rs: {e}");
                calib_skipped(ctx, "calib_unit_run", "the unit-test table of ligkern/mod.rs is not in the layout the calibration reader knows");
            }
            _ => calib_skipped(ctx, "calib_unit_run", "fewer than 40 run goldens found in ligkern/mod.rs, or a source file is unreadable"),
        }
        match read_repo("crates/tfm/src/ligkern/compiler.rs").map(|s| parse_compile_goldens(&s)) {
            Some(Ok(g)) if g.len() >= 20 => {
                ctx.extra("calib_unit_compile", "goldens", serde_json::json!(g.len()));
                run_list(ctx, "calib_unit_compile", g, |g: &CompileGolden, case| compile_golden_oracle(g, case));
            }
            Some(Err(e)) => {
                eprintln!("C05: unit-test table of ligkern/compiler.rs: {e}");
                calib_skipped(ctx, "calib_unit_compile", "the unit-test table of ligkern/compiler.rs is not in the layout the calibration reader knows");
            }
            _ => calib_skipped(ctx, "calib_unit_compile", "fewer than 20 compile goldens found in ligkern/compiler.rs, or the source file is unreadable"),
        }
        match read_repo("crates/tfm/src/ligkern/lang.rs").map(|s| parse_compact_goldens(&s)) {
            Some(g) if g.len() >= 8 => run_list(ctx, "calib_compact_forms", g, |g: &CompactGolden, case| compact_golden_oracle(g, case)),
            _ => calib_skipped(ctx, "calib_compact_forms", "fewer than 8 compact-notation goldens found in ligkern/lang.rs, or the source file is unreadable"),
        }
        run_list(ctx, "calib_corpus_loops", corpus_files(), |c: &CorpusFile, case| corpus_oracle(c, case));
        let facts: Vec<usize> = (0..cmr10_facts().len()).collect();
        run_list(ctx, "calib_cmr10_facts", facts, |i: &usize, case| cmr_fact_oracle(*i, case));
    }

    let n = ctx.tier.pick(500_000u64, 11_000_000u64);
    run_generated(ctx, "ligkern", n, || case_strategy(4, true), |s: &CaseSpec, case| oracle(ctx, s, case));
    let n3 = ctx.tier.pick(350_000u64, 7_000_000u64);
    run_generated(ctx, "ligkern_exact3", n3, || case_strategy(3, false), |s: &CaseSpec, case| oracle(ctx, s, case));
    let n2 = ctx.tier.pick(150_000u64, 1_000_000u64);
    run_generated(ctx, "ligkern_dense2", n2, || case_strategy(2, false), |s: &CaseSpec, case| oracle(ctx, s, case));

    // a real font: every word of 1-3 characters over a slice of cmr10's alphabet, plus a few words
    let n = CMR_ALPHABET.len() as u64;
    let mut words: Vec<Vec<u8>> = (0..n + n * n + n * n * n).map(cmr_word).collect();
    words.extend(["difficult", "waffle", "office", "shuffle", "fluffiest", "AVAVA", "``fi''", "a---k"].iter().map(|w| w.as_bytes().to_vec()));
    run_list(ctx, "cmr10_words", words, |w: &Vec<u8>, case| cmr_oracle(w, case));

    // the real fonts of the corpus
    if ctx.is_generate() || matches!(&ctx.mode, Mode::Replay { sub, .. } if sub == "corpus_words") {
        let cases = if ctx.is_generate() { corpus_words_cases(ctx.tier.pick(3, 32)) } else { vec![] };
        if ctx.is_generate() {
            let skipped: BTreeMap<String, String> = all_corpus_tfms().into_iter().filter_map(|t| corpus_font(&t).as_ref().as_ref().err().map(|r| (t, r.to_string()))).collect();
            ctx.extra("corpus_words", "files_outside_the_domain", serde_json::json!(skipped));
        }
        // evaluated on 16 threads beforehand; the engine then collects verdicts and classes
        let pre: Vec<(Verdict, Vec<&'static str>, Option<String>)> = par_map(cases.len(), |i| {
            let mut case = Case::default();
            let v = match panics::catch(|| corpus_words_oracle(ctx, &cases[i], &mut case)) {
                Ok(v) => v,
                Err(p) => Verdict::Fail(format!("panic at {}: {}", p.site(), p.message)),
            };
            (v, case.classes, case.note)
        });
        let index: BTreeMap<(String, u32), usize> = cases.iter().enumerate().map(|(i, c)| ((c.tfm.clone(), c.window), i)).collect();
        run_list(ctx, "corpus_words", cases, |c: &CorpusWordsCase, case| match index.get(&(c.tfm.clone(), c.window)) {
            Some(i) if !case.replay => {
                case.classes = pre[*i].1.clone();
                case.note = pre[*i].2.clone();
                pre[*i].0.clone()
            }
            _ => corpus_words_oracle(ctx, c, case),
        });
    }
    // not part of the property, but a regression there should be visible
    ctx.extra("ligkern", "obs_runs_whose_per_ligature_originals_or_boundary_bits_differ_from_tex", serde_json::json!(OBS_BITS_DIFFER.load(std::sync::atomic::Ordering::Relaxed)));
    ctx.extra("ligkern", "obs_nodes_from_add_word_that_are_no_char_ligature_kern_or_discretionary", serde_json::json!(OBS_OTHER_NODES.load(std::sync::atomic::Ordering::Relaxed)));
}
