//! C13 — Hyphenation positions are exactly Liang's; exceptions always win.
//!
//! Implementation under test: `hyphenate::Hyphenator::{load_patterns, insert_exception(s),
//! calculate_indices}`. Oracle: `models::liang` (naive matcher, every pattern at every alignment of
//! `.word.`, max digit, odd ⇒ hyphen, exceptions pre-empt the patterns).
//!
//! Sub-checks
//!   golden          the crate's own 20 hyphenation + 3 explanation goldens (TeX-verified) against the
//!                   MODEL and the implementation: calibrates the model and the index convention.
//!   liang           generated alphabet × pattern set × exception list × load order × word.
//!   nonletter_words same generator, one non-letter injected into the word (weak two-reading oracle).
//!   plain_words     pseudo-English words against plain TeX's 4447 patterns + 14 exceptions.
//!   pool_pairs      exhaustive: every pair (thorough: triple) of a fixed 40-pattern pool × every word
//!                   of length ≤ 6 (thorough ≤ 7) over {a,b,c}.
//!   pool_exceptions exhaustive: every pool pattern × every hyphenated exception of length ≤ 3 × both
//!                   load orders × every word of length ≤ 4.

use crate::engine::*;
use crate::models::liang::{self, Deviations, Lexicon, Pattern, FLAG_COMPETES, FLAG_REPLACED};
use proptest::prelude::*;
use serde::{Deserialize, Serialize};
use std::sync::OnceLock;

// ---------------------------------------------------------------------------------------------
// Case representation (everything is text, so replay files read like a TeX session)

#[derive(Debug, Clone, Serialize, Deserialize, PartialEq, Eq)]
pub enum Load {
    /// argument of one `load_patterns` call (whitespace separated TeX patterns)
    Patterns(String),
    /// argument of one `insert_exception` call (`a-bc`)
    Exception(String),
    /// argument of one `insert_exceptions` call (one exception per line)
    Exceptions(String),
}

#[derive(Debug, Clone, Serialize, Deserialize, PartialEq, Eq)]
pub struct HCase {
    /// (lower, upper): the lower-caser passed to `calculate_indices` maps both characters to
    /// `lower`; every other character is a non-letter (`None`).
    pub letters: Vec<(char, char)>,
    /// calls made on a fresh `Hyphenator::default()`, in order
    pub loads: Vec<Load>,
    pub word: String,
}

struct MapLower<'a>(&'a [(char, char)]);

impl hyphenate::LowerCaser for MapLower<'_> {
    fn to_lower_case(&self, c: char) -> Option<char> {
        for &(lo, up) in self.0 {
            if c == lo || c == up {
                return Some(lo);
            }
        }
        None
    }
}

fn build_impl(loads: &[Load]) -> hyphenate::Hyphenator {
    let mut h = hyphenate::Hyphenator::default();
    for l in loads {
        match l {
            Load::Patterns(t) => h.load_patterns(t),
            Load::Exception(t) => h.insert_exception(t),
            Load::Exceptions(t) => h.insert_exceptions(t),
        }
    }
    h
}

/// `lines_only` = deviation `insert_exceptions_splits_lines_only` (the documented separator of
/// `insert_exceptions` is whitespace).
fn build_model(loads: &[Load], lines_only: bool) -> Result<Lexicon, String> {
    let mut lex = Lexicon::default();
    for l in loads {
        match l {
            Load::Patterns(t) => lex.push_patterns(t)?,
            Load::Exception(t) => lex.push_exception(t),
            Load::Exceptions(t) => {
                if lines_only {
                    for line in t.lines().map(|x| x.trim()).filter(|x| !x.is_empty()) {
                        lex.push_exception(line);
                    }
                } else {
                    for word in t.split_whitespace() {
                        lex.push_exception(word);
                    }
                }
            }
        }
    }
    Ok(lex)
}

pub const FLAG_LINES: &str = "flag:insert_exceptions_splits_lines_only";

fn render_case(c: &HCase) -> String {
    let mut s = String::new();
    s.push_str("letters=");
    for (lo, up) in &c.letters {
        s.push_str(&format!("{lo}/{up} "));
    }
    s.push_str("| ");
    for l in &c.loads {
        match l {
            Load::Patterns(t) => s.push_str(&format!("\\patterns{{{}}} ", t.split_whitespace().collect::<Vec<_>>().join(" "))),
            Load::Exception(t) => s.push_str(&format!("\\hyphenation{{{t}}} ")),
            Load::Exceptions(t) => s.push_str(&format!("\\hyphenation{{{}}} ", t.split_whitespace().collect::<Vec<_>>().join(" "))),
        }
    }
    s.push_str(&format!("| word={}", c.word));
    s
}

fn hyphenated(word: &[char], pos: &[usize]) -> String {
    let mut s = String::new();
    for (i, c) in word.iter().enumerate() {
        if pos.contains(&i) {
            s.push('-');
        }
        s.push(*c);
    }
    s
}

// ---------------------------------------------------------------------------------------------
// The oracle

fn zero_run_16(p: &Pattern) -> bool {
    // 16 or more consecutive zero digits (this is where the packed op stream needs a 0xF0 filler)
    let mut run = 0;
    for &d in &p.digits {
        if d == 0 {
            run += 1;
            if run >= 16 {
                return true;
            }
        } else {
            run = 0;
        }
    }
    false
}

fn oracle(ctx: &Ctx, c: &HCase, case: &mut Case, allow_nonletter: bool) -> Verdict {
    let lex = match build_model(&c.loads, false) {
        Ok(l) => l,
        Err(_) => return Verdict::Skip("malformed pattern (outside the domain)"),
    };
    if lex.has_duplicate_pattern_keys() {
        return Verdict::Skip("duplicate pattern key (TeX: Duplicate pattern error)");
    }
    let lower = MapLower(&c.letters);
    let chars: Vec<char> = c.word.chars().collect();
    let lowered: Vec<Option<char>> = chars.iter().map(|&ch| hyphenate::LowerCaser::to_lower_case(&lower, ch)).collect();
    let h = build_impl(&c.loads);
    let got: Vec<usize> = h.calculate_indices(&lower, &c.word).collect();
    if let Some(k) = lowered.iter().position(|x| x.is_none()) {
        if !allow_nonletter {
            return Verdict::Skip("word contains a non-letter");
        }
        return nonletter_oracle(&lex, &lowered, k, &got, c, case);
    }
    let w: Vec<char> = lowered.iter().map(|x| x.unwrap()).collect();
    let n = w.len();
    if n == 0 {
        return if got.is_empty() { Verdict::pass(false) } else { Verdict::Fail(format!("empty word hyphenated at {got:?}")) };
    }
    let expected = lex.positions(&w);
    let a = lex.analyse(&w);
    let pats = lex.patterns();

    // ---- classes -------------------------------------------------------------------------
    case.class(match n {
        1 => "len=1",
        2..=6 => "len=2..6",
        7..=16 => "len=7..16",
        17..=32 => "len=17..32",
        _ => "len>=33",
    });
    case.class(match pats.len() {
        0 => "patterns=0",
        1..=5 => "patterns=1..5",
        6..=15 => "patterns=6..15",
        _ => "patterns>=16",
    });
    let upper = chars.iter().zip(&w).filter(|(a, b)| a != b).count();
    case.class_if(upper > 0 && upper < n, "word mixed case");
    case.class_if(upper == n, "word all upper");
    case.class_if(c.word.len() != n, "multibyte letter in word");
    case.class_if(c.letters.iter().any(|(lo, up)| !up.to_lowercase().eq(std::iter::once(*lo))), "non-standard upper pairing");
    let interior = |p: usize| p >= 1 && p + 1 <= n;
    let mut m_start = false;
    let mut m_end = false;
    let mut m_both = false;
    let mut m_hi = false;
    let mut m_zero_run = false;
    let mut m_digit_pos0 = false;
    let mut m_digit_posn = false;
    let mut interior_nonzero = false;
    for &(pi, o) in &a.matches {
        let p = pats[pi];
        m_start |= p.start && !p.end;
        m_end |= p.end && !p.start;
        m_both |= p.start && p.end;
        m_zero_run |= zero_run_16(p);
        m_digit_pos0 |= o == 0 && p.digits[0] != 0;
        m_digit_posn |= o + p.letters.len() == n && *p.digits.last().unwrap() != 0;
        for (i, &d) in p.digits.iter().enumerate() {
            if d != 0 && interior(o + i) {
                interior_nonzero = true;
                m_hi |= d >= 7;
            }
        }
    }
    case.class_if(m_start, "matched .x pattern");
    case.class_if(m_end, "matched x. pattern");
    case.class_if(m_both, "matched .x. pattern");
    case.class_if(m_hi, "matched digit 7..9 (interior)");
    case.class_if(m_zero_run, "matched pattern with zero run >=16");
    case.class_if(m_digit_pos0, "matched digit before first letter");
    case.class_if(m_digit_posn, "matched digit after last letter");
    case.class_if(a.longest_matched_pattern > 16, "matched pattern >16 letters");
    case.class_if(a.longest_matched_pattern > 32, "matched pattern >32 letters");
    // an anchored pattern whose letters occur in the word at a place the anchor forbids
    let mut blocked = false;
    for p in &pats {
        if !(p.start || p.end) {
            continue;
        }
        let free = Pattern { start: false, end: false, letters: p.letters.clone(), digits: p.digits.clone() };
        for o in 0..n {
            if free.matches_at(&w, o) && !p.matches_at(&w, o) && p.digits.iter().enumerate().any(|(i, &d)| d != 0 && interior(o + i)) {
                blocked = true;
            }
        }
    }
    case.class_if(blocked, "anchor blocks a mid-word occurrence");
    case.class_if((1..n).any(|p| a.parity_conflict[p]), "odd and even digit at one position");
    case.class_if(!expected.is_empty(), "has a hyphen");
    case.class_if(c.loads.iter().any(|l| matches!(l, Load::Patterns(t) if t.contains('0'))), "explicit 0 digit in a pattern");
    case.class_if(c.loads.iter().any(|l| matches!(l, Load::Exceptions(t) if t.split_whitespace().count() > 1 && !t.contains('\n'))), "insert_exceptions with blank/tab separated words");
    case.class_if(c.loads.iter().any(|l| matches!(l, Load::Exceptions(t) if t.contains('\n'))), "insert_exceptions with lines");
    case.class_if(c.loads.iter().any(|l| matches!(l, Load::Exception(_))), "insert_exception");
    case.class_if(c.loads.iter().filter(|l| matches!(l, Load::Patterns(_))).count() > 1, "several load_patterns calls");
    let is_exc = a.exception.is_some();
    case.class_if(is_exc, "word is an exception");
    if let Some(ie) = a.exception {
        let before = lex.entries[..ie].iter().any(|e| matches!(e, liang::Entry::Pattern(_)));
        let after = lex.entries[ie + 1..].iter().any(|e| matches!(e, liang::Entry::Pattern(_)));
        case.class_if(before, "exception loaded after patterns");
        case.class_if(after, "exception loaded before patterns");
        let full = |e: &liang::Entry| matches!(e, liang::Entry::Pattern(p) if p.start && p.end && p.letters == w);
        case.class_if(lex.entries[..ie].iter().any(full), "exception shares trie path with earlier .w. pattern");
        case.class_if(lex.entries[ie + 1..].iter().any(full), "exception shares trie path with later .w. pattern");
        let dup = lex.entries[..ie].iter().any(|e| matches!(e, liang::Entry::Exception(x) if x.letters == w));
        case.class_if(dup, "word listed twice as exception");
    }
    let compete = !is_exc && (1..n).any(|p| a.nonzero_contributions[p] >= 2);
    let exc_and_pattern = is_exc && interior_nonzero;
    let long = !is_exc && a.longest_matched_pattern > 16;
    case.class_if(compete, "NT: >=2 patterns compete at a position");
    case.class_if(exc_and_pattern, "NT: exception word also matches a pattern");
    case.class_if(long, "NT: pattern >16 letters matched");
    let nontrivial = compete || exc_and_pattern || long;
    if nontrivial || case.replay {
        case.note = Some(format!("{} => {} (digits {:?})", render_case(c), hyphenated(&chars, &expected), a.digits));
    }

    if got == expected {
        return Verdict::pass(nontrivial);
    }
    // ---- known deviations (only the listed ones, smallest subsets first) ---------------------
    let listed: Vec<&str> = [FLAG_COMPETES, FLAG_REPLACED, FLAG_LINES].into_iter().filter(|f| ctx.known(f)).collect();
    let mut subsets: Vec<u32> = (1..(1u32 << listed.len())).collect();
    subsets.sort_by_key(|m| (m.count_ones(), *m));
    for m in subsets {
        let on: Vec<&str> = listed.iter().enumerate().filter(|(i, _)| m & (1 << i) != 0).map(|(_, f)| *f).collect();
        let d = Deviations {
            exception_competes_as_6_7_pattern: on.contains(&FLAG_COMPETES),
            exception_replaced_by_later_full_word_pattern: on.contains(&FLAG_REPLACED),
        };
        let Ok(lex2) = build_model(&c.loads, on.contains(&FLAG_LINES)) else { continue };
        if lex2.positions_with(&w, d) == got {
            return Verdict::Known(on.join("+"));
        }
    }
    Verdict::Fail(format!(
        "hyphen positions differ from Liang's definition\n{}\nlower-cased word: {}\nmax digits per position 0..=n (patterns only): {:?}\nword is an exception: {}\nexpected positions {:?} = {}\ngot      positions {:?} = {}",
        render_case(c),
        w.iter().collect::<String>(),
        a.digits,
        is_exc,
        expected,
        hyphenated(&chars, &expected),
        got,
        hyphenated(&chars, &got),
    ))
}

/// A word with a non-letter (lower-caser returns None) at index k. No caller in the repository
/// passes such a word (boxworks-hyphenate cuts words at the first non-letter, as TeX §897 does) and
/// the API documents nothing, so only what holds under both reasonable readings is demanded:
///   A. TeX's: the word ends before the non-letter: result = Liang(`.prefix.`), exceptions apply;
///   B. the non-letter is an unknown character that matches no pattern: result = patterns matching
///      inside the prefix without any end anchor, no exception (the word is longer than the prefix),
///      positions up to and including k.
/// Under both readings nothing at a position > k may be reported.
fn nonletter_oracle(lex: &Lexicon, lowered: &[Option<char>], k: usize, got: &[usize], c: &HCase, case: &mut Case) -> Verdict {
    case.class("nonletter word");
    case.class_if(k == 0, "nonletter first");
    case.class_if(k + 1 == lowered.len(), "nonletter last");
    let prefix: Vec<char> = lowered[..k].iter().map(|x| x.unwrap()).collect();
    if let Some(&p) = got.iter().find(|&&p| p > k) {
        return Verdict::Fail(format!("hyphen at {p}, after the non-letter at index {k}\n{}", render_case(c)));
    }
    let reading_a = if k == 0 { vec![] } else { lex.positions(&prefix) };
    // reading B: append a character that occurs in no pattern, ignore exceptions, keep positions <= k
    let mut ext = prefix.clone();
    ext.push('\u{10FFFF}');
    ext.push('\u{10FFFF}');
    let ps: Vec<Pattern> = lex.patterns().into_iter().cloned().collect();
    let d = liang::max_digits(&ps, &ext);
    let reading_b: Vec<usize> = (1..=k).filter(|&p| d[p] % 2 == 1).collect();
    case.class_if(reading_a != reading_b, "nonletter: readings differ");
    if got == reading_a.as_slice() {
        case.class("nonletter: = TeX word-ends-here reading");
        return Verdict::pass(false);
    }
    if got == reading_b.as_slice() {
        case.class("nonletter: = unknown-character reading");
        return Verdict::pass(false);
    }
    Verdict::Fail(format!(
        "word with a non-letter at index {k}: result matches neither reading\n{}\nreading A (word ends at the non-letter): {:?}\nreading B (unknown character): {:?}\ngot: {:?}",
        render_case(c),
        reading_a,
        reading_b,
        got
    ))
}

// ---------------------------------------------------------------------------------------------
// Generator

const LOWER: [char; 5] = ['a', 'b', 'c', 'd', 'e'];
const UPPER: [char; 5] = ['A', 'B', 'C', 'D', 'E'];
const ALT_UPPER: [char; 5] = ['Z', 'Y', 'X', 'W', 'V'];

type RawPat = ((u8, u8, u8, u16, u16), Vec<u8>, (u8, Vec<u8>, u16));
type RawExc = ((u8, u16, u8, u16), Vec<u8>, Vec<u8>);

fn raw_pat() -> impl Strategy<Value = RawPat> {
    ((0u8..40, 0u8..10, 0u8..10, any::<u16>(), any::<u16>()), proptest::collection::vec(0u8..5, 4), (0u8..8, proptest::collection::vec(any::<u8>(), 41), any::<u16>()))
}

fn raw_exc() -> impl Strategy<Value = RawExc> {
    ((0u8..8, any::<u16>(), 0u8..16, any::<u16>()), proptest::collection::vec(0u8..5, 4), proptest::collection::vec(any::<u8>(), 41))
}

fn word_len() -> impl Strategy<Value = usize> {
    prop_oneof![
        3 => 1usize..=6,
        3 => 7usize..=16,
        3 => 17usize..=32,
        2 => 33usize..=40,
    ]
}

/// Builds one pattern (letters as alphabet indices) from raw material; `w` is the lower-case word.
fn make_pattern(raw: &RawPat, w: &[u8], k: usize, maxd: u8, alphabet: &[char]) -> Pattern {
    let ((sel, kind, lenclass, lenr, offr), rnd, (dmode, dig, pick)) = raw;
    let n = w.len();
    let want = match lenclass {
        0..=5 => 1 + (*lenr as usize) % 4,
        6..=7 => 5 + (*lenr as usize) % 12,
        8 => 17 + (*lenr as usize) % 16,
        _ => 33 + (*lenr as usize) % 8,
    };
    let (mut start, mut end) = (false, false);
    let mut len = want.min(n).max(1);
    let mut off = pick_idx(*offr, n - len + 1);
    match sel {
        0..=21 => {}
        22..=25 => {
            start = true;
            off = 0;
        }
        26..=29 => {
            end = true;
            off = n - len;
        }
        30 => {
            start = true;
            end = true;
            off = 0;
            len = n;
        }
        31..=33 => start = true,
        34..=36 => end = true,
        37 => {
            start = true;
            end = true;
        }
        38 => off = 0,
        _ => off = n - len,
    }
    let mut letters: Vec<u8> = match kind {
        0..=7 => w[off..off + len].to_vec(),
        _ => rnd[..1 + (*lenr as usize) % 4].iter().map(|x| x % k as u8).collect(),
    };
    if *kind == 7 && *sel != 30 {
        // near miss: one letter changed to a different one
        let i = (*pick as usize) % letters.len();
        letters[i] = ((letters[i] as usize + 1 + (rnd[0] as usize) % (k - 1)) % k) as u8;
    }
    let m = letters.len();
    let mut digits = vec![0u8; m + 1];
    let val = |r: u8| 1 + (r >> 3) % maxd;
    match dmode {
        0 | 1 => {
            for i in 0..=m {
                if dig[i] & 1 == 1 {
                    digits[i] = val(dig[i]);
                }
            }
        }
        2 | 3 => {
            for i in 0..=m {
                if dig[i] % 8 == 0 {
                    digits[i] = val(dig[i].wrapping_add(dig[40 - i]));
                }
            }
        }
        4 => digits[pick_idx(*pick, m + 1)] = val(dig[0]),
        5 => {
            let p = if m >= 2 { 1 + pick_idx(*pick, m - 1) } else { pick_idx(*pick, m + 1) };
            digits[p] = val(dig[0]);
        }
        6 => {
            let p = pick_idx(*pick, m + 1);
            digits[p] = val(dig[0]);
            digits[(p + m / 2 + 1) % (m + 1)] = val(dig[1]);
        }
        _ => {
            if pick & 1 == 0 {
                digits[0] = val(dig[0]);
            } else {
                digits[m] = val(dig[0]);
            }
        }
    }
    Pattern { start, end, letters: letters.iter().map(|&i| alphabet[i as usize]).collect(), digits }
}

/// TeX text of a pattern; `explicit` decides where a zero digit is written out as `0`.
fn pattern_text(p: &Pattern, explicit: &[u8]) -> String {
    let mut s = String::new();
    if p.start {
        s.push('.');
    }
    for (i, d) in p.digits.iter().enumerate() {
        if *d != 0 {
            s.push(char::from(b'0' + *d));
        } else if explicit[i % explicit.len()] % 16 == 2 {
            s.push('0');
        }
        if let Some(c) = p.letters.get(i) {
            s.push(*c);
        }
    }
    if p.end {
        s.push('.');
    }
    s
}

fn make_exception(raw: &RawExc, w: &[u8], k: usize, alphabet: &[char]) -> String {
    let ((kind, lenr, mode, pick), rnd, hyp) = raw;
    let n = w.len();
    let mut letters: Vec<u8> = match kind {
        0 | 1 => w.to_vec(),
        2 | 3 if n >= 2 => w[..1 + (*lenr as usize) % (n - 1)].to_vec(),
        4 if n >= 2 => w[1 + (*lenr as usize) % (n - 1)..].to_vec(),
        5 => w.to_vec(),
        2..=4 => w.to_vec(),
        _ => rnd[..1 + (*lenr as usize) % 4].iter().map(|x| x % k as u8).collect(),
    };
    if *kind == 5 {
        let i = (*pick as usize) % letters.len();
        letters[i] = ((letters[i] as usize + 1 + (rnd[0] as usize) % (k - 1)) % k) as u8;
    }
    let m = letters.len();
    let mut hy = vec![false; m + 1];
    match mode % 4 {
        0 => {}
        1 => {
            for p in 1..m {
                hy[p] = hyp[p] & 1 == 1;
            }
        }
        2 => {
            for p in 1..m {
                hy[p] = hyp[p] % 4 == 0;
            }
        }
        _ => {
            if m >= 2 {
                hy[1 + pick_idx(*pick, m - 1)] = true;
            }
        }
    }
    if *mode == 14 {
        hy[0] = true;
    }
    if *mode == 15 {
        hy[m] = true;
    }
    let mut s = String::new();
    for i in 0..=m {
        if hy[i] {
            s.push('-');
        }
        if i < m {
            s.push(alphabet[letters[i] as usize]);
        }
    }
    s
}

type RawCase = ((usize, u8, usize, Vec<u8>), (u8, Vec<bool>, u8), (Vec<RawPat>, Vec<RawExc>), (u8, Vec<u8>, u8));

fn raw_case(max_pats: usize) -> impl Strategy<Value = RawCase> {
    (
        (3usize..=5, any::<u8>(), word_len(), proptest::collection::vec(0u8..5, 40)),
        (0u8..6, proptest::collection::vec(any::<bool>(), 40), 0u8..10),
        (proptest::collection::vec(raw_pat(), 0..=max_pats), proptest::collection::vec(raw_exc(), 0..=5)),
        (0u8..6, proptest::collection::vec(any::<u8>(), 36), any::<u8>()),
    )
}

fn build_case(raw: &RawCase) -> HCase {
    let ((k, flags, n, wl), (casemode, casebits, maxsel), (rpats, rexcs), (order, keys, sep)) = raw;
    let k = *k;
    let mut lower: Vec<char> = LOWER[..k].to_vec();
    let mut upper: Vec<char> = if (flags >> 3) % 4 == 0 { ALT_UPPER[..k].to_vec() } else { UPPER[..k].to_vec() };
    if flags % 8 == 0 {
        // a two-byte letter: character index != byte index
        lower[k - 1] = 'é';
        upper[k - 1] = 'É';
    }
    let letters: Vec<(char, char)> = lower.iter().copied().zip(upper.iter().copied()).collect();
    let w: Vec<u8> = wl[..*n].iter().map(|x| x % k as u8).collect();
    let maxd: u8 = [5, 5, 5, 5, 5, 6, 6, 9, 9, 9][*maxsel as usize];
    let word: String = w
        .iter()
        .enumerate()
        .map(|(i, &l)| {
            let up = match casemode {
                0 | 1 => false,
                2 => true,
                3 => i == 0,
                _ => casebits[i],
            };
            if up {
                upper[l as usize]
            } else {
                lower[l as usize]
            }
        })
        .collect();
    // patterns, keys unique by construction (a later pattern with an already used key is dropped:
    // TeX rejects it with "Duplicate pattern")
    let mut pats: Vec<(Pattern, String)> = vec![];
    for rp in rpats {
        let p = make_pattern(rp, &w, k, maxd, &lower);
        if pats.iter().any(|(q, _)| q.same_key(&p)) {
            continue;
        }
        let explicit: &[u8] = if rp.2 .0 <= 1 { &rp.2 .1 } else { &[0] };
        let t = pattern_text(&p, explicit);
        pats.push((p, t));
    }
    let excs: Vec<String> = rexcs.iter().map(|r| make_exception(r, &w, k, &lower)).collect();
    // load order
    #[derive(Clone)]
    enum Item {
        P(String),
        E(String),
    }
    let mut items: Vec<(u8, Item)> = vec![];
    let pit = pats.iter().enumerate().map(|(i, (_, t))| (keys[i % 30], Item::P(t.clone())));
    let eit = excs.iter().enumerate().map(|(i, t)| (keys[30 + i], Item::E(t.clone())));
    match order {
        0 | 1 => {
            items.extend(pit);
            items.extend(eit);
        }
        2 | 3 => {
            items.extend(eit);
            items.extend(pit);
        }
        _ => {
            items.extend(pit);
            items.extend(eit);
            items.sort_by_key(|x| x.0);
        }
    }
    let mut loads: Vec<Load> = vec![];
    let merge_exc = sep & 1 == 1;
    let seps = [" ", "\n", "  ", " \n "];
    let mut in_chunk = 0usize;
    for (_, it) in items {
        match it {
            Item::P(t) => {
                if let Some(Load::Patterns(cur)) = loads.last_mut() {
                    if in_chunk < 8 {
                        cur.push_str(seps[((sep >> 1) as usize + in_chunk) % 4]);
                        cur.push_str(&t);
                        in_chunk += 1;
                        continue;
                    }
                }
                loads.push(Load::Patterns(t));
                in_chunk = 1;
            }
            Item::E(t) => {
                if merge_exc {
                    if let Some(Load::Exceptions(cur)) = loads.last_mut() {
                        cur.push_str(["\n", "\n", " ", "\t", "\n\n", " \n"][(sep >> 3) as usize % 6]);
                        cur.push_str(&t);
                        continue;
                    }
                    loads.push(Load::Exceptions(t));
                } else {
                    loads.push(Load::Exception(t));
                }
            }
        }
    }
    HCase { letters, loads, word }
}

pub fn case_strategy(max_pats: usize) -> impl Strategy<Value = HCase> {
    raw_case(max_pats).prop_map(|r| build_case(&r))
}

const NONLETTERS: [char; 8] = ['3', '-', ' ', '\'', 'z', '.', 'ß', '\u{0301}'];

fn nonletter_strategy() -> impl Strategy<Value = HCase> {
    (case_strategy(12), any::<u16>(), 0usize..8).prop_map(|(mut c, pos, which)| {
        let chars: Vec<char> = c.word.chars().collect();
        let at = pick_idx(pos, chars.len() + 1);
        let mut s = String::new();
        for (i, ch) in chars.iter().enumerate() {
            if i == at {
                s.push(NONLETTERS[which]);
            }
            s.push(*ch);
        }
        if at == chars.len() {
            s.push(NONLETTERS[which]);
        }
        c.word = s;
        c
    })
}

// ---------------------------------------------------------------------------------------------
// Goldens and plain TeX

const PLAIN_PATTERNS: &str = include_str!("/repo/crates/hyphenate/src/plain_tex_patterns.txt");
const PLAIN_EXCEPTIONS: &str = include_str!("/repo/crates/hyphenate/src/plain_tex_exceptions.txt");

fn plain_loads() -> Vec<Load> {
    vec![Load::Patterns(PLAIN_PATTERNS.to_string()), Load::Exceptions(PLAIN_EXCEPTIONS.to_string())]
}

fn plain_model() -> &'static Lexicon {
    static L: OnceLock<Lexicon> = OnceLock::new();
    L.get_or_init(|| build_model(&plain_loads(), false).expect("plain TeX patterns parse"))
}

fn plain_impl() -> &'static hyphenate::Hyphenator {
    static H: OnceLock<hyphenate::Hyphenator> = OnceLock::new();
    H.get_or_init(hyphenate::Hyphenator::plain_tex_en_us)
}

#[derive(Debug, Clone, Serialize, Deserialize)]
pub enum Golden {
    /// `hyphenation_tests!` of crates/hyphenate/src/lib.rs: word and its TeX hyphenation
    Word { word: String, expected: String },
    /// `explanation_tests!`: aggregate scores (positions 0..n-1, position 0 forced to 0)
    Scores { word: String, scores: Vec<u8> },
}

fn goldens() -> Vec<Golden> {
    let words = [
        ("record", "record"),
        ("hyphenation", "hy-phen-ation"),
        ("concatenation", "con-cate-na-tion"),
        ("supercalifragilisticexpialidocious", "su-per-cal-ifrag-ilis-tic-ex-pi-ali-do-cious"),
        ("bachelor", "bach-e-lor"),
        ("echelon", "ech-e-lon"),
        ("toothaches", "toothaches"),
        ("campfire", "camp-fire"),
        ("biorhythm", "biorhyth-m"),
        ("algorithm", "al-go-rith-m"),
        ("pneumonoultramicroscopicsilicovolcanoconiosis", "p-neu-monoul-tra-mi-cro-scop-ic-sil-i-co-vol-canoco-nio-sis"),
        ("project", "project"),
        ("present", "present"),
        ("table", "ta-ble"),
        ("Table", "Ta-ble"),
        ("ach", "ach"),
        ("Aaronic", "Aa-ron-ic"),
        ("Abelia", "A-beli-a"),
        ("William", "William"),
        ("chaffless", "chaf-f-less"),
    ];
    let mut v: Vec<Golden> = words.iter().map(|(w, e)| Golden::Word { word: w.to_string(), expected: e.to_string() }).collect();
    v.push(Golden::Scores { word: "DifFicult".into(), scores: vec![0, 1, 4, 1, 0, 3, 0, 4, 0] });
    v.push(Golden::Scores { word: "cove".into(), scores: vec![0, 0, 4, 1] });
    v.push(Golden::Scores { word: "antce".into(), scores: vec![0, 2, 4, 4, 0] });
    v
}

fn golden_oracle(g: &Golden, case: &mut Case) -> Verdict {
    let lower = hyphenate::AsciiLowerCaser::default();
    match g {
        Golden::Word { word, expected } => {
            let chars: Vec<char> = word.chars().collect();
            let w: Vec<char> = chars.iter().map(|c| c.to_ascii_lowercase()).collect();
            let model = hyphenated(&chars, &plain_model().positions(&w));
            // the text API of the model must agree with the lexicon API
            let pats: Vec<String> = PLAIN_PATTERNS.split_whitespace().map(|s| s.to_string()).collect();
            let excs: Vec<String> = PLAIN_EXCEPTIONS.split_whitespace().map(|s| s.to_string()).collect();
            let model2 = hyphenated(&chars, &liang::liang_positions(&pats, &excs, &w));
            let got_idx: Vec<usize> = plain_impl().calculate_indices(&lower, word).collect();
            let got = hyphenated(&chars, &got_idx);
            let mut via_string = String::new();
            plain_impl().hypthenate(&lower, word, &mut via_string);
            case.note = Some(format!("{word} => {expected}"));
            if &model != expected || &model2 != expected {
                return Verdict::Fail(format!("MODEL disagrees with the TeX-verified golden: {word}: model {model} / {model2}, golden {expected}"));
            }
            if &got != expected || &via_string != expected {
                return Verdict::Fail(format!("implementation disagrees with its golden: {word}: got {got} / {via_string}, golden {expected}"));
            }
            let a = plain_model().analyse(&w);
            Verdict::pass(a.exception.is_some() || (1..w.len()).any(|p| a.nonzero_contributions[p] >= 2))
        }
        Golden::Scores { word, scores } => {
            let w: Vec<char> = word.chars().map(|c| c.to_ascii_lowercase()).collect();
            let mut d = plain_model().analyse(&w).digits;
            d[0] = 0;
            d.truncate(w.len());
            let e = plain_impl().calculate_explanation(&lower, word);
            case.note = Some(format!("{word} => {scores:?}"));
            if &d != scores {
                return Verdict::Fail(format!("MODEL digits disagree with the golden aggregate scores of {word}: {d:?} vs {scores:?}"));
            }
            if &e.aggregate_scores != scores {
                return Verdict::Fail(format!("implementation aggregate scores of {word}: {:?} vs {scores:?}", e.aggregate_scores));
            }
            Verdict::pass(true)
        }
    }
}

/// Pseudo-English: the letters of 1..6 plain TeX patterns glued together (so that many patterns
/// match and overlap), random case, at most 40 letters; sometimes one of the 14 exception words.
fn plain_word_strategy() -> impl Strategy<Value = String> {
    (proptest::collection::vec(any::<u16>(), 1..=6), proptest::collection::vec(any::<bool>(), 40), 0u8..12, any::<u16>()).prop_map(|(picks, caps, mode, e)| {
        static LETTERS: OnceLock<(Vec<String>, Vec<String>)> = OnceLock::new();
        let (pl, ex) = LETTERS.get_or_init(|| {
            (
                PLAIN_PATTERNS.split_whitespace().map(|p| p.chars().filter(|c| c.is_ascii_alphabetic()).collect::<String>()).filter(|s| !s.is_empty()).collect(),
                PLAIN_EXCEPTIONS.split_whitespace().map(|p| p.chars().filter(|c| c.is_ascii_alphabetic()).collect::<String>()).collect(),
            )
        });
        let mut s = String::new();
        if mode == 0 {
            s.push_str(&ex[pick_idx(e, ex.len())]);
        } else {
            for p in picks {
                s.push_str(&pl[pick_idx(p, pl.len())]);
            }
        }
        let s: String = s.chars().take(40).collect();
        s.chars()
            .enumerate()
            .map(|(i, c)| {
                let up = match mode % 4 {
                    0 | 1 => false,
                    2 => i == 0,
                    _ => caps[i],
                };
                if up {
                    c.to_ascii_uppercase()
                } else {
                    c
                }
            })
            .collect()
    })
}

fn plain_oracle(word: &String, case: &mut Case) -> Verdict {
    let lower = hyphenate::AsciiLowerCaser::default();
    let chars: Vec<char> = word.chars().collect();
    let w: Vec<char> = chars.iter().map(|c| c.to_ascii_lowercase()).collect();
    let n = w.len();
    let lex = plain_model();
    let expected = lex.positions(&w);
    let got: Vec<usize> = plain_impl().calculate_indices(&lower, word).collect();
    let a = lex.analyse(&w);
    let is_exc = a.exception.is_some();
    let compete = !is_exc && (1..n).any(|p| a.nonzero_contributions[p] >= 2);
    let exc_and_pattern = is_exc && (1..n).any(|p| a.nonzero_contributions[p] >= 1);
    case.class_if(compete, "NT: >=2 patterns compete at a position");
    case.class_if(exc_and_pattern, "NT: exception word also matches a pattern");
    case.class_if((1..n).any(|p| a.parity_conflict[p]), "odd and even digit at one position");
    case.class_if(chars != w, "word has upper case");
    case.class(match n {
        1..=6 => "len<=6",
        7..=16 => "len=7..16",
        17..=32 => "len=17..32",
        _ => "len>=33",
    });
    case.note = Some(format!("plain TeX: {} => {}", word, hyphenated(&chars, &expected)));
    if got == expected {
        Verdict::pass(compete || exc_and_pattern)
    } else {
        Verdict::Fail(format!("plain TeX patterns: {word}: expected {:?} = {}, got {:?} = {}", expected, hyphenated(&chars, &expected), got, hyphenated(&chars, &got)))
    }
}

// ---------------------------------------------------------------------------------------------
// Exhaustive small scope

/// 40 patterns over {a,b,c} with pairwise different keys: every digit 0..9, every anchoring, digits
/// before the first / after the last letter, nested and overlapping letter strings.
const POOL: [&str; 40] = [
    "a1b", "1a", "b1", "2c2", "b2c", "c4a", "a5a", "c1c", "ba3", "c3b", "ab1c", "1a1a1a1", "b1a2b", "1b1b1b", "c1a1b", "a0b1c1a", "bc8a", "9cc1c", ".1a", ".b1",
    ".a1b", ".c3c", ".a6b1c", ".ab2a", "a1.", "1c.", "3ab.", "b8c.", "c1b.", "b1b.", "a7bc.", ".a1b.", ".a2bc.", ".a1bc1ab.", ".c1.", "a2b1b", "4ac", "b2b", "a3c1b", ".b7a",
];

fn small_words(max_len: usize) -> Vec<String> {
    let mut v = vec![];
    for len in 1..=max_len {
        let total = 3usize.pow(len as u32);
        for mut i in 0..total {
            let mut s = String::new();
            for _ in 0..len {
                s.push(['a', 'b', 'c'][i % 3]);
                i /= 3;
            }
            v.push(s);
        }
    }
    v
}

fn abc_letters() -> Vec<(char, char)> {
    vec![('a', 'A'), ('b', 'B'), ('c', 'C')]
}

/// index -> (multiset of `arity` pool patterns, word)
fn pool_case(i: u64, sets: &[Vec<usize>], words: &[String]) -> HCase {
    let wi = (i % words.len() as u64) as usize;
    let si = (i / words.len() as u64) as usize;
    let text: Vec<&str> = sets[si].iter().map(|&j| POOL[j]).collect();
    HCase { letters: abc_letters(), loads: vec![Load::Patterns(text.join(" "))], word: words[wi].clone() }
}

fn pool_sets(arity: usize) -> Vec<Vec<usize>> {
    // all strictly increasing index tuples of length 1..=arity
    let mut out: Vec<Vec<usize>> = vec![];
    fn rec(start: usize, left: usize, cur: &mut Vec<usize>, out: &mut Vec<Vec<usize>>) {
        if !cur.is_empty() {
            out.push(cur.clone());
        }
        if left == 0 {
            return;
        }
        for j in start..POOL.len() {
            cur.push(j);
            rec(j + 1, left - 1, cur, out);
            cur.pop();
        }
    }
    rec(0, arity, &mut vec![], &mut out);
    out
}

/// every hyphenation (interior positions) of every word of length <= max_len over {a,b,c}
fn small_exceptions(max_len: usize) -> Vec<String> {
    let mut v = vec![];
    for w in small_words(max_len) {
        let cs: Vec<char> = w.chars().collect();
        let gaps = cs.len() - 1;
        for mask in 0..(1u32 << gaps) {
            let mut s = String::new();
            for (i, c) in cs.iter().enumerate() {
                if i > 0 && mask & (1 << (i - 1)) != 0 {
                    s.push('-');
                }
                s.push(*c);
            }
            v.push(s);
        }
    }
    v
}

// ---------------------------------------------------------------------------------------------

pub fn run(ctx: &Ctx) {
    ctx.rule("case = alphabet of 3-5 letters with an upper-case partner each (lower-caser argument; sometimes a 2-byte letter or a non-ASCII-style pairing) x 0-30 TeX patterns (digits 0-9 in every gap incl. before the first/after the last letter, '.' anchors at either/both ends, mostly substrings or near-misses of the word so they overlap and nest, lengths up to 40 with sparse digits for zero runs >=16) x 0-5 exceptions (the word itself, prefixes, suffixes, near-misses; random hyphen sets) x load order (patterns first, exceptions first, interleaved; several load_patterns / insert_exception(s) calls) x word of 1-40 letters in mixed case; expected = naive Liang (max digit over every pattern at every alignment of .word., odd => hyphen at positions 1..n-1; an exception word gets exactly its listed positions). non-trivial = the word is not an exception and >=2 (pattern, alignment) matches put a non-zero digit on one interior position, or it is not an exception and a pattern of more than 16 letters matched, or the word is an exception and some pattern puts a non-zero digit on an interior position; distinct = by full case text. pool_* sub-checks enumerate exhaustively (same oracle, same rule)");
    ctx.assume("patterns are well-formed TeX patterns: at least one letter, at most one digit per gap, '.' only as first/last character, no digit outside the dots; two patterns with the same letters and anchors never occur in one set (TeX: 'Duplicate pattern' error) - enforced by construction");
    ctx.assume("patterns and exceptions are given in lower case (TeX lower-cases them through \\lccode when \\patterns/\\hyphenation is read; load_patterns/insert_exception take no lower-caser, so that step is the caller's)");
    ctx.assume("position n (after the last letter) is never a hyphen: TeX only inspects l_hyf..hn-r_hyf with both minimums >= 1; the crate's documented convention (scores truncated to n entries) agrees");
    ctx.assume("the same word listed twice as an exception: the later entry wins (TeX 940)");
    ctx.assume("insert_exceptions takes words separated by whitespace, as its documentation says (blank, tab or newline)");
    ctx.assume("nonletter_words: no repository caller passes a non-letter and the API documents nothing; accepted = TeX's reading (word ends before the non-letter) or the unknown-character reading, never a hyphen after the non-letter; these cases are never counted as non-trivial");

    {
        // infrastructure self-check: the pool must be inside the domain (well-formed, unique keys)
        let ps: Vec<Pattern> = POOL.iter().map(|s| Pattern::parse(s).expect("pool pattern parses")).collect();
        for i in 0..ps.len() {
            for j in 0..i {
                if ps[i].same_key(&ps[j]) {
                    eprintln!("C13: pool patterns {} and {} share a key", POOL[j], POOL[i]);
                    std::process::exit(2);
                }
            }
        }
    }

    run_list(ctx, "golden", goldens(), |g: &Golden, case| golden_oracle(g, case));

    let n = ctx.tier.pick(600_000u64, 5_000_000u64);
    run_generated(ctx, "liang", n, || case_strategy(30), |c: &HCase, case| oracle(ctx, c, case, false));

    let n = ctx.tier.pick(40_000u64, 400_000u64);
    run_generated(ctx, "nonletter_words", n, nonletter_strategy, |c: &HCase, case| oracle(ctx, c, case, true));

    let n = ctx.tier.pick(30_000u64, 400_000u64);
    run_generated(ctx, "plain_words", n, plain_word_strategy, |w: &String, case| plain_oracle(w, case));

    // exhaustive: pattern multisets from the pool x all short words
    let arity = ctx.tier.pick(2usize, 3usize);
    let words = small_words(ctx.tier.pick(6usize, 7usize));
    let sets = pool_sets(arity);
    let total = sets.len() as u64 * words.len() as u64;
    run_indexed(ctx, "pool_pairs", total, true, |i| pool_case(i, &sets, &words), |c: &HCase, case| oracle(ctx, c, case, false));
    ctx.extra("pool_pairs", "pool", serde_json::json!(POOL.to_vec()));
    ctx.extra("pool_pairs", "space", serde_json::json!(format!("all sets of 1..={} pool patterns ({}) x all words of length <= {} over abc ({})", arity, sets.len(), ctx.tier.pick(6, 7), words.len())));

    // exhaustive: one pool pattern x one exception x load order x all short words
    let excs = small_exceptions(ctx.tier.pick(3usize, 4usize));
    let words2 = small_words(ctx.tier.pick(4usize, 5usize));
    let total2 = POOL.len() as u64 * excs.len() as u64 * 2 * words2.len() as u64;
    run_indexed(
        ctx,
        "pool_exceptions",
        total2,
        true,
        |i| {
            let nw = words2.len() as u64;
            let wi = (i % nw) as usize;
            let r = i / nw;
            let first = r % 2 == 0;
            let r = r / 2;
            let ei = (r % excs.len() as u64) as usize;
            let pi = (r / excs.len() as u64) as usize;
            let p = Load::Patterns(POOL[pi].to_string());
            let e = Load::Exception(excs[ei].clone());
            HCase { letters: abc_letters(), loads: if first { vec![e, p] } else { vec![p, e] }, word: words2[wi].clone() }
        },
        |c: &HCase, case| oracle(ctx, c, case, false),
    );
    ctx.extra("pool_exceptions", "space", serde_json::json!(format!("{} pool patterns x {} hyphenated exceptions x 2 load orders x {} words", POOL.len(), excs.len(), words2.len())));
}
