//! C13 — Hyphenation positions are exactly Liang's; exceptions always win.
//!
//! Implementation under test: `hyphenate::Hyphenator::{load_patterns, insert_exception(s),
//! calculate_indices}`. Oracle: `models::liang` (naive matcher, every pattern at every alignment of
//! `.word.`, max digit, odd ⇒ hyphen, exceptions pre-empt the patterns).
//!
//! Sub-checks
//!   golden          the crate's own 20 hyphenation + 3 explanation goldens (TeX-verified) against the
//!                   MODEL and the implementation: calibrates the model and the index convention.
//!   liang           generated alphabet × pattern set × exception list × load order × word.
//!   nonletter_words same generator, one non-letter injected into the word. EXPLORATION ONLY (the property
//!                   quantifies over words of letters): the behaviour is classified, never judged.
//!   plain_words     pseudo-English words against plain TeX's 4447 patterns + 14 exceptions.
//!   big_tables      same generator and oracle as `liang`, 100-400 patterns and 20-80 exceptions per case.
//!   plain_overlay   plain TeX's tables + 5-30 generated patterns over a-z (digits up to 9, long patterns)
//!                   + 50-400 exceptions, pseudo-English word; same oracle.
//!   pool_pairs      exhaustive: every pair (thorough: triple) of a fixed 40-pattern pool × every word
//!                   of length ≤ 6 (thorough ≤ 7) over {a,b,c}.
//!   pool_exceptions exhaustive: every pool pattern × every hyphenated exception of length ≤ 3 × both
//!                   load orders × every word of length ≤ 4.
//!   primitives      (LAST, because it reports the open defects of the anchored file) the TeX primitives
//!                   `\patterns` / `\hyphenation` of texlang-texttransform run in a VM on a generated case;
//!                   the component's hyphenator is then queried and compared with the same model.
//!
//! Every letters-only case additionally checks `hypthenate()` (the text API every real caller uses),
//! the aggregate scores of `calculate_explanation` (the max digit itself, not only its parity) and -
//! when the case carries a `requery` - the answers of ONE instance before and after further loads.

use crate::engine::*;
use crate::models::liang::{self, Deviations, Lexicon, Pattern, FLAG_COMPETES, FLAG_REPLACED};
use proptest::prelude::*;
use serde::{Deserialize, Serialize};
use std::sync::OnceLock;

// ---------------------------------------------------------------------------------------------
// Case representation (everything is text, so replay files read like a TeX session)

#[derive(Debug, Clone, Serialize, Deserialize, PartialEq, Eq)]
pub enum Load {
    /// argument of one `load_patterns` call (whitespace separated TeX patterns)
    Patterns(String),
    /// argument of one `insert_exception` call (`a-bc`)
    Exception(String),
    /// argument of one `insert_exceptions` call (one exception per line)
    Exceptions(String),
    /// plain TeX's tables, loaded the way `Hyphenator::plain_tex_en_us` does it:
    /// `load_patterns(plain_tex_patterns.txt)` then `insert_exceptions(plain_tex_exceptions.txt)`
    PlainTex,
}

#[derive(Debug, Clone, Serialize, Deserialize, PartialEq, Eq)]
pub struct HCase {
    /// (lower, upper): the lower-caser passed to `calculate_indices` maps both characters to
    /// `lower`; every other character is a non-letter (`None`).
    pub letters: Vec<(char, char)>,
    /// calls made on a fresh `Hyphenator::default()`, in order
    pub loads: Vec<Load>,
    pub word: String,
    /// query -> load more -> query again on ONE instance: after the first `.0` loads (clamped to the
    /// number of loads) `word` and the second word `.1` are queried and judged against the model of
    /// that prefix; then the remaining loads are applied to the same instance and both are queried again.
    #[serde(default)]
    pub requery: Option<(usize, String)>,
}

struct MapLower<'a>(&'a [(char, char)]);

impl hyphenate::LowerCaser for MapLower<'_> {
    fn to_lower_case(&self, c: char) -> Option<char> {
        for &(lo, up) in self.0 {
            if c == lo || c == up {
                return Some(lo);
            }
        }
        None
    }
}

fn apply_load(h: &mut hyphenate::Hyphenator, l: &Load) {
    match l {
        Load::Patterns(t) => h.load_patterns(t),
        Load::Exception(t) => h.insert_exception(t),
        Load::Exceptions(t) => h.insert_exceptions(t),
        Load::PlainTex => {
            h.load_patterns(PLAIN_PATTERNS);
            h.insert_exceptions(PLAIN_EXCEPTIONS);
        }
    }
}

/// `lines_only` = deviation `insert_exceptions_splits_lines_only` (the documented separator of
/// `insert_exceptions` is whitespace).
fn build_model(loads: &[Load], lines_only: bool) -> Result<Lexicon, String> {
    let mut lex = Lexicon::default();
    for l in loads {
        match l {
            Load::Patterns(t) => lex.push_patterns(t)?,
            Load::Exception(t) => lex.push_exception(t),
            Load::Exceptions(t) => {
                if lines_only {
                    for line in t.lines().map(|x| x.trim()).filter(|x| !x.is_empty()) {
                        lex.push_exception(line);
                    }
                } else {
                    for word in t.split_whitespace() {
                        lex.push_exception(word);
                    }
                }
            }
            Load::PlainTex => lex.entries.extend(plain_model().entries.iter().cloned()),
        }
    }
    Ok(lex)
}

pub const FLAG_LINES: &str = "flag:insert_exceptions_splits_lines_only";

fn render_case(c: &HCase) -> String {
    let mut s = String::new();
    s.push_str("letters=");
    for (lo, up) in &c.letters {
        s.push_str(&format!("{lo}/{up} "));
    }
    s.push_str("| ");
    for l in &c.loads {
        match l {
            Load::Patterns(t) => s.push_str(&format!("\\patterns{{{}}} ", t.split_whitespace().collect::<Vec<_>>().join(" "))),
            Load::Exception(t) => s.push_str(&format!("\\hyphenation{{{t}}} ")),
            Load::Exceptions(t) => s.push_str(&format!("\\hyphenation{{{}}} ", t.split_whitespace().collect::<Vec<_>>().join(" "))),
            Load::PlainTex => s.push_str("\\input hyphen "),
        }
    }
    s.push_str(&format!("| word={}", c.word));
    if let Some((k, other)) = &c.requery {
        s.push_str(&format!(" | also queried after the first {} loads; second word={}", (*k).min(c.loads.len()), other));
    }
    s
}

fn hyphenated(word: &[char], pos: &[usize]) -> String {
    let mut s = String::new();
    for (i, c) in word.iter().enumerate() {
        if pos.contains(&i) {
            s.push('-');
        }
        s.push(*c);
    }
    s
}

// ---------------------------------------------------------------------------------------------
// The oracle

fn zero_run_16(p: &Pattern) -> bool {
    // 16 or more consecutive zero digits (this is where the packed op stream needs a 0xF0 filler)
    let mut run = 0;
    for &d in &p.digits {
        if d == 0 {
            run += 1;
            if run >= 16 {
                return true;
            }
        } else {
            run = 0;
        }
    }
    false
}

/// The pattern tokens of the case in load order (parallel to `Lexicon::patterns()`).
fn pattern_tokens(loads: &[Load]) -> Vec<&str> {
    let mut v = vec![];
    for l in loads {
        match l {
            Load::Patterns(t) => v.extend(t.split_whitespace()),
            Load::PlainTex => v.extend(PLAIN_PATTERNS.split_whitespace()),
            _ => {}
        }
    }
    v
}

/// A literal `0` written after at least 15 letters that carry no digit (the zero-run filler 0xF0 of the
/// packed op stream and the explicit zero op meet here).
fn explicit_zero_after_15_letters(tok: &str) -> bool {
    let mut run = 0;
    for c in tok.chars() {
        if c.is_ascii_digit() {
            if c == '0' && run >= 15 {
                return true;
            }
            run = 0;
        } else if c != '.' {
            run += 1;
        }
    }
    false
}

/// Same as `Lexicon::has_duplicate_pattern_keys` (TeX: "Duplicate pattern"), without the quadratic scan
/// (membership tests only, so the hash order does not matter).
fn has_duplicate_keys(lex: &Lexicon) -> bool {
    let mut seen: std::collections::HashSet<(bool, bool, &[char])> = std::collections::HashSet::new();
    lex.patterns().into_iter().any(|p| !seen.insert((p.start, p.end, &p.letters[..])))
}

/// If the listed deviation flags (smallest subsets first) make the deviating model reproduce `got`
/// exactly for the loads `loads` and the lower-cased word `w`: the signature to report.
fn known_deviation(ctx: &Ctx, loads: &[Load], w: &[char], got: &[usize]) -> Option<String> {
    let listed: Vec<&str> = [FLAG_COMPETES, FLAG_REPLACED, FLAG_LINES].into_iter().filter(|f| ctx.known(f)).collect();
    let mut subsets: Vec<u32> = (1..(1u32 << listed.len())).collect();
    subsets.sort_by_key(|m| (m.count_ones(), *m));
    for m in subsets {
        let on: Vec<&str> = listed.iter().enumerate().filter(|(i, _)| m & (1 << i) != 0).map(|(_, f)| *f).collect();
        let d = Deviations {
            exception_competes_as_6_7_pattern: on.contains(&FLAG_COMPETES),
            exception_replaced_by_later_full_word_pattern: on.contains(&FLAG_REPLACED),
        };
        let Ok(lex2) = build_model(loads, on.contains(&FLAG_LINES)) else { continue };
        if lex2.positions_with(w, d) == got {
            return Some(on.join("+"));
        }
    }
    None
}

/// Lower-cased letters of `word`, or `None` if it contains a non-letter.
fn lower_letters(lower: &MapLower, word: &str) -> Option<Vec<char>> {
    word.chars().map(|ch| hyphenate::LowerCaser::to_lower_case(lower, ch)).collect()
}

fn oracle(ctx: &Ctx, c: &HCase, case: &mut Case, allow_nonletter: bool) -> Verdict {
    let lex = match build_model(&c.loads, false) {
        Ok(l) => l,
        Err(_) => return Verdict::Skip("malformed pattern (outside the domain)"),
    };
    if has_duplicate_keys(&lex) {
        return Verdict::Skip("duplicate pattern key (TeX: Duplicate pattern error)");
    }
    let lower = MapLower(&c.letters);
    let chars: Vec<char> = c.word.chars().collect();
    let lowered: Vec<Option<char>> = chars.iter().map(|&ch| hyphenate::LowerCaser::to_lower_case(&lower, ch)).collect();
    let nonletter_at = lowered.iter().position(|x| x.is_none());

    // ---- the instance: loaded in one go, or queried once in between (query -> load -> query) -----
    let mut h = hyphenate::Hyphenator::default();
    let mut first_answer: Option<Vec<usize>> = None;
    let mut split_at = 0usize;
    let mut lex_first: Option<Lexicon> = None;
    match (&c.requery, nonletter_at) {
        (Some((k, other)), None) => {
            let k = (*k).min(c.loads.len());
            split_at = k;
            for l in &c.loads[..k] {
                apply_load(&mut h, l);
            }
            let Ok(lexk) = build_model(&c.loads[..k], false) else { return Verdict::Skip("malformed pattern (outside the domain)") };
            for q in [&c.word, other] {
                let Some(qw) = lower_letters(&lower, q) else { continue };
                if qw.is_empty() {
                    continue;
                }
                let gotk: Vec<usize> = h.calculate_indices(&lower, q).collect();
                let expk = lexk.positions(&qw);
                if gotk != expk {
                    if let Some(sig) = known_deviation(ctx, &c.loads[..k], &qw, &gotk) {
                        return Verdict::Known(sig);
                    }
                    return Verdict::Fail(format!(
                        "first query (after {k} of {} loads) differs from Liang's definition for the loads made so far\n{}\nqueried word: {q}\nexpected positions {expk:?}\ngot      positions {gotk:?}",
                        c.loads.len(),
                        render_case(c)
                    ));
                }
                if std::ptr::eq(q, &c.word) {
                    first_answer = Some(gotk);
                }
            }
            lex_first = Some(lexk);
            for l in &c.loads[k..] {
                apply_load(&mut h, l);
            }
        }
        _ => {
            for l in &c.loads {
                apply_load(&mut h, l);
            }
        }
    }
    if let Some(k) = nonletter_at {
        if !allow_nonletter {
            return Verdict::Skip("word contains a non-letter");
        }
        return match crate::engine::panics::catch(|| h.calculate_indices(&lower, &c.word).collect::<Vec<usize>>()) {
            Ok(got) => nonletter_explore(&lex, &lowered, k, &got, c, case),
            Err(info) => {
                case.class("nonletter word");
                case.class("nonletter: PANIC (not judged)");
                if case.replay {
                    case.note = Some(format!("{} => panic at {}: {}", render_case(c), info.site(), info.message));
                }
                Verdict::pass(false)
            }
        };
    }
    let got: Vec<usize> = h.calculate_indices(&lower, &c.word).collect();
    let w: Vec<char> = lowered.iter().map(|x| x.unwrap()).collect();
    let n = w.len();
    if n == 0 {
        return if got.is_empty() { Verdict::pass(false) } else { Verdict::Fail(format!("empty word hyphenated at {got:?}")) };
    }
    let expected = lex.positions(&w);
    let a = lex.analyse(&w);
    let pats = lex.patterns();
    let toks = pattern_tokens(&c.loads);

    // ---- classes -------------------------------------------------------------------------
    case.class(match n {
        1 => "len=1",
        2..=6 => "len=2..6",
        7..=16 => "len=7..16",
        17..=32 => "len=17..32",
        _ => "len>=33",
    });
    case.class(match pats.len() {
        0 => "patterns=0",
        1..=5 => "patterns=1..5",
        6..=15 => "patterns=6..15",
        16..=99 => "patterns=16..99",
        100..=199 => "patterns=100..199",
        200..=999 => "patterns=200..999",
        _ => "patterns>=1000",
    });
    let upper = chars.iter().zip(&w).filter(|(a, b)| a != b).count();
    case.class_if(upper > 0 && upper < n, "word mixed case");
    case.class_if(upper == n, "word all upper");
    case.class_if(c.word.len() != n, "multibyte letter in word");
    case.class_if(c.letters.iter().any(|(lo, up)| !up.to_lowercase().eq(std::iter::once(*lo))), "non-standard upper pairing");
    // alphabet shapes
    let used = |f: &dyn Fn(char, char) -> bool| chars.iter().zip(&w).any(|(&orig, &lo)| f(orig, lo));
    case.class_if(used(&|o, l| o.len_utf8() != l.len_utf8()), "word has a letter whose lower case has another UTF-8 length");
    case.class_if(used(&|o, l| o.len_utf8() > l.len_utf8()), "word has a letter longer than its lower case");
    case.class_if(used(&|o, l| o.len_utf8() < l.len_utf8()), "word has a letter shorter than its lower case");
    case.class_if(used(&|o, _| o.len_utf8() == 3), "word has a 3-byte letter");
    case.class_if(used(&|o, _| o.len_utf8() == 4), "word has a 4-byte letter");
    case.class_if(used(&|o, _| o == '\'' || o == '\u{2019}'), "word has an apostrophe letter");
    case.class_if(c.letters.iter().any(|&(lo, up)| lo == up && chars.contains(&lo)), "word has an uncased letter");
    case.class_if(n >= 2 && chars[..n - 1].iter().any(|ch| ch.len_utf8() > 1), "multibyte letter not in last position");
    case.class_if(expected.iter().any(|&p| chars[..p].iter().any(|ch| ch.len_utf8() > 1)), "hyphen after a multibyte letter");
    case.class_if(
        expected.iter().any(|&p| chars[..p].iter().zip(&w[..p]).any(|(o, l)| o.len_utf8() != l.len_utf8())),
        "hyphen after a letter whose lower case has another UTF-8 length",
    );
    let interior = |p: usize| p >= 1 && p + 1 <= n;
    let mut m_start = false;
    let mut m_end = false;
    let mut m_both = false;
    let mut m_hi = false;
    let mut m_zero_run = false;
    let mut m_zero_run_explicit = false;
    let mut m_zero15 = false;
    let mut m_explicit = false;
    let mut m_digit_pos0 = false;
    let mut m_digit_posn = false;
    let mut interior_nonzero = false;
    for &(pi, o) in &a.matches {
        let p = pats[pi];
        m_start |= p.start && !p.end;
        m_end |= p.end && !p.start;
        m_both |= p.start && p.end;
        let zr = zero_run_16(p);
        let ex0 = toks.get(pi).is_some_and(|t| t.contains('0'));
        m_zero_run |= zr;
        m_explicit |= ex0;
        m_zero_run_explicit |= zr && ex0;
        m_zero15 |= toks.get(pi).is_some_and(|t| explicit_zero_after_15_letters(t));
        m_digit_pos0 |= o == 0 && p.digits[0] != 0;
        m_digit_posn |= o + p.letters.len() == n && *p.digits.last().unwrap() != 0;
        for (i, &d) in p.digits.iter().enumerate() {
            if d != 0 && interior(o + i) {
                interior_nonzero = true;
                m_hi |= d >= 7;
            }
        }
    }
    case.class_if(m_start, "matched .x pattern");
    case.class_if(m_end, "matched x. pattern");
    case.class_if(m_both, "matched .x. pattern");
    case.class_if(m_hi, "matched digit 7..9 (interior)");
    case.class_if(m_zero_run, "matched pattern with zero run >=16");
    case.class_if(m_explicit, "matched pattern with an explicit 0");
    case.class_if(m_zero_run_explicit, "matched pattern with explicit 0 and zero run >=16");
    case.class_if(m_zero15, "matched pattern with explicit 0 after >=15 digitless letters");
    case.class_if(m_digit_pos0, "matched digit before first letter");
    case.class_if(m_digit_posn, "matched digit after last letter");
    case.class_if(a.longest_matched_pattern > 16, "matched pattern >16 letters");
    case.class_if(a.longest_matched_pattern > 32, "matched pattern >32 letters");
    // an anchored pattern whose letters occur in the word at a place the anchor forbids
    let mut blocked = false;
    for p in &pats {
        if !(p.start || p.end) {
            continue;
        }
        let free = Pattern { start: false, end: false, letters: p.letters.clone(), digits: p.digits.clone() };
        for o in 0..n {
            if free.matches_at(&w, o) && !p.matches_at(&w, o) && p.digits.iter().enumerate().any(|(i, &d)| d != 0 && interior(o + i)) {
                blocked = true;
            }
        }
    }
    case.class_if(blocked, "anchor blocks a mid-word occurrence");
    case.class_if((1..n).any(|p| a.parity_conflict[p]), "odd and even digit at one position");
    case.class_if(!expected.is_empty(), "has a hyphen");
    case.class_if(toks.iter().any(|t| t.contains('0')), "explicit 0 digit in a pattern");
    case.class_if(c.loads.iter().any(|l| matches!(l, Load::Exceptions(t) if t.split_whitespace().count() > 1 && !t.contains('\n'))), "insert_exceptions with blank/tab separated words");
    case.class_if(c.loads.iter().any(|l| matches!(l, Load::Exceptions(t) if t.contains('\n'))), "insert_exceptions with lines");
    case.class_if(c.loads.iter().any(|l| matches!(l, Load::Exception(_))), "insert_exception");
    case.class_if(c.loads.iter().filter(|l| matches!(l, Load::Patterns(_))).count() > 1, "several load_patterns calls");
    // text syntax inside the documented format (whitespace separated)
    let text_of = |l: &Load| -> (bool, String) {
        match l {
            Load::Patterns(t) => (true, t.clone()),
            Load::Exception(t) => (false, t.clone()),
            Load::Exceptions(t) => (false, t.clone()),
            Load::PlainTex => (true, "plain".to_string()),
        }
    };
    case.class_if(c.loads.iter().any(|l| matches!(l, Load::Patterns(t) if t.contains('\t'))), "load_patterns text with a tab");
    case.class_if(c.loads.iter().any(|l| matches!(l, Load::Patterns(t) if t.contains("\r\n"))), "load_patterns text with CRLF");
    case.class_if(c.loads.iter().any(|l| matches!(l, Load::Patterns(t) if t.contains("\n\n"))), "load_patterns text with an empty line");
    case.class_if(
        c.loads.iter().any(|l| matches!(l, Load::Patterns(t) if !t.is_empty() && (t.starts_with(char::is_whitespace) || t.ends_with(char::is_whitespace)) && t.split_whitespace().next().is_some())),
        "load_patterns text with leading/trailing whitespace",
    );
    case.class_if(c.loads.iter().any(|l| matches!(l, Load::Exceptions(t) if t.contains("\r\n"))), "insert_exceptions text with CRLF");
    case.class_if(c.loads.iter().any(|l| !matches!(l, Load::Exception(_)) && text_of(l).1.split_whitespace().next().is_none()), "load call with no word in it");
    case.class_if(c.loads.iter().any(|l| !text_of(l).0 && text_of(l).1.contains("--")), "exception with a doubled hyphen");
    let n_exc = lex.entries.iter().filter(|e| matches!(e, liang::Entry::Exception(_))).count();
    case.class(match n_exc {
        0 => "exceptions=0",
        1..=5 => "exceptions=1..5",
        6..=19 => "exceptions=6..19",
        20..=49 => "exceptions=20..49",
        _ => "exceptions>=50",
    });
    let is_exc = a.exception.is_some();
    case.class_if(is_exc, "word is an exception");
    if let Some(ie) = a.exception {
        let before = lex.entries[..ie].iter().any(|e| matches!(e, liang::Entry::Pattern(_)));
        let after = lex.entries[ie + 1..].iter().any(|e| matches!(e, liang::Entry::Pattern(_)));
        case.class_if(before, "exception loaded after patterns");
        case.class_if(after, "exception loaded before patterns");
        let full = |e: &liang::Entry| matches!(e, liang::Entry::Pattern(p) if p.start && p.end && p.letters == w);
        case.class_if(lex.entries[..ie].iter().any(full), "exception shares trie path with earlier .w. pattern");
        case.class_if(lex.entries[ie + 1..].iter().any(full), "exception shares trie path with later .w. pattern");
        let dup = lex.entries[..ie].iter().any(|e| matches!(e, liang::Entry::Exception(x) if x.letters == w));
        case.class_if(dup, "word listed twice as exception");
    }
    if let (Some(first), Some(lexk)) = (&first_answer, &lex_first) {
        case.class("requery: queried before the last load");
        case.class_if(split_at > 0 && split_at < c.loads.len(), "requery: first query between two loads");
        case.class_if(*first != expected, "requery: later loads change the answer for the word");
        let ak = lexk.analyse(&w).exception;
        case.class_if(ak.is_none() && is_exc, "requery: word becomes an exception after the first query");
        case.class_if(ak.is_some() && ak != a.exception, "requery: exception for the word is replaced after the first query");
        case.class_if(ak.is_none() && !is_exc && *first != expected, "requery: later patterns change the answer");
    }
    let compete = !is_exc && (1..n).any(|p| a.nonzero_contributions[p] >= 2);
    let exc_and_pattern = is_exc && interior_nonzero;
    let long = !is_exc && a.longest_matched_pattern > 16;
    case.class_if(compete, "NT: >=2 patterns compete at a position");
    case.class_if(exc_and_pattern, "NT: exception word also matches a pattern");
    case.class_if(long, "NT: pattern >16 letters matched");
    let nontrivial = compete || exc_and_pattern || long;
    if nontrivial || case.replay {
        case.note = Some(format!("{} => {} (digits {:?})", render_case(c), hyphenated(&chars, &expected), a.digits));
    }

    if got != expected {
        // ---- known deviations (only the listed ones, smallest subsets first) -----------------
        if let Some(sig) = known_deviation(ctx, &c.loads, &w, &got) {
            return Verdict::Known(sig);
        }
        return Verdict::Fail(format!(
            "hyphen positions differ from Liang's definition\n{}\nlower-cased word: {}\nmax digits per position 0..=n (patterns only): {:?}\nword is an exception: {}\nexpected positions {:?} = {}\ngot      positions {:?} = {}",
            render_case(c),
            w.iter().collect::<String>(),
            a.digits,
            is_exc,
            expected,
            hyphenated(&chars, &expected),
            got,
            hyphenated(&chars, &got),
        ));
    }
    // ---- the text API every real caller uses (hyphenate-bin, hyphenate-wasm) ------------------
    let want_text = hyphenated(&chars, &expected);
    let mut via_string = String::new();
    h.hypthenate(&lower, &c.word, &mut via_string);
    if via_string != want_text {
        return Verdict::Fail(format!(
            "hypthenate() puts the hyphens elsewhere than calculate_indices() / Liang's definition\n{}\nexpected {want_text}\ngot      {via_string}",
            render_case(c)
        ));
    }
    // ---- the maximum digit itself (documented `aggregate_scores`: one entry per letter, entry i = max
    //      digit in front of letter i, entry 0 forced to 0 - pinned by the crate's explanation goldens) -----
    if !is_exc {
        let e = h.calculate_explanation(&lower, &c.word);
        let mut want = a.digits.clone();
        want[0] = 0;
        want.truncate(n);
        if e.aggregate_scores != want {
            return Verdict::Fail(format!(
                "aggregate scores differ from the maximum digit over all matching patterns\n{}\nexpected {want:?}\ngot      {:?}",
                render_case(c),
                e.aggregate_scores
            ));
        }
        if e.lower_cased.chars().ne(w.iter().copied()) {
            return Verdict::Fail(format!("Explanation.lower_cased is {:?}, the lower-case map gives {:?}\n{}", e.lower_cased, w.iter().collect::<String>(), render_case(c)));
        }
    }
    // ---- second word of a requery case, on the fully loaded instance --------------------------
    if let Some((_, other)) = &c.requery {
        if let Some(qw) = lower_letters(&lower, other).filter(|q| !q.is_empty()) {
            let got2: Vec<usize> = h.calculate_indices(&lower, other).collect();
            let exp2 = lex.positions(&qw);
            case.class_if(lex.analyse(&qw).exception.is_some(), "requery: second word is an exception at the end");
            if got2 != exp2 {
                if let Some(sig) = known_deviation(ctx, &c.loads, &qw, &got2) {
                    return Verdict::Known(sig);
                }
                return Verdict::Fail(format!(
                    "second word of the case, queried on the same instance after all loads, differs from Liang's definition\n{}\nqueried word: {other}\nexpected positions {exp2:?}\ngot      positions {got2:?}",
                    render_case(c)
                ));
            }
        }
    }
    Verdict::pass(nontrivial)
}

/// A word with a non-letter (lower-caser returns None) at index k. The property quantifies over words of
/// letters, no caller in the repository passes such a word (boxworks-hyphenate cuts words at the first
/// non-letter, as TeX §897 does) and the API documents nothing. So NOTHING is demanded here: the sub-check
/// only records which of the plausible behaviours the implementation shows (evidence for whoever changes
/// the API), and never fails - not even on a panic, which is counted and shown in the note instead.
///   A. TeX's reading: the word ends before the non-letter: result = Liang(`.prefix.`), exceptions apply;
///   B. the non-letter is an unknown character that matches no pattern: result = patterns matching
///      inside the prefix without any end anchor, no exception, positions up to and including k.
fn nonletter_explore(lex: &Lexicon, lowered: &[Option<char>], k: usize, got: &[usize], c: &HCase, case: &mut Case) -> Verdict {
    case.class("nonletter word");
    case.class_if(k == 0, "nonletter first");
    case.class_if(k + 1 == lowered.len(), "nonletter last");
    let prefix: Vec<char> = lowered[..k].iter().map(|x| x.unwrap()).collect();
    let reading_a = if k == 0 { vec![] } else { lex.positions(&prefix) };
    // reading B: append a character that occurs in no pattern, ignore exceptions, keep positions <= k
    let mut ext = prefix.clone();
    ext.push('\u{10FFFF}');
    ext.push('\u{10FFFF}');
    let ps: Vec<Pattern> = lex.patterns().into_iter().cloned().collect();
    let d = liang::max_digits(&ps, &ext);
    let reading_b: Vec<usize> = (1..=k).filter(|&p| d[p] % 2 == 1).collect();
    case.class_if(reading_a != reading_b, "nonletter: readings differ");
    case.class_if(got.iter().any(|&p| p > k), "nonletter: hyphen after the non-letter (not judged)");
    if got == reading_a.as_slice() {
        case.class("nonletter: = TeX word-ends-here reading");
    } else if got == reading_b.as_slice() {
        case.class("nonletter: = unknown-character reading");
    } else {
        case.class("nonletter: neither reading (not judged)");
        if case.replay {
            case.note = Some(format!("{} => got {:?}; reading A {:?}; reading B {:?}", render_case(c), got, reading_a, reading_b));
        }
    }
    Verdict::pass(false)
}

// ---------------------------------------------------------------------------------------------
// Generator

const LOWER: [char; 5] = ['a', 'b', 'c', 'd', 'e'];
const UPPER: [char; 5] = ['A', 'B', 'C', 'D', 'E'];
const ALT_UPPER: [char; 5] = ['Z', 'Y', 'X', 'W', 'V'];

/// Wide alphabets: slot i of the alphabet takes one of the (lower, upper) pairs of row i. The rows use
/// pairwise disjoint characters, so every combination is a valid alphabet (checked in `run`). Shapes:
/// lower and upper case of different UTF-8 length in both directions (1/2, 2/1, 2/3, 3/2, 4/1 bytes),
/// 2-, 3- and 4-byte letters, letters without case (lower == upper: CJK, ª), the two apostrophes that real
/// pattern files contain (`l'1a`), a non-Latin script. A multibyte letter may sit in any slot, hence
/// anywhere in the word and the patterns.
const SLOTS: [[(char, char); 6]; 5] = [
    [('a', 'A'), ('a', 'Ä'), ('ä', 'A'), ('\u{1E01}', '\u{1E00}'), ('\u{1D4B6}', '\u{1D49C}'), ('\'', '\'')],
    [('b', 'B'), ('ß', '\u{1E9E}'), ('\u{2C65}', '\u{023A}'), ('б', 'Б'), ('\u{10428}', '\u{10400}'), ('字', '字')],
    [('c', 'C'), ('ç', 'C'), ('c', 'Ç'), ('ć', 'Ć'), ('ª', 'ª'), ('\u{1D4B8}', 'C')],
    [('d', 'D'), ('đ', 'Đ'), ('ď', 'D'), ('d', 'Ď'), ('\u{1E0D}', '\u{1E0C}'), ('\u{2019}', '\u{2019}')],
    [('e', 'E'), ('é', 'É'), ('é', 'E'), ('e', 'É'), ('\u{1EB9}', '\u{1EB8}'), ('\u{1D452}', '\u{1D438}')],
];

/// Alphabets for the TeX primitives: every character has a slot in the 256-entry `\lccode` table of
/// texlang-texttransform (TeX82 is an 8-bit system; what a character >= 256 means there is not defined).
const SLOTS8: [[(char, char); 4]; 5] = [
    [('a', 'A'), ('a', 'Z'), ('a', 'Ä'), ('\'', '\'')],
    [('b', 'B'), ('b', 'Y'), ('ß', 'ß'), ('þ', 'Þ')],
    [('c', 'C'), ('ç', 'Ç'), ('ç', 'C'), ('c', 'X')],
    [('d', 'D'), ('ð', 'Ð'), ('d', 'Ð'), ('ð', 'D')],
    [('e', 'E'), ('é', 'É'), ('é', 'E'), ('e', 'É')],
];

type RawPat = ((u8, u8, u8, u16, u16), Vec<u8>, (u8, Vec<u8>, u16));
type RawExc = ((u8, u16, u8, u16), Vec<u8>, Vec<u8>);

fn raw_pat() -> impl Strategy<Value = RawPat> {
    ((0u8..40, 0u8..10, 0u8..10, any::<u16>(), any::<u16>()), proptest::collection::vec(0u8..5, 4), (0u8..8, proptest::collection::vec(any::<u8>(), 41), any::<u16>()))
}

fn raw_exc() -> impl Strategy<Value = RawExc> {
    ((0u8..8, any::<u16>(), 0u8..16, any::<u16>()), proptest::collection::vec(0u8..5, 4), proptest::collection::vec(any::<u8>(), 41))
}

fn word_len(min: usize) -> BoxedStrategy<usize> {
    if min > 1 {
        return prop_oneof![
            3 => min..=32,
            2 => 33usize..=40,
        ]
        .boxed();
    }
    prop_oneof![
        3 => 1usize..=6,
        3 => 7usize..=16,
        3 => 17usize..=32,
        2 => 33usize..=40,
    ]
    .boxed()
}

/// Builds one pattern (letters as alphabet indices) from raw material; `w` is the lower-case word.
fn make_pattern(raw: &RawPat, w: &[u8], k: usize, maxd: u8, alphabet: &[char]) -> Pattern {
    let ((sel, kind, lenclass, lenr, offr), rnd, (dmode, dig, pick)) = raw;
    let n = w.len();
    let want = match lenclass {
        0..=5 => 1 + (*lenr as usize) % 4,
        6..=7 => 5 + (*lenr as usize) % 12,
        8 => 17 + (*lenr as usize) % 16,
        _ => 33 + (*lenr as usize) % 8,
    };
    let (mut start, mut end) = (false, false);
    let mut len = want.min(n).max(1);
    let mut off = pick_idx(*offr, n - len + 1);
    match sel {
        0..=21 => {}
        22..=25 => {
            start = true;
            off = 0;
        }
        26..=29 => {
            end = true;
            off = n - len;
        }
        30 => {
            start = true;
            end = true;
            off = 0;
            len = n;
        }
        31..=33 => start = true,
        34..=36 => end = true,
        37 => {
            start = true;
            end = true;
        }
        38 => off = 0,
        _ => off = n - len,
    }
    let mut letters: Vec<u8> = match kind {
        0..=7 => w[off..off + len].to_vec(),
        _ => rnd[..1 + (*lenr as usize) % 4].iter().map(|x| x % k as u8).collect(),
    };
    if *kind == 7 && *sel != 30 {
        // near miss: one letter changed to a different one
        let i = (*pick as usize) % letters.len();
        letters[i] = ((letters[i] as usize + 1 + (rnd[0] as usize) % (k - 1)) % k) as u8;
    }
    let m = letters.len();
    let mut digits = vec![0u8; m + 1];
    let val = |r: u8| 1 + (r >> 3) % maxd;
    match dmode {
        0 | 1 => {
            for i in 0..=m {
                if dig[i] & 1 == 1 {
                    digits[i] = val(dig[i]);
                }
            }
        }
        2 | 3 => {
            for i in 0..=m {
                if dig[i] % 8 == 0 {
                    digits[i] = val(dig[i].wrapping_add(dig[40 - i]));
                }
            }
        }
        4 => digits[pick_idx(*pick, m + 1)] = val(dig[0]),
        5 => {
            let p = if m >= 2 { 1 + pick_idx(*pick, m - 1) } else { pick_idx(*pick, m + 1) };
            digits[p] = val(dig[0]);
        }
        6 => {
            let p = pick_idx(*pick, m + 1);
            digits[p] = val(dig[0]);
            digits[(p + m / 2 + 1) % (m + 1)] = val(dig[1]);
        }
        _ => {
            if pick & 1 == 0 {
                digits[0] = val(dig[0]);
            } else {
                digits[m] = val(dig[0]);
            }
        }
    }
    Pattern { start, end, letters: letters.iter().map(|&i| alphabet[i as usize]).collect(), digits }
}

/// In which gaps a zero digit is written out as a literal `0` (TeX accepts `a0b`; the packed op stream
/// stores it as an op of its own). Dense patterns (dmode 0/1): sprinkled. Sparse and long patterns
/// (dmode >= 2, the ones with zero runs >= 16): none / sprinkled / next to every non-zero digit /
/// around the filler boundaries (gaps 15..17 and 31..33) and at one more random gap.
fn explicit_zero_mask(raw: &RawPat, p: &Pattern) -> Vec<bool> {
    let (dmode, dig, _) = &raw.2;
    let m1 = p.digits.len();
    let sprinkle = |i: usize| dig[i % dig.len()] % 16 == 2;
    let mut mask = vec![false; m1];
    let style = if *dmode <= 1 { 1 } else { (dig[37] % 5).saturating_sub(1) };
    match style {
        0 => {}
        1 => {
            for (i, x) in mask.iter_mut().enumerate() {
                *x = sprinkle(i);
            }
        }
        2 => {
            for i in 0..m1 {
                if p.digits[i] != 0 {
                    if i > 0 {
                        mask[i - 1] = true;
                    }
                    if i + 1 < m1 {
                        mask[i + 1] = true;
                    }
                }
            }
        }
        _ => {
            for i in [15usize, 16, 17, 31, 32, 33] {
                if i < m1 && dig[i] % 2 == 0 {
                    mask[i] = true;
                }
            }
            mask[dig[38] as usize % m1] = true;
        }
    }
    for i in 0..m1 {
        mask[i] &= p.digits[i] == 0;
    }
    mask
}

/// TeX text of a pattern; `explicit[i]` says that the zero digit of gap i is written out as `0`.
fn pattern_text(p: &Pattern, explicit: &[bool]) -> String {
    let mut s = String::new();
    if p.start {
        s.push('.');
    }
    for (i, d) in p.digits.iter().enumerate() {
        if *d != 0 {
            s.push(char::from(b'0' + *d));
        } else if explicit[i] {
            s.push('0');
        }
        if let Some(c) = p.letters.get(i) {
            s.push(*c);
        }
    }
    if p.end {
        s.push('.');
    }
    s
}

/// `may_be_word` = false: the exception list never contains the word itself (kinds 0/1 become near-misses), so
/// that cases with dozens of exceptions still exercise the patterns.
fn make_exception(raw: &RawExc, w: &[u8], k: usize, alphabet: &[char], may_be_word: bool) -> String {
    let ((kind, lenr, mode, pick), rnd, hyp) = raw;
    let n = w.len();
    let kind = &(if !may_be_word && *kind <= 1 { 5 } else { *kind });
    let mut letters: Vec<u8> = match kind {
        0 | 1 => w.to_vec(),
        2 | 3 if n >= 2 => w[..1 + (*lenr as usize) % (n - 1)].to_vec(),
        4 if n >= 2 => w[1 + (*lenr as usize) % (n - 1)..].to_vec(),
        5 => w.to_vec(),
        2..=4 => w.to_vec(),
        _ => rnd[..1 + (*lenr as usize) % 4].iter().map(|x| x % k as u8).collect(),
    };
    if *kind == 5 {
        let i = (*pick as usize) % letters.len();
        letters[i] = ((letters[i] as usize + 1 + (rnd[0] as usize) % (k - 1)) % k) as u8;
    }
    let m = letters.len();
    let mut hy = vec![false; m + 1];
    match mode % 4 {
        0 => {}
        1 => {
            for p in 1..m {
                hy[p] = hyp[p] & 1 == 1;
            }
        }
        2 => {
            for p in 1..m {
                hy[p] = hyp[p] % 4 == 0;
            }
        }
        _ => {
            if m >= 2 {
                hy[1 + pick_idx(*pick, m - 1)] = true;
            }
        }
    }
    if *mode == 14 {
        hy[0] = true;
    }
    if *mode == 15 {
        hy[m] = true;
    }
    let mut s = String::new();
    let mut doubled = false;
    for i in 0..=m {
        if hy[i] {
            s.push('-');
            if *mode == 13 && !doubled {
                // `a--b`: TeX §938 records the same position twice, i.e. one permitted hyphen
                s.push('-');
                doubled = true;
            }
        }
        if i < m {
            s.push(alphabet[letters[i] as usize]);
        }
    }
    s
}

/// (alphabet mode, per-slot alphabet choice, requery mode, requery split, requery pick, text-syntax bits)
type RawExt = (u8, Vec<u8>, u8, u16, u16, u8);
type RawCase = ((usize, u8, usize, Vec<u8>), (u8, Vec<bool>, u8), (Vec<RawPat>, Vec<RawExc>), (u8, Vec<u8>, u8), RawExt);

#[derive(Clone, Copy)]
struct Shape {
    pats: (usize, usize),
    excs: (usize, usize),
    min_word: usize,
}

const SHAPE_STD: Shape = Shape { pats: (0, 30), excs: (0, 5), min_word: 1 };
const SHAPE_SMALL: Shape = Shape { pats: (0, 12), excs: (0, 5), min_word: 1 };
const SHAPE_BIG: Shape = Shape { pats: (100, 400), excs: (20, 80), min_word: 12 };

fn raw_case(shape: Shape) -> impl Strategy<Value = RawCase> {
    (
        (3usize..=5, any::<u8>(), word_len(shape.min_word), proptest::collection::vec(0u8..5, 40)),
        (0u8..6, proptest::collection::vec(any::<bool>(), 40), 0u8..10),
        (proptest::collection::vec(raw_pat(), shape.pats.0..=shape.pats.1), proptest::collection::vec(raw_exc(), shape.excs.0..=shape.excs.1)),
        (0u8..6, proptest::collection::vec(any::<u8>(), 36), any::<u8>()),
        (0u8..16, proptest::collection::vec(any::<u8>(), 5), 0u8..4, any::<u16>(), any::<u16>(), any::<u8>()),
    )
}

fn build_case(raw: &RawCase, eight_bit: bool) -> HCase {
    let ((k, flags, n, wl), (casemode, casebits, maxsel), (rpats, rexcs), (order, keys, sep), (amode, alpha, qmode, qsplit, qpick, xsyn)) = raw;
    let k = *k;
    let mut lower: Vec<char> = LOWER[..k].to_vec();
    let mut upper: Vec<char> = if (flags >> 3) % 4 == 0 { ALT_UPPER[..k].to_vec() } else { UPPER[..k].to_vec() };
    if eight_bit {
        for i in 0..k {
            (lower[i], upper[i]) = SLOTS8[i][alpha[i] as usize % 4];
        }
    } else if *amode >= 10 {
        for i in 0..k {
            (lower[i], upper[i]) = SLOTS[i][alpha[i] as usize % 6];
        }
    } else if flags % 8 == 0 {
        // a two-byte letter: character index != byte index
        lower[k - 1] = 'é';
        upper[k - 1] = 'É';
    }
    let letters: Vec<(char, char)> = lower.iter().copied().zip(upper.iter().copied()).collect();
    let w: Vec<u8> = wl[..*n].iter().map(|x| x % k as u8).collect();
    let maxd: u8 = [5, 5, 5, 5, 5, 6, 6, 9, 9, 9][*maxsel as usize];
    let cased = |i: usize, l: u8| -> char {
        let up = match casemode {
            0 | 1 => false,
            2 => true,
            3 => i == 0,
            _ => casebits[i],
        };
        if up {
            upper[l as usize]
        } else {
            lower[l as usize]
        }
    };
    let word: String = w.iter().enumerate().map(|(i, &l)| cased(i, l)).collect();
    // patterns, keys unique by construction (a later pattern with an already used key is dropped:
    // TeX rejects it with "Duplicate pattern"); the set is only asked for membership
    let mut seen: std::collections::HashSet<(bool, bool, Vec<char>)> = std::collections::HashSet::new();
    let mut pats: Vec<String> = vec![];
    for rp in rpats {
        let p = make_pattern(rp, &w, k, maxd, &lower);
        if !seen.insert((p.start, p.end, p.letters.clone())) {
            continue;
        }
        let t = pattern_text(&p, &explicit_zero_mask(rp, &p));
        pats.push(t);
    }
    // more than 5 exceptions (big tables): in half of the cases none of them is the word itself
    let may_be_word = rexcs.len() <= 5 || (flags >> 5) & 1 == 1;
    let excs: Vec<String> = rexcs.iter().map(|r| make_exception(r, &w, k, &lower, may_be_word)).collect();
    // load order
    #[derive(Clone)]
    enum Item {
        P(String),
        E(String),
    }
    let mut items: Vec<(u8, Item)> = vec![];
    let pit = pats.iter().enumerate().map(|(i, t)| (keys[i % 30], Item::P(t.clone())));
    let eit = excs.iter().enumerate().map(|(i, t)| (keys[30 + i % 6], Item::E(t.clone())));
    match order {
        0 | 1 => {
            items.extend(pit);
            items.extend(eit);
        }
        2 | 3 => {
            items.extend(eit);
            items.extend(pit);
        }
        _ => {
            items.extend(pit);
            items.extend(eit);
            items.sort_by_key(|x| x.0);
        }
    }
    let mut loads: Vec<Load> = vec![];
    let merge_exc = sep & 1 == 1;
    // separators inside the documented format ("whitespace separated"): blank, newline, tab, CRLF, empty line
    let seps: &[&str] = if (sep >> 1) & 1 == 0 { &[" ", "\n", "  ", " \n "] } else { &[" ", "\t", "\n", "\r\n", "  ", "\n\n", " \n ", " \t"] };
    let chunk_max = if pats.len() > 40 { 8usize << (sep >> 6) } else { 8 };
    let mut in_chunk = 0usize;
    for (_, it) in items {
        match it {
            Item::P(t) => {
                if let Some(Load::Patterns(cur)) = loads.last_mut() {
                    if in_chunk < chunk_max {
                        cur.push_str(seps[((sep >> 2) as usize + in_chunk) % seps.len()]);
                        cur.push_str(&t);
                        in_chunk += 1;
                        continue;
                    }
                }
                loads.push(Load::Patterns(t));
                in_chunk = 1;
            }
            Item::E(t) => {
                if merge_exc {
                    if let Some(Load::Exceptions(cur)) = loads.last_mut() {
                        cur.push_str(["\n", "\n", " ", "\t", "\n\n", " \n", "\r\n", "\t \t"][(sep >> 3) as usize % 8]);
                        cur.push_str(&t);
                        continue;
                    }
                    loads.push(Load::Exceptions(t));
                } else {
                    loads.push(Load::Exception(t));
                }
            }
        }
    }
    // whitespace around the whole text of a load; load calls without any word
    if xsyn & 3 == 0 {
        let ws = [" ", "\n", "\t", "\r\n"];
        for (j, l) in loads.iter_mut().enumerate() {
            if let Load::Patterns(t) | Load::Exceptions(t) = l {
                let a = ws[((xsyn >> 2) as usize + j) % 4];
                let b = ws[((xsyn >> 4) as usize + j) % 4];
                *t = format!("{a}{t}{b}");
            }
        }
    }
    if (xsyn >> 4) & 3 == 0 {
        let empty = match xsyn >> 6 {
            0 => Load::Patterns(String::new()),
            1 => Load::Patterns(" \n\t".into()),
            2 => Load::Exceptions(String::new()),
            _ => Load::Exceptions("\r\n \n".into()),
        };
        let at = pick_idx(*qpick, loads.len() + 1);
        loads.insert(at, empty);
    }
    // query -> load -> query
    let requery = match qmode {
        0 | 1 => None,
        2 if !excs.is_empty() => {
            // a word of the exception list (often a prefix, suffix or near-miss of the word)
            let e: String = excs[pick_idx(*qpick, excs.len())].chars().filter(|c| *c != '-').collect();
            Some((pick_idx(*qsplit, loads.len() + 1), if e.is_empty() { word.clone() } else { e }))
        }
        _ => {
            // a prefix of the word (in its own letter case)
            let len = 1 + pick_idx(*qpick, *n);
            Some((pick_idx(*qsplit, loads.len() + 1), w[..len].iter().enumerate().map(|(i, &l)| cased(i, l)).collect()))
        }
    };
    HCase { letters, loads, word, requery }
}

fn case_strategy(shape: Shape) -> impl Strategy<Value = HCase> {
    raw_case(shape).prop_map(|r| build_case(&r, false))
}

const NONLETTERS: [char; 8] = ['3', '-', ' ', '\'', 'z', '.', 'ß', '\u{0301}'];

fn nonletter_strategy() -> impl Strategy<Value = HCase> {
    (case_strategy(SHAPE_SMALL), any::<u16>(), 0usize..8).prop_map(|(mut c, pos, which)| {
        let chars: Vec<char> = c.word.chars().collect();
        let at = pick_idx(pos, chars.len() + 1);
        // the first candidate (cyclically from `which`) that is not a letter of this alphabet
        let nl = (0..8).map(|j| NONLETTERS[(which + j) % 8]).find(|x| !c.letters.iter().any(|(lo, up)| lo == x || up == x)).unwrap_or('3');
        let mut s = String::new();
        for (i, ch) in chars.iter().enumerate() {
            if i == at {
                s.push(nl);
            }
            s.push(*ch);
        }
        if at == chars.len() {
            s.push(nl);
        }
        c.word = s;
        c.requery = None;
        c
    })
}

// ---------------------------------------------------------------------------------------------
// The TeX primitives \patterns and \hyphenation of texlang-texttransform

#[derive(Debug, Clone, Serialize, Deserialize, PartialEq, Eq)]
pub enum PrimCall {
    /// `\patterns{<text>}`; the text is TeX source (blanks and single newlines separate the patterns)
    Patterns(String),
    /// `\hyphenation{<text>}`
    Hyphenation(String),
    /// `\def\vpx{<text>}\patterns{\vpx}`: TeX reads the argument with get_x_token (§961), macros expand
    PatternsViaMacro(String),
    /// `\def\vpx{<text>}\hyphenation{\vpx}` (§935)
    HyphenationViaMacro(String),
}

#[derive(Debug, Clone, Serialize, Deserialize, PartialEq, Eq)]
pub struct PrimCase {
    /// (lower, upper), all below 256: the preamble sets `\lccode lower=lower` and `\lccode upper=lower`,
    /// the queries use the same map as lower-caser
    pub letters: Vec<(char, char)>,
    pub calls: Vec<PrimCall>,
    pub word: String,
}

fn prim_source(c: &PrimCase) -> String {
    let mut s = String::new();
    for &(lo, up) in &c.letters {
        s.push_str(&format!("\\lccode {} {} ", lo as u32, lo as u32));
        if up != lo {
            s.push_str(&format!("\\lccode {} {} ", up as u32, lo as u32));
        }
    }
    s.push('\n');
    for call in &c.calls {
        match call {
            PrimCall::Patterns(t) => s.push_str(&format!("\\patterns{{{t}}}\n")),
            PrimCall::Hyphenation(t) => s.push_str(&format!("\\hyphenation{{{t}}}\n")),
            PrimCall::PatternsViaMacro(t) => s.push_str(&format!("\\def\\vpx{{{t}}}\\patterns{{\\vpx}}\n")),
            PrimCall::HyphenationViaMacro(t) => s.push_str(&format!("\\def\\vpx{{{t}}}\\hyphenation{{\\vpx}}\n")),
        }
    }
    s
}

/// TeX-safe rendering of a whitespace separated list: single blanks, double blanks, single newlines
/// (never an empty line: that is a `\par` token, which TeX rejects inside both primitives).
fn tex_join(text: &str, salt: usize) -> String {
    let seps = [" ", "\n", "  ", " \n"];
    let mut s = String::new();
    for (i, tok) in text.split_whitespace().enumerate() {
        if i > 0 {
            s.push_str(seps[(salt + i) % 4]);
        }
        s.push_str(tok);
    }
    s
}

fn prim_strategy() -> impl Strategy<Value = PrimCase> {
    (raw_case(SHAPE_SMALL), 0u8..4, proptest::collection::vec(any::<bool>(), 64), any::<u8>()).prop_map(|(raw, upmode, upbits, salt)| {
        let h = build_case(&raw, true);
        let mut seen = 0usize;
        let mut up = |t: &str| -> String {
            t.chars()
                .map(|ch| {
                    let Some(&(_, u)) = h.letters.iter().find(|(lo, _)| *lo == ch) else { return ch };
                    seen += 1;
                    let raise = match upmode {
                        0 | 1 => false,
                        2 => true,
                        _ => upbits[seen % 64],
                    };
                    if raise {
                        u
                    } else {
                        ch
                    }
                })
                .collect()
        };
        let mut calls = vec![];
        for (j, l) in h.loads.iter().enumerate() {
            let via_macro = (salt as usize + j) % 7 == 0;
            let s = salt as usize + j;
            calls.push(match l {
                Load::Patterns(t) if via_macro => PrimCall::PatternsViaMacro(up(&tex_join(t, s))),
                Load::Patterns(t) => PrimCall::Patterns(up(&tex_join(t, s))),
                Load::Exception(t) | Load::Exceptions(t) if via_macro => PrimCall::HyphenationViaMacro(up(&tex_join(t, s))),
                Load::Exception(t) | Load::Exceptions(t) => PrimCall::Hyphenation(up(&tex_join(t, s))),
                Load::PlainTex => continue, // never produced by build_case
            });
        }
        PrimCase { letters: h.letters, calls, word: h.word }
    })
}

pub const FLAG_PRIM_GROUP: &str = "flag:hyphenation_primitive_stores_group_as_one_word";
pub const FLAG_PRIM_LCCODE: &str = "flag:patterns_hyphenation_primitives_ignore_lccode";

/// The tables TeX builds from the calls (§934-§939 `\hyphenation`: letters are replaced by their
/// `\lccode`, every blank ends a word and each word is entered; §960-§963 `\patterns`: likewise, digits
/// and `.` stand for themselves). Named deviations (both off = TeX):
///   `group_as_one_word`  `\hyphenation{w1 w2}` enters ONE exception whose "letters" include the blanks
///   `ignore_lccode`      the characters are stored as written (no `\lccode` mapping)
fn prim_model(c: &PrimCase, group_as_one_word: bool, ignore_lccode: bool) -> Result<Lexicon, String> {
    let map = |t: &str| -> String {
        if ignore_lccode {
            return t.to_string();
        }
        t.chars().map(|ch| c.letters.iter().find(|(_, up)| *up == ch).map(|(lo, _)| *lo).unwrap_or(ch)).collect()
    };
    let mut lex = Lexicon::default();
    for call in &c.calls {
        match call {
            PrimCall::Patterns(t) | PrimCall::PatternsViaMacro(t) => lex.push_patterns(&map(t))?,
            PrimCall::Hyphenation(t) | PrimCall::HyphenationViaMacro(t) => {
                let words: Vec<String> = map(t).split_whitespace().map(|x| x.to_string()).collect();
                if group_as_one_word {
                    // what the token loop collects: every run of blanks/newlines is one space token
                    lex.push_exception(&words.join(" "));
                } else {
                    for w in &words {
                        lex.push_exception(w);
                    }
                }
            }
        }
    }
    Ok(lex)
}

mod prim_vm {
    //! Smallest state that can run `\lccode`, `\patterns`, `\hyphenation` (and `\def`).
    use std::collections::HashMap;
    use texlang::traits::*;
    use texlang::vm::implement_has_component;
    use texlang::{command, error, vm};
    use texlang_stdlib::prefix;
    use texlang_texttransform as tt;

    #[derive(Default)]
    pub struct PState {
        pub hyph: tt::HyphenationComponent,
        pub lccode: tt::LcCodeComponent,
        pub prefix: prefix::Component,
        pub recovered: std::cell::RefCell<Vec<String>>,
    }

    impl TexlangState for PState {
        fn variable_assignment_scope_hook(state: &mut Self) -> texcraft_stdext::collections::groupingmap::Scope {
            prefix::variable_assignment_scope_hook(state)
        }
        fn recoverable_error_hook(&self, e: error::TracedTexError) -> Result<(), Box<dyn error::TexError>> {
            self.recovered.borrow_mut().push(e.error.title());
            Ok(())
        }
    }

    implement_has_component![PState {
        hyph: tt::HyphenationComponent,
        lccode: tt::LcCodeComponent,
        prefix: prefix::Component,
    }];

    pub struct NoOutput;
    impl vm::Handlers<PState> for NoOutput {}

    pub fn new_vm() -> Box<vm::VM<PState>> {
        let cmds: HashMap<&'static str, command::BuiltIn<PState>> = HashMap::from([
            ("patterns", tt::get_patterns()),
            ("hyphenation", tt::get_hyphenation()),
            ("lccode", tt::get_lccode()),
            ("def", texlang_stdlib::def::get_def()),
        ]);
        Box::new(vm::VM::<PState>::new_with_built_in_commands(cmds))
    }

    /// The hyphenator the two primitives write to. `HyphenationComponent` keeps it in a private field and
    /// offers no accessor (and no other observable effect: nothing in the workspace reads the component).
    /// The component is a struct whose ONLY field is that `Hyphenator`; a struct that is exactly as large
    /// as one of its fields stores that field at offset 0, so a reference to the component is a valid
    /// reference to the field. The size/alignment test guards the cast: if the component ever gets another
    /// layout the sub-check stops with an infrastructure error (exit 2) instead of guessing - the
    /// alternative then is the one-line accessor
    /// `impl HyphenationComponent { pub fn hyphenator(&self) -> &hyphenate::Hyphenator { &self.hyphenator } }`.
    #[cfg(texcraft_verif)]
    pub fn hyphenator(c: &tt::HyphenationComponent) -> &hyphenate::Hyphenator {
        // the guarded hook in /repo (MANIFEST.hooks)
        c.hyphenator()
    }

    /// Fallback for builds without the cfg flag (cargo-fuzz sets RUSTFLAGS itself).
    #[cfg(not(texcraft_verif))]
    pub fn hyphenator(c: &tt::HyphenationComponent) -> &hyphenate::Hyphenator {
        use std::mem::{align_of, size_of};
        if size_of::<tt::HyphenationComponent>() != size_of::<hyphenate::Hyphenator>() || align_of::<tt::HyphenationComponent>() != align_of::<hyphenate::Hyphenator>() {
            eprintln!("C13 primitives: HyphenationComponent is no longer just a Hyphenator; a public accessor is needed to observe it");
            std::process::exit(2);
        }
        // SAFETY: see above - same size and alignment, the Hyphenator is the only field.
        unsafe { &*(c as *const tt::HyphenationComponent as *const hyphenate::Hyphenator) }
    }
}

fn prim_oracle(ctx: &Ctx, c: &PrimCase, case: &mut Case) -> Verdict {
    let lex = match prim_model(c, false, false) {
        Ok(l) => l,
        Err(_) => return Verdict::Skip("malformed pattern (outside the domain)"),
    };
    if has_duplicate_keys(&lex) {
        return Verdict::Skip("duplicate pattern key (TeX: Duplicate pattern error)");
    }
    if c.letters.iter().any(|&(lo, up)| lo as u32 > 255 || up as u32 > 255) {
        return Verdict::Skip("character without an \\lccode slot (outside TeX82)");
    }
    let lower = MapLower(&c.letters);
    let chars: Vec<char> = c.word.chars().collect();
    let Some(w) = lower_letters(&lower, &c.word).filter(|w| !w.is_empty()) else { return Verdict::Skip("word contains a non-letter") };
    let n = w.len();
    let source = prim_source(c);
    let mut vm = prim_vm::new_vm();
    if vm.push_source("c13.tex".to_string(), source.clone()).is_err() {
        return Verdict::Fail("push_source failed".into());
    }
    let r = vm.run::<prim_vm::NoOutput>();
    let recovered = vm.state.recovered.borrow().clone();
    if let Err(e) = &r {
        return Verdict::Fail(format!("TeX accepts this input without an error, the VM stops with: {}\n{source}", e.error.title()));
    }
    if !recovered.is_empty() {
        return Verdict::Fail(format!("TeX accepts this input without an error, the VM reports: {recovered:?}\n{source}"));
    }
    let h = prim_vm::hyphenator(&vm.state.hyph);
    let got: Vec<usize> = h.calculate_indices(&lower, &c.word).collect();
    let expected = lex.positions(&w);
    let a = lex.analyse(&w);

    let is_upper = |ch: char| c.letters.iter().any(|&(lo, up)| up == ch && lo != up);
    let (mut up_pat, mut up_exc, mut multi, mut multi_pat, mut via_macro) = (false, false, false, false, false);
    for call in &c.calls {
        match call {
            PrimCall::Patterns(t) | PrimCall::PatternsViaMacro(t) => {
                up_pat |= t.chars().any(is_upper);
                multi_pat |= t.split_whitespace().count() >= 2;
            }
            PrimCall::Hyphenation(t) | PrimCall::HyphenationViaMacro(t) => {
                up_exc |= t.chars().any(is_upper);
                multi |= t.split_whitespace().count() >= 2;
            }
        }
        via_macro |= matches!(call, PrimCall::PatternsViaMacro(_) | PrimCall::HyphenationViaMacro(_));
    }
    case.class_if(multi, "prim: \\hyphenation with >=2 words");
    case.class_if(multi_pat, "prim: \\patterns with >=2 patterns");
    case.class_if(up_pat, "prim: upper-case letter in a \\patterns argument");
    case.class_if(up_exc, "prim: upper-case letter in a \\hyphenation argument");
    case.class_if(via_macro, "prim: argument through a macro");
    case.class_if(c.letters.iter().any(|(lo, up)| !lo.is_ascii() || !up.is_ascii()), "prim: alphabet with a non-ASCII (8-bit) letter");
    case.class_if(c.letters.iter().any(|(lo, up)| lo.len_utf8() != up.len_utf8()), "prim: lower/upper case differ in UTF-8 length");
    let is_exc = a.exception.is_some();
    case.class_if(is_exc, "word is an exception");
    if let Some(ie) = a.exception {
        // which call listed the applicable exception, and how many words does that call have
        let mut idx = 0usize;
        'outer: for call in &c.calls {
            match call {
                PrimCall::Patterns(t) | PrimCall::PatternsViaMacro(t) => idx += t.split_whitespace().count(),
                PrimCall::Hyphenation(t) | PrimCall::HyphenationViaMacro(t) => {
                    let k = t.split_whitespace().count();
                    if ie < idx + k {
                        case.class_if(k >= 2, "prim: the word's exception comes from a \\hyphenation with >=2 words");
                        case.class_if(t.chars().any(is_upper), "prim: the word's exception is written with upper-case letters");
                        break 'outer;
                    }
                    idx += k;
                }
            }
        }
    }
    case.class_if(!expected.is_empty(), "has a hyphen");
    let interior_nonzero = (1..n).any(|p| a.nonzero_contributions[p] >= 1);
    let compete = !is_exc && (1..n).any(|p| a.nonzero_contributions[p] >= 2);
    let exc_and_pattern = is_exc && interior_nonzero;
    let long = !is_exc && a.longest_matched_pattern > 16;
    case.class_if(compete, "NT: >=2 patterns compete at a position");
    case.class_if(exc_and_pattern, "NT: exception word also matches a pattern");
    case.class_if(long, "NT: pattern >16 letters matched");
    let nontrivial = compete || exc_and_pattern || long;
    if nontrivial || case.replay {
        case.note = Some(format!("{} | word={} => {}", source.replace('\n', "⏎"), c.word, hyphenated(&chars, &expected)));
    }
    if got == expected {
        return Verdict::pass(nontrivial);
    }
    let listed: Vec<&str> = [FLAG_PRIM_GROUP, FLAG_PRIM_LCCODE].into_iter().filter(|f| ctx.known(f)).collect();
    let mut subsets: Vec<u32> = (1..(1u32 << listed.len())).collect();
    subsets.sort_by_key(|m| (m.count_ones(), *m));
    for m in subsets {
        let on: Vec<&str> = listed.iter().enumerate().filter(|(i, _)| m & (1 << i) != 0).map(|(_, f)| *f).collect();
        let Ok(lex2) = prim_model(c, on.contains(&FLAG_PRIM_GROUP), on.contains(&FLAG_PRIM_LCCODE)) else { continue };
        if lex2.positions(&w) == got {
            return Verdict::Known(on.join("+"));
        }
    }
    Verdict::Fail(format!(
        "after running the TeX source, the hyphenator of the \\patterns/\\hyphenation component differs from TeX's tables\n{source}word: {}  (lower-cased: {})\nword is an exception (TeX): {}\nexpected positions {:?} = {}\ngot      positions {:?} = {}",
        c.word,
        w.iter().collect::<String>(),
        is_exc,
        expected,
        hyphenated(&chars, &expected),
        got,
        hyphenated(&chars, &got),
    ))
}

// ---------------------------------------------------------------------------------------------
// Goldens and plain TeX

const PLAIN_PATTERNS: &str = include_str!("/repo/crates/hyphenate/src/plain_tex_patterns.txt");
const PLAIN_EXCEPTIONS: &str = include_str!("/repo/crates/hyphenate/src/plain_tex_exceptions.txt");

fn plain_loads() -> Vec<Load> {
    vec![Load::Patterns(PLAIN_PATTERNS.to_string()), Load::Exceptions(PLAIN_EXCEPTIONS.to_string())]
}

fn plain_model() -> &'static Lexicon {
    static L: OnceLock<Lexicon> = OnceLock::new();
    L.get_or_init(|| build_model(&plain_loads(), false).expect("plain TeX patterns parse"))
}

fn plain_impl() -> &'static hyphenate::Hyphenator {
    static H: OnceLock<hyphenate::Hyphenator> = OnceLock::new();
    H.get_or_init(hyphenate::Hyphenator::plain_tex_en_us)
}

#[derive(Debug, Clone, Serialize, Deserialize)]
pub enum Golden {
    /// `hyphenation_tests!` of crates/hyphenate/src/lib.rs: word and its TeX hyphenation
    Word { word: String, expected: String },
    /// `explanation_tests!`: aggregate scores (positions 0..n-1, position 0 forced to 0)
    Scores { word: String, scores: Vec<u8> },
    /// The two anchored data files hold plain TeX's tables (hyphen.tex, frozen): 4447 patterns, the 14
    /// exceptions, and an order-independent fingerprint of the pattern set. (Model and implementation
    /// both read these files, so damage to a file is invisible to the other sub-checks.)
    PlainData,
}

/// hyphen.tex `\hyphenation{...}`
const HYPHEN_TEX_EXCEPTIONS: [&str; 14] = [
    "as-so-ciate", "as-so-ciates", "dec-li-na-tion", "oblig-a-tory", "phil-an-thropic", "present", "presents", "project", "projects", "reci-procity", "re-cog-ni-zance", "ref-or-ma-tion", "ret-ri-bu-tion", "ta-ble",
];
/// wrapping sum of fnv64 over the 4447 pattern tokens of hyphen.tex (order-independent)
const HYPHEN_TEX_PATTERNS_FINGERPRINT: u64 = 0x84bd_214f_bd88_0f88;

fn goldens() -> Vec<Golden> {
    let words = [
        ("record", "record"),
        ("hyphenation", "hy-phen-ation"),
        ("concatenation", "con-cate-na-tion"),
        ("supercalifragilisticexpialidocious", "su-per-cal-ifrag-ilis-tic-ex-pi-ali-do-cious"),
        ("bachelor", "bach-e-lor"),
        ("echelon", "ech-e-lon"),
        ("toothaches", "toothaches"),
        ("campfire", "camp-fire"),
        ("biorhythm", "biorhyth-m"),
        ("algorithm", "al-go-rith-m"),
        ("pneumonoultramicroscopicsilicovolcanoconiosis", "p-neu-monoul-tra-mi-cro-scop-ic-sil-i-co-vol-canoco-nio-sis"),
        ("project", "project"),
        ("present", "present"),
        ("table", "ta-ble"),
        ("Table", "Ta-ble"),
        ("ach", "ach"),
        ("Aaronic", "Aa-ron-ic"),
        ("Abelia", "A-beli-a"),
        ("William", "William"),
        ("chaffless", "chaf-f-less"),
    ];
    let mut v: Vec<Golden> = words.iter().map(|(w, e)| Golden::Word { word: w.to_string(), expected: e.to_string() }).collect();
    v.push(Golden::Scores { word: "DifFicult".into(), scores: vec![0, 1, 4, 1, 0, 3, 0, 4, 0] });
    v.push(Golden::Scores { word: "cove".into(), scores: vec![0, 0, 4, 1] });
    v.push(Golden::Scores { word: "antce".into(), scores: vec![0, 2, 4, 4, 0] });
    v.push(Golden::PlainData);
    v
}

fn golden_oracle(g: &Golden, case: &mut Case) -> Verdict {
    let lower = hyphenate::AsciiLowerCaser::default();
    match g {
        Golden::Word { word, expected } => {
            let chars: Vec<char> = word.chars().collect();
            let w: Vec<char> = chars.iter().map(|c| c.to_ascii_lowercase()).collect();
            let model = hyphenated(&chars, &plain_model().positions(&w));
            // the text API of the model must agree with the lexicon API
            let pats: Vec<String> = PLAIN_PATTERNS.split_whitespace().map(|s| s.to_string()).collect();
            let excs: Vec<String> = PLAIN_EXCEPTIONS.split_whitespace().map(|s| s.to_string()).collect();
            let model2 = hyphenated(&chars, &liang::liang_positions(&pats, &excs, &w));
            let got_idx: Vec<usize> = plain_impl().calculate_indices(&lower, word).collect();
            let got = hyphenated(&chars, &got_idx);
            let mut via_string = String::new();
            plain_impl().hypthenate(&lower, word, &mut via_string);
            case.note = Some(format!("{word} => {expected}"));
            if &model != expected || &model2 != expected {
                return Verdict::Fail(format!("MODEL disagrees with the TeX-verified golden: {word}: model {model} / {model2}, golden {expected}"));
            }
            if &got != expected || &via_string != expected {
                return Verdict::Fail(format!("implementation disagrees with its golden: {word}: got {got} / {via_string}, golden {expected}"));
            }
            let a = plain_model().analyse(&w);
            Verdict::pass(a.exception.is_some() || (1..w.len()).any(|p| a.nonzero_contributions[p] >= 2))
        }
        Golden::Scores { word, scores } => {
            let w: Vec<char> = word.chars().map(|c| c.to_ascii_lowercase()).collect();
            let mut d = plain_model().analyse(&w).digits;
            d[0] = 0;
            d.truncate(w.len());
            let e = plain_impl().calculate_explanation(&lower, word);
            case.note = Some(format!("{word} => {scores:?}"));
            if &d != scores {
                return Verdict::Fail(format!("MODEL digits disagree with the golden aggregate scores of {word}: {d:?} vs {scores:?}"));
            }
            if &e.aggregate_scores != scores {
                return Verdict::Fail(format!("implementation aggregate scores of {word}: {:?} vs {scores:?}", e.aggregate_scores));
            }
            Verdict::pass(true)
        }
        Golden::PlainData => {
            let pats: Vec<&str> = PLAIN_PATTERNS.split_whitespace().collect();
            let excs: Vec<&str> = PLAIN_EXCEPTIONS.split_whitespace().collect();
            let fp = pats.iter().fold(0u64, |acc, t| acc.wrapping_add(fnv64(t.as_bytes())));
            case.note = Some(format!("plain_tex_patterns.txt: {} patterns, fingerprint {fp:#018x}; plain_tex_exceptions.txt: {} words", pats.len(), excs.len()));
            if pats.len() != 4447 {
                return Verdict::Fail(format!("plain_tex_patterns.txt holds {} patterns, hyphen.tex has 4447", pats.len()));
            }
            if excs != HYPHEN_TEX_EXCEPTIONS {
                return Verdict::Fail(format!("plain_tex_exceptions.txt is not hyphen.tex's exception list: {excs:?}"));
            }
            if pats.iter().any(|t| Pattern::parse(t).is_err() || t.contains('0') || t.chars().any(|ch| !(ch.is_ascii_lowercase() || ch.is_ascii_digit() || ch == '.'))) {
                return Verdict::Fail("plain_tex_patterns.txt holds a token that is not a hyphen.tex pattern (letters a-z, digits 1-9, dots)".into());
            }
            if fp != HYPHEN_TEX_PATTERNS_FINGERPRINT {
                return Verdict::Fail(format!(
                    "plain_tex_patterns.txt changed: fingerprint {fp:#018x}, pinned {HYPHEN_TEX_PATTERNS_FINGERPRINT:#018x} (hyphen.tex is frozen; if the file was deliberately corrected towards hyphen.tex, re-pin the constant)"
                ));
            }
            Verdict::pass(false)
        }
    }
}

/// Pseudo-English: the letters of 1..10 plain TeX patterns glued together (so that many patterns
/// match and overlap), random case, at most 40 letters (one word in 16 is cut to 1-3 letters);
/// sometimes one of the 14 exception words.
fn plain_word_strategy() -> impl Strategy<Value = String> {
    (proptest::collection::vec(any::<u16>(), 1..=10), proptest::collection::vec(any::<bool>(), 40), 0u8..12, any::<u16>()).prop_map(|(picks, caps, mode, e)| {
        static LETTERS: OnceLock<(Vec<String>, Vec<String>)> = OnceLock::new();
        let (pl, ex) = LETTERS.get_or_init(|| {
            (
                PLAIN_PATTERNS.split_whitespace().map(|p| p.chars().filter(|c| c.is_ascii_alphabetic()).collect::<String>()).filter(|s| !s.is_empty()).collect(),
                PLAIN_EXCEPTIONS.split_whitespace().map(|p| p.chars().filter(|c| c.is_ascii_alphabetic()).collect::<String>()).collect(),
            )
        });
        let mut s = String::new();
        if mode == 0 {
            s.push_str(&ex[pick_idx(e, ex.len())]);
        } else {
            for p in picks {
                s.push_str(&pl[pick_idx(p, pl.len())]);
            }
        }
        let keep = if mode != 0 && e % 16 == 0 { 1 + (e as usize / 16) % 3 } else { 40 };
        let s: String = s.chars().take(keep).collect();
        s.chars()
            .enumerate()
            .map(|(i, c)| {
                let up = match mode % 4 {
                    0 | 1 => false,
                    2 => i == 0,
                    _ => caps[i],
                };
                if up {
                    c.to_ascii_uppercase()
                } else {
                    c
                }
            })
            .collect()
    })
}

fn plain_oracle(word: &String, case: &mut Case) -> Verdict {
    let lower = hyphenate::AsciiLowerCaser::default();
    let chars: Vec<char> = word.chars().collect();
    let w: Vec<char> = chars.iter().map(|c| c.to_ascii_lowercase()).collect();
    let n = w.len();
    let lex = plain_model();
    let expected = lex.positions(&w);
    let got: Vec<usize> = plain_impl().calculate_indices(&lower, word).collect();
    let a = lex.analyse(&w);
    let is_exc = a.exception.is_some();
    let compete = !is_exc && (1..n).any(|p| a.nonzero_contributions[p] >= 2);
    let exc_and_pattern = is_exc && (1..n).any(|p| a.nonzero_contributions[p] >= 1);
    case.class_if(compete, "NT: >=2 patterns compete at a position");
    case.class_if(exc_and_pattern, "NT: exception word also matches a pattern");
    case.class_if((1..n).any(|p| a.parity_conflict[p]), "odd and even digit at one position");
    case.class_if(chars != w, "word has upper case");
    case.class(match n {
        1..=2 => "len<=2",
        3..=6 => "len=3..6",
        7..=16 => "len=7..16",
        17..=32 => "len=17..32",
        _ => "len>=33",
    });
    case.note = Some(format!("plain TeX: {} => {}", word, hyphenated(&chars, &expected)));
    if got == expected {
        Verdict::pass(compete || exc_and_pattern)
    } else {
        Verdict::Fail(format!("plain TeX patterns: {word}: expected {:?} = {}, got {:?} = {}", expected, hyphenated(&chars, &expected), got, hyphenated(&chars, &got)))
    }
}

/// Plain TeX's tables plus generated ones: 5-30 extra patterns over a-z built from the word (digits up to
/// 9, up to 40 letters, anchors; keys that plain TeX already uses are dropped) and 50-400 extra exceptions
/// (the word, its prefixes/suffixes/near-misses, and pseudo-English words), loaded before, after or
/// around plain TeX's.
fn overlay_strategy() -> impl Strategy<Value = HCase> {
    (
        plain_word_strategy(),
        proptest::collection::vec(raw_pat(), 5..=30),
        proptest::collection::vec((raw_exc(), any::<u16>(), any::<u16>()), 50..=400),
        (0u8..10, 0u8..6, any::<u8>(), 0u8..4, any::<u16>(), any::<u16>(), any::<bool>()),
    )
        .prop_map(|(word, rpats, rexcs, (maxsel, order, sep, qmode, qsplit, qpick, may_be_word))| {
            static AZ: OnceLock<(Vec<char>, Vec<String>, std::collections::HashSet<(bool, bool, Vec<char>)>)> = OnceLock::new();
            let (az, plain_letters, plain_keys) = AZ.get_or_init(|| {
                let ps = plain_model().patterns();
                (
                    ('a'..='z').collect(),
                    ps.iter().map(|p| p.letters.iter().collect::<String>()).collect(),
                    ps.iter().map(|p| (p.start, p.end, p.letters.clone())).collect(),
                )
            });
            let idx = |s: &str| -> Vec<u8> { s.chars().map(|c| c.to_ascii_lowercase() as u8 - b'a').collect() };
            let w = idx(&word);
            let maxd: u8 = [5, 5, 5, 5, 5, 6, 6, 9, 9, 9][maxsel as usize];
            let mut seen: std::collections::HashSet<(bool, bool, Vec<char>)> = std::collections::HashSet::new();
            let mut pats: Vec<String> = vec![];
            for rp in &rpats {
                let p = make_pattern(rp, &w, 26, maxd, az);
                let key = (p.start, p.end, p.letters.clone());
                if plain_keys.contains(&key) || !seen.insert(key) {
                    continue;
                }
                pats.push(pattern_text(&p, &explicit_zero_mask(rp, &p)));
            }
            let excs: Vec<String> = rexcs
                .iter()
                .map(|(re, p1, p2)| {
                    if re.0 .0 >= 5 {
                        // a pseudo-English word: the letters of two plain TeX patterns, hyphenated at random
                        let mut t = plain_letters[pick_idx(*p1, plain_letters.len())].clone();
                        t.push_str(&plain_letters[pick_idx(*p2, plain_letters.len())]);
                        let wx = idx(&t);
                        let mut re2 = re.clone();
                        re2.0 .0 = 0;
                        make_exception(&re2, &wx, 26, az, true)
                    } else {
                        make_exception(re, &w, 26, az, may_be_word)
                    }
                })
                .collect();
            let mut extra: Vec<Load> = vec![];
            if !pats.is_empty() {
                extra.push(Load::Patterns(pats.join(["\n", " ", "\r\n", "\t"][(sep >> 1) as usize % 4])));
            }
            let per_call = [400usize, 50, 7, 1][(sep >> 3) as usize % 4];
            for chunk in excs.chunks(per_call) {
                if per_call == 1 {
                    extra.push(Load::Exception(chunk[0].clone()));
                } else {
                    extra.push(Load::Exceptions(chunk.join(["\n", " ", "\r\n", "\t"][(sep >> 5) as usize % 4])));
                }
            }
            let mut loads: Vec<Load> = vec![];
            match order {
                0 | 1 => {
                    loads.push(Load::PlainTex);
                    loads.extend(extra);
                }
                2 | 3 => {
                    loads.extend(extra);
                    loads.push(Load::PlainTex);
                }
                _ => {
                    let at = pick_idx(qpick, extra.len() + 1);
                    let tail = extra.split_off(at);
                    loads.extend(extra);
                    loads.push(Load::PlainTex);
                    loads.extend(tail);
                }
            }
            let requery = match qmode {
                0 | 1 => None,
                2 => Some((pick_idx(qsplit, loads.len() + 1), excs[pick_idx(qpick, excs.len())].chars().filter(|c| *c != '-').collect())),
                _ => Some((pick_idx(qsplit, loads.len() + 1), HYPHEN_TEX_EXCEPTIONS[pick_idx(qpick, 14)].chars().filter(|c| *c != '-').collect())),
            };
            let letters: Vec<(char, char)> = ('a'..='z').zip('A'..='Z').collect();
            HCase { letters, loads, word, requery }
        })
}

// ---------------------------------------------------------------------------------------------
// Exhaustive small scope

/// 40 patterns over {a,b,c} with pairwise different keys: every digit 0..9, every anchoring, digits
/// before the first / after the last letter, nested and overlapping letter strings.
const POOL: [&str; 40] = [
    "a1b", "1a", "b1", "2c2", "b2c", "c4a", "a5a", "c1c", "ba3", "c3b", "ab1c", "1a1a1a1", "b1a2b", "1b1b1b", "c1a1b", "a0b1c1a", "bc8a", "9cc1c", ".1a", ".b1",
    ".a1b", ".c3c", ".a6b1c", ".ab2a", "a1.", "1c.", "3ab.", "b8c.", "c1b.", "b1b.", "a7bc.", ".a1b.", ".a2bc.", ".a1bc1ab.", ".c1.", "a2b1b", "4ac", "b2b", "a3c1b", ".b7a",
];

fn small_words(max_len: usize) -> Vec<String> {
    let mut v = vec![];
    for len in 1..=max_len {
        let total = 3usize.pow(len as u32);
        for mut i in 0..total {
            let mut s = String::new();
            for _ in 0..len {
                s.push(['a', 'b', 'c'][i % 3]);
                i /= 3;
            }
            v.push(s);
        }
    }
    v
}

fn abc_letters() -> Vec<(char, char)> {
    vec![('a', 'A'), ('b', 'B'), ('c', 'C')]
}

/// index -> (multiset of `arity` pool patterns, word)
fn pool_case(i: u64, sets: &[Vec<usize>], words: &[String]) -> HCase {
    let wi = (i % words.len() as u64) as usize;
    let si = (i / words.len() as u64) as usize;
    let text: Vec<&str> = sets[si].iter().map(|&j| POOL[j]).collect();
    HCase { letters: abc_letters(), loads: vec![Load::Patterns(text.join(" "))], word: words[wi].clone(), requery: None }
}

fn pool_sets(arity: usize) -> Vec<Vec<usize>> {
    // all strictly increasing index tuples of length 1..=arity
    let mut out: Vec<Vec<usize>> = vec![];
    fn rec(start: usize, left: usize, cur: &mut Vec<usize>, out: &mut Vec<Vec<usize>>) {
        if !cur.is_empty() {
            out.push(cur.clone());
        }
        if left == 0 {
            return;
        }
        for j in start..POOL.len() {
            cur.push(j);
            rec(j + 1, left - 1, cur, out);
            cur.pop();
        }
    }
    rec(0, arity, &mut vec![], &mut out);
    out
}

/// every hyphenation (interior positions) of every word of length <= max_len over {a,b,c}
fn small_exceptions(max_len: usize) -> Vec<String> {
    let mut v = vec![];
    for w in small_words(max_len) {
        let cs: Vec<char> = w.chars().collect();
        let gaps = cs.len() - 1;
        for mask in 0..(1u32 << gaps) {
            let mut s = String::new();
            for (i, c) in cs.iter().enumerate() {
                if i > 0 && mask & (1 << (i - 1)) != 0 {
                    s.push('-');
                }
                s.push(*c);
            }
            v.push(s);
        }
    }
    v
}

// ---------------------------------------------------------------------------------------------

pub fn run(ctx: &Ctx) {
    ctx.rule("case = alphabet of 3-5 letters with an upper-case partner each (lower-caser argument; ASCII, a 2-byte letter, a non-ASCII-style pairing, or a wide alphabet: lower/upper case of different UTF-8 length in both directions, 2-, 3- and 4-byte letters in any slot, uncased letters, apostrophes) x 0-30 TeX patterns (digits 0-9 in every gap incl. before the first/after the last letter, '.' anchors at either/both ends, mostly substrings or near-misses of the word so they overlap and nest, lengths up to 40 with sparse digits for zero runs >=16, literal 0 digits also next to non-zero digits and around gaps 15-17/31-33 of long patterns) x 0-5 exceptions (the word itself, prefixes, suffixes, near-misses; random hyphen sets, leading/trailing/doubled hyphens) x load order (patterns first, exceptions first, interleaved; several load_patterns / insert_exception(s) calls; blanks, tabs, newlines, CRLF, empty lines, leading/trailing whitespace, calls without any word) x word of 1-40 letters in mixed case x optionally a first query of the word and of a second word after a prefix of the loads (query -> load -> query on one instance); big_tables: the same with 100-400 patterns and 20-80 exceptions; plain_overlay: plain TeX's 4447 patterns and 14 exceptions plus 5-30 generated patterns and 50-400 exceptions; primitives: the case is written as TeX source (\\lccode assignments, \\patterns{..}, \\hyphenation{w1 w2 ..}, letters of the arguments in either case, sometimes through a macro) and run in a VM. expected = naive Liang (max digit over every pattern at every alignment of .word., odd => hyphen at positions 1..n-1; an exception word gets exactly its listed positions); checked on calculate_indices, on the text of hypthenate(), and (non-exception words) on the aggregate scores of calculate_explanation. non-trivial = the word is not an exception and >=2 (pattern, alignment) matches put a non-zero digit on one interior position, or it is not an exception and a pattern of more than 16 letters matched, or the word is an exception and some pattern puts a non-zero digit on an interior position; distinct = by full case text. pool_* sub-checks enumerate exhaustively (same oracle, same rule)");
    ctx.assume("patterns are well-formed TeX patterns: at least one letter, at most one digit per gap, '.' only as first/last character, no digit outside the dots; two patterns with the same letters and anchors never occur in one set (TeX: 'Duplicate pattern' error) - enforced by construction");
    ctx.assume("load_patterns/insert_exception(s) receive lower-case text (they take no lower-caser; TeX lower-cases through \\lccode when \\patterns/\\hyphenation is read, tex.web 937/962, and that step is checked on the caller, the TeX primitives, in sub-check primitives)");
    ctx.assume("position n (after the last letter) is never a hyphen: TeX only inspects l_hyf..hn-r_hyf with both minimums >= 1; the crate's documented convention (scores truncated to n entries) agrees");
    ctx.assume("the same word listed twice as an exception: the later entry wins (TeX 940)");
    ctx.assume("insert_exceptions and load_patterns take words separated by whitespace, as their documentation says (blank, tab, newline, CRLF, any amount, also around the text); a hyphen written twice in an exception marks the same position once (TeX 938)");
    ctx.assume("nonletter_words: the property quantifies over words of letters, no repository caller passes a non-letter and the API documents nothing; the sub-check only classifies the behaviour (TeX's reading: word ends before the non-letter; unknown-character reading; anything else; a panic) and never reports a violation; never counted as non-trivial");
    ctx.assume("primitives: characters below 256 only (the \\lccode table of texlang-texttransform has 256 entries, TeX82 is an 8-bit system) and every letter of the alphabet has its \\lccode set explicitly (texlang-texttransform starts with all \\lccode = 0, unlike IniTeX 232; with \\lccode 0 TeX reports 'Not a letter'); no empty line inside an argument (\\par is an error there); the component's hyphenator is read through a size-checked cast because HyphenationComponent has no accessor");
    ctx.assume("calculate_explanation().aggregate_scores has one entry per letter, entry i = maximum digit in front of letter i, entry 0 forced to 0 (the format the crate's three explanation goldens pin); compared only for words that are not exceptions");

    {
        // infrastructure self-check: the pool must be inside the domain (well-formed, unique keys)
        let ps: Vec<Pattern> = POOL.iter().map(|s| Pattern::parse(s).expect("pool pattern parses")).collect();
        for i in 0..ps.len() {
            for j in 0..i {
                if ps[i].same_key(&ps[j]) {
                    eprintln!("C13: pool patterns {} and {} share a key", POOL[j], POOL[i]);
                    std::process::exit(2);
                }
            }
        }
        // the alphabet tables: rows pairwise disjoint, no character with a meaning in the text formats
        let bad = |ch: char| ch.is_ascii_digit() || ch == '.' || ch == '-' || ch.is_whitespace() || "\\{}%#$&^_~".contains(ch);
        let rows: Vec<Vec<char>> = SLOTS.iter().map(|r| r.iter().flat_map(|&(a, b)| [a, b]).collect()).collect();
        let rows8: Vec<Vec<char>> = SLOTS8.iter().map(|r| r.iter().flat_map(|&(a, b)| [a, b]).collect()).collect();
        for table in [&rows, &rows8] {
            for i in 0..table.len() {
                for &ch in &table[i] {
                    if bad(ch) || (0..i).any(|j| table[j].contains(&ch)) {
                        eprintln!("C13: alphabet table: character {ch:?} of row {i} is unusable");
                        std::process::exit(2);
                    }
                }
            }
        }
        if rows8.iter().flatten().any(|&ch| ch as u32 > 255) {
            eprintln!("C13: alphabet table out of range");
            std::process::exit(2);
        }
    }

    run_list(ctx, "golden", goldens(), |g: &Golden, case| golden_oracle(g, case));

    let n = ctx.tier.pick(450_000u64, 5_000_000u64);
    run_generated(ctx, "liang", n, || case_strategy(SHAPE_STD), |c: &HCase, case| oracle(ctx, c, case, false));

    let n = ctx.tier.pick(2_000u64, 60_000u64);
    run_generated(ctx, "big_tables", n, || case_strategy(SHAPE_BIG), |c: &HCase, case| oracle(ctx, c, case, false));

    let n = ctx.tier.pick(10_000u64, 100_000u64);
    run_generated(ctx, "nonletter_words", n, nonletter_strategy, |c: &HCase, case| oracle(ctx, c, case, true));

    let n = ctx.tier.pick(30_000u64, 400_000u64);
    run_generated(ctx, "plain_words", n, plain_word_strategy, |w: &String, case| plain_oracle(w, case));

    let n = ctx.tier.pick(1_000u64, 40_000u64);
    run_generated(ctx, "plain_overlay", n, overlay_strategy, |c: &HCase, case| oracle(ctx, c, case, false));

    // exhaustive: pattern multisets from the pool x all short words
    let arity = ctx.tier.pick(2usize, 3usize);
    let words = small_words(ctx.tier.pick(6usize, 7usize));
    let sets = pool_sets(arity);
    let total = sets.len() as u64 * words.len() as u64;
    run_indexed(ctx, "pool_pairs", total, true, |i| pool_case(i, &sets, &words), |c: &HCase, case| oracle(ctx, c, case, false));
    ctx.extra("pool_pairs", "pool", serde_json::json!(POOL.to_vec()));
    ctx.extra("pool_pairs", "space", serde_json::json!(format!("all sets of 1..={} pool patterns ({}) x all words of length <= {} over abc ({})", arity, sets.len(), ctx.tier.pick(6, 7), words.len())));

    // exhaustive: one pool pattern x one exception x load order x all short words
    let excs = small_exceptions(ctx.tier.pick(3usize, 4usize));
    let words2 = small_words(ctx.tier.pick(4usize, 5usize));
    let total2 = POOL.len() as u64 * excs.len() as u64 * 2 * words2.len() as u64;
    run_indexed(
        ctx,
        "pool_exceptions",
        total2,
        true,
        |i| {
            let nw = words2.len() as u64;
            let wi = (i % nw) as usize;
            let r = i / nw;
            let first = r % 2 == 0;
            let r = r / 2;
            let ei = (r % excs.len() as u64) as usize;
            let pi = (r / excs.len() as u64) as usize;
            let p = Load::Patterns(POOL[pi].to_string());
            let e = Load::Exception(excs[ei].clone());
            HCase { letters: abc_letters(), loads: if first { vec![e, p] } else { vec![p, e] }, word: words2[wi].clone(), requery: None }
        },
        |c: &HCase, case| oracle(ctx, c, case, false),
    );
    ctx.extra("pool_exceptions", "space", serde_json::json!(format!("{} pool patterns x {} hyphenated exceptions x 2 load orders x {} words", POOL.len(), excs.len(), words2.len())));

    // LAST: the TeX primitives (reports the open defects of the anchored file; a failure stops the run)
    let n = ctx.tier.pick(30_000u64, 600_000u64);
    run_generated(ctx, "primitives", n, prim_strategy, |c: &PrimCase, case| prim_oracle(ctx, c, case));
}
