//! C19 \input, \endinput and \read treat files as lines standing in place.

use crate::engine::*;
use crate::texvm::{self, OutTok, VmOptions};
use proptest::prelude::*;
use serde::{Deserialize, Serialize};
use std::collections::{BTreeMap, VecDeque};

// ------------------------------------------------------------------------------------
// A small TeX line scanner for the restricted character set used here (plain TeX codes):
// letters, space, { }, %, \ followed by letters or one other character.

#[derive(Clone, Debug, PartialEq, Eq)]
pub enum Tok {
    L(char),
    Sp,
    Open,
    Close,
    Other(char),
    Cs(String),
}

/// Lines of a file: split at '\n'; a final piece without newline is a line; nothing after the
/// final newline.
pub fn split_lines(src: &str) -> Vec<String> {
    let mut v: Vec<String> = src.split('\n').map(|s| s.to_string()).collect();
    if v.last().map(|s| s.is_empty()).unwrap_or(false) {
        v.pop();
    }
    v
}

/// Tokens of one line (trailing blanks removed, end-line character CR appended).
pub fn lex_line(line: &str) -> Vec<Tok> {
    #[derive(PartialEq)]
    enum St {
        N,
        M,
        S,
    }
    let trimmed = line.trim_end_matches(' ');
    let chars: Vec<char> = trimmed.chars().collect();
    let mut out = vec![];
    let mut st = St::N;
    let mut i = 0;
    loop {
        if i >= chars.len() {
            // the end-line character (category 5)
            match st {
                St::N => out.push(Tok::Cs("par".into())),
                St::M => out.push(Tok::Sp),
                St::S => {}
            }
            return out;
        }
        let c = chars[i];
        i += 1;
        match c {
            ' ' => {
                if st == St::M {
                    out.push(Tok::Sp);
                    st = St::S;
                }
            }
            '%' => return out,
            '{' => {
                out.push(Tok::Open);
                st = St::M;
            }
            '}' => {
                out.push(Tok::Close);
                st = St::M;
            }
            '\\' => {
                if i >= chars.len() {
                    // `\` directly before the end-line character: control symbol \^^M
                    out.push(Tok::Cs("\r".into()));
                    return out;
                }
                let d = chars[i];
                if d.is_ascii_alphabetic() {
                    let mut name = String::new();
                    while i < chars.len() && chars[i].is_ascii_alphabetic() {
                        name.push(chars[i]);
                        i += 1;
                    }
                    out.push(Tok::Cs(name));
                    st = St::S;
                } else {
                    i += 1;
                    out.push(Tok::Cs(d.to_string()));
                    st = if d == ' ' { St::S } else { St::M };
                }
            }
            c if c.is_ascii_alphabetic() => {
                out.push(Tok::L(c));
                st = St::M;
            }
            c => {
                out.push(Tok::Other(c));
                st = St::M;
            }
        }
    }
}

// ------------------------------------------------------------------------------------
// \input / \endinput

#[derive(Clone, Debug, Serialize, Deserialize)]
pub enum Piece {
    Tag(u8),
    Space,
    Open,
    Close,
    IfTrue,
    IfFalse,
    Else,
    Fi,
    Comment,
    Input(u8),
    EndInput,
    /// `\\ld name ` where `\\def\\ld#1 {<\\input #1 >}`: an \\input issued from a macro expansion, with a
    /// token of the expansion pending behind it
    Ld(u8),
}

#[derive(Clone, Debug, Serialize, Deserialize)]
pub struct FileSpec {
    pub lines: Vec<Vec<Piece>>,
    pub final_newline: bool,
}

#[derive(Clone, Debug, Serialize, Deserialize)]
pub struct TreeCase {
    /// files[0] is the main source; file i may only \input files with larger index (acyclic)
    pub files: Vec<FileSpec>,
}

fn file_name(i: usize) -> String {
    format!("f{}", (b'a' + (i % 26) as u8) as char)
}

fn render_file(spec: &FileSpec, idx: usize, nfiles: usize) -> String {
    let mut s = String::new();
    for (li, line) in spec.lines.iter().enumerate() {
        let mut had_endinput = false;
        for p in line {
            match p {
                Piece::Tag(t) => s.push((b'A' + (t % 15)) as char),
                Piece::Space => s.push(' '),
                Piece::Open => s.push('{'),
                Piece::Close => s.push('}'),
                Piece::IfTrue => s.push_str("\\iftrue "),
                Piece::IfFalse => s.push_str("\\iffalse "),
                Piece::Else => s.push_str("\\else "),
                Piece::Fi => s.push_str("\\fi "),
                Piece::Comment => s.push('%'),
                Piece::Input(j) => {
                    // only files with a larger index; never after \endinput on the same line
                    // (TeX's global force_eof would close the nested file after its first line)
                    let remaining = nfiles.saturating_sub(idx + 1);
                    if remaining > 0 && !had_endinput {
                        let target = idx + 1 + (*j as usize % remaining);
                        s.push_str(&format!("\\input {} ", file_name(target)));
                    }
                }
                Piece::EndInput => {
                    s.push_str("\\endinput ");
                    had_endinput = true;
                }
                Piece::Ld(j) => {
                    let remaining = nfiles.saturating_sub(idx + 1);
                    if remaining > 0 && !had_endinput {
                        let target = idx + 1 + (*j as usize % remaining);
                        s.push_str(&format!("\\ld {} ", file_name(target)));
                    }
                }
            }
        }
        if li + 1 < spec.lines.len() || spec.final_newline {
            s.push('\n');
        }
    }
    s
}

#[derive(Clone, Copy, Default)]
pub struct InputDev {
    /// \endinput discards the rest of its own line (D25)
    pub endinput_discards_rest_of_line: bool,
}

#[derive(Debug)]
pub enum ModelEnd {
    Ok(String),
    /// TeX itself reports an error on this input (outside the property)
    TexError(&'static str),
}

struct Src {
    lines: Vec<String>,
    next_line: usize,
    toks: VecDeque<Tok>,
    force_eof: bool,
    in_line: bool,
}

pub struct InputModelStats {
    pub max_depth: usize,
    pub text_after_input: bool,
    pub text_after_endinput: bool,
    pub endinputs: usize,
    pub inputs: usize,
    pub macro_inputs: usize,
}

/// Interpret the file tree with TeX's semantics.
pub fn run_input_model(files: &BTreeMap<String, String>, main: &str, dev: InputDev, max_sources: usize) -> (ModelEnd, InputModelStats) {
    let mut stats = InputModelStats { max_depth: 0, text_after_input: false, text_after_endinput: false, endinputs: 0, inputs: 0, macro_inputs: 0 };
    let mut stack: Vec<Src> = vec![Src { lines: split_lines(main), next_line: 0, toks: VecDeque::new(), force_eof: false, in_line: false }];
    let mut out = String::new();
    let mut group_depth: i64 = 0;
    // open conditionals: true = currently in the branch before \else
    let mut conds: Vec<bool> = vec![];
    let mut steps = 0u64;

    // Fetch the next token; `skipping` changes what the end of a file means.
    // Returns None at the end of all input.
    fn next_tok(stack: &mut Vec<Src>, skipping: bool) -> Result<Option<Tok>, &'static str> {
        loop {
            let Some(top) = stack.last_mut() else { return Ok(None) };
            if let Some(t) = top.toks.pop_front() {
                return Ok(Some(t));
            }
            // the current line is exhausted
            if top.in_line && top.force_eof {
                if skipping {
                    return Err("file ended while skipping conditional text");
                }
                stack.pop();
                continue;
            }
            if top.next_line < top.lines.len() {
                let l = top.lines[top.next_line].clone();
                top.next_line += 1;
                top.toks = lex_line(&l).into();
                top.in_line = true;
                continue;
            }
            if skipping {
                return Err("file ended while skipping conditional text");
            }
            stack.pop();
        }
    }

    loop {
        steps += 1;
        if steps > 200_000 {
            return (ModelEnd::TexError("model budget"), stats);
        }
        let t = match next_tok(&mut stack, false) {
            Ok(Some(t)) => t,
            Ok(None) => return (ModelEnd::Ok(out), stats),
            Err(e) => return (ModelEnd::TexError(e), stats),
        };
        match t {
            Tok::L(c) | Tok::Other(c) => out.push(c),
            Tok::Sp => out.push(' '),
            Tok::Open => group_depth += 1,
            Tok::Close => {
                group_depth -= 1;
                if group_depth < 0 {
                    return (ModelEnd::TexError("extra }"), stats);
                }
            }
            Tok::Cs(name) => match name.as_str() {
                "par" => out.push('P'),
                "iftrue" => conds.push(true),
                "iffalse" | "else" => {
                    if name == "else" {
                        match conds.pop() {
                            Some(true) => {}
                            _ => return (ModelEnd::TexError("extra \\else"), stats),
                        }
                    }
                    // skip to the matching \else (only for \iffalse) or \fi
                    let mut level = 0;
                    loop {
                        let s = match next_tok(&mut stack, true) {
                            Ok(Some(s)) => s,
                            Ok(None) => return (ModelEnd::TexError("input ended while skipping"), stats),
                            Err(e) => return (ModelEnd::TexError(e), stats),
                        };
                        if let Tok::Cs(n) = s {
                            match n.as_str() {
                                "iftrue" | "iffalse" => level += 1,
                                "fi" => {
                                    if level == 0 {
                                        break;
                                    }
                                    level -= 1;
                                }
                                "else" => {
                                    if level == 0 && name == "iffalse" {
                                        conds.push(false);
                                        break;
                                    }
                                }
                                _ => {}
                            }
                        }
                    }
                }
                "fi" => {
                    if conds.pop().is_none() {
                        return (ModelEnd::TexError("extra \\fi"), stats);
                    }
                }
                "input" => {
                    // file name: letters up to a space (consumed) or another token (left)
                    let mut fname = String::new();
                    loop {
                        let top = stack.last_mut().unwrap();
                        match top.toks.front() {
                            Some(Tok::L(c)) => {
                                fname.push(*c);
                                top.toks.pop_front();
                            }
                            Some(Tok::Sp) => {
                                top.toks.pop_front();
                                break;
                            }
                            _ => break,
                        }
                    }
                    let Some(content) = files.get(&fname) else { return (ModelEnd::TexError("file not found"), stats) };
                    if stack.last().map(|s| !s.toks.is_empty()).unwrap_or(false) {
                        stats.text_after_input = true;
                    }
                    if stack.len() > max_sources {
                        return (ModelEnd::TexError("too many input levels"), stats);
                    }
                    stats.inputs += 1;
                    stack.push(Src { lines: split_lines(content), next_line: 0, toks: VecDeque::new(), force_eof: false, in_line: false });
                    stats.max_depth = stats.max_depth.max(stack.len() - 1);
                }
                "endinput" => {
                    stats.endinputs += 1;
                    let top = stack.last_mut().unwrap();
                    if !top.toks.is_empty() {
                        stats.text_after_endinput = true;
                    }
                    top.force_eof = true;
                    if dev.endinput_discards_rest_of_line {
                        top.toks.clear();
                    }
                }
                "def" => {
                    // only the fixed preamble definitions: skip to the end of the body
                    let mut depth = 0i32;
                    loop {
                        match next_tok(&mut stack, false) {
                            Ok(Some(Tok::Open)) => depth += 1,
                            Ok(Some(Tok::Close)) => {
                                depth -= 1;
                                if depth == 0 {
                                    break;
                                }
                            }
                            Ok(Some(_)) => {}
                            _ => return (ModelEnd::TexError("runaway definition"), stats),
                        }
                    }
                }
                "ld" => {
                    // \def\ld#1 {<\input #1 >}: #1 is delimited by a space
                    let mut arg: Vec<Tok> = vec![];
                    loop {
                        let top = stack.last_mut().unwrap();
                        match top.toks.pop_front() {
                            Some(Tok::Sp) => break,
                            Some(t @ Tok::L(_)) => arg.push(t),
                            _ => return (ModelEnd::TexError("argument of \\ld runs over the line"), stats),
                        }
                    }
                    let top = stack.last_mut().unwrap();
                    let mut exp: Vec<Tok> = vec![Tok::Other('<'), Tok::Cs("input".into())];
                    exp.extend(arg);
                    exp.push(Tok::Sp);
                    exp.push(Tok::Other('>'));
                    for t in exp.into_iter().rev() {
                        top.toks.push_front(t);
                    }
                    stats.macro_inputs += 1;
                }
                _ => return (ModelEnd::TexError("undefined control sequence"), stats),
            },
        }
    }
}

fn piece_strategy() -> impl Strategy<Value = Piece> {
    prop_oneof![
        8 => (0u8..15).prop_map(Piece::Tag),
        3 => Just(Piece::Space),
        1 => Just(Piece::Open),
        1 => Just(Piece::Close),
        1 => Just(Piece::IfTrue),
        1 => Just(Piece::IfFalse),
        1 => Just(Piece::Else),
        2 => Just(Piece::Fi),
        1 => Just(Piece::Comment),
        5 => (0u8..8).prop_map(Piece::Input),
        3 => (0u8..8).prop_map(Piece::Ld),
        1 => Just(Piece::EndInput),
    ]
}

fn file_strategy() -> impl Strategy<Value = FileSpec> {
    (proptest::collection::vec(proptest::collection::vec(piece_strategy(), 0..7), 0..6), proptest::bool::weighted(0.7)).prop_map(|(lines, final_newline)| FileSpec { lines, final_newline })
}

fn tree_strategy() -> impl Strategy<Value = TreeCase> {
    proptest::collection::vec(file_strategy(), 1..9).prop_map(|files| TreeCase { files })
}

/// Make a raw piece list well formed: closers only when something is open, so that most
/// cases are programs TeX accepts (raw ones remain: every fifth case by size).
fn well_form(c: &TreeCase) -> TreeCase {
    let total: usize = c.files.iter().map(|f| f.lines.iter().map(|l| l.len()).sum::<usize>()).sum();
    if total % 5 == 4 {
        return c.clone();
    }
    let mut out = c.clone();
    for f in &mut out.files {
        for l in &mut f.lines {
            // per line: drop \else / \fi / } that have no opener on the same line, and close what the
            // line opened, except in one line out of four (files may end inside a group/conditional)
            let keep_open = l.len() % 4 == 1;
            let mut stack: Vec<u8> = vec![];
            let mut nl = vec![];
            for p in l.iter() {
                match p {
                    Piece::Open => {
                        stack.push(0);
                        nl.push(p.clone());
                    }
                    Piece::Close => {
                        if stack.last() == Some(&0) {
                            stack.pop();
                            nl.push(p.clone());
                        }
                    }
                    Piece::IfTrue | Piece::IfFalse => {
                        stack.push(1);
                        nl.push(p.clone());
                    }
                    Piece::Else => {
                        if stack.last() == Some(&1) {
                            *stack.last_mut().unwrap() = 2;
                            nl.push(p.clone());
                        }
                    }
                    Piece::Fi => {
                        if matches!(stack.last(), Some(1) | Some(2)) {
                            stack.pop();
                            nl.push(p.clone());
                        }
                    }
                    Piece::Comment => {
                        // closers after a comment would be swallowed: close first
                        if !keep_open {
                            while let Some(k) = stack.pop() {
                                nl.push(if k == 0 { Piece::Close } else { Piece::Fi });
                            }
                        }
                        nl.push(p.clone());
                    }
                    _ => nl.push(p.clone()),
                }
            }
            if !keep_open {
                while let Some(k) = stack.pop() {
                    nl.push(if k == 0 { Piece::Close } else { Piece::Fi });
                }
            }
            *l = nl;
        }
    }
    out
}

const MAX_SOURCES: usize = 100;

fn tree_oracle(ctx: &Ctx, c: &TreeCase, case: &mut Case) -> Verdict {
    let c = well_form(c);
    let n = c.files.len();
    let mut files: BTreeMap<String, String> = BTreeMap::new();
    let mut vm_files = vec![];
    for i in 1..n {
        let text = render_file(&c.files[i], i, n);
        files.insert(file_name(i), text.clone());
        vm_files.push((format!("{}.tex", file_name(i)), text));
    }
    let main = format!("\\def\\par{{P}}\\def\\ld#1 {{<\\input #1 >}}%\n{}", render_file(&c.files[0], 0, n));
    let (model, stats) = run_input_model(&files, &main, InputDev::default(), MAX_SOURCES);
    let mut note = format!("main: {:?}", main);
    for (k, v) in &files {
        note.push_str(&format!(" | {}: {:?}", k, v));
    }
    case.note = Some(note.clone());
    let opts = VmOptions { files: vm_files, ..Default::default() };
    let r = texvm::run_program(&opts, &main);
    case.class_if(stats.max_depth >= 2, "depth>=2");
    case.class_if(stats.max_depth >= 4, "depth>=4");
    case.class_if(stats.text_after_input, "text after \\input on its line");
    case.class_if(stats.text_after_endinput, "text after \\endinput on its line");
    case.class_if(stats.endinputs > 0, "endinput executed");
    case.class_if(stats.macro_inputs > 0, "\\input from a macro expansion with pending tokens");
    let nontrivial = stats.max_depth >= 2 || stats.text_after_input || stats.text_after_endinput || stats.macro_inputs > 0;
    match model {
        ModelEnd::TexError(e) => {
            case.class("tex error");
            let _ = e;
            Verdict::Skip("TeX reports an error on this input")
        }
        ModelEnd::Ok(expected) => {
            let got = texvm::plain(&r.out);
            if r.error.is_none() && got == expected {
                return Verdict::pass(nontrivial);
            }
            if ctx.known("flag:endinput_discards_rest_of_line") {
                match run_input_model(&files, &main, InputDev { endinput_discards_rest_of_line: true }, MAX_SOURCES) {
                    (ModelEnd::Ok(e2), _) => {
                        if r.error.is_none() && got == e2 {
                            return Verdict::Known("flag:endinput_discards_rest_of_line".into());
                        }
                    }
                    (ModelEnd::TexError(_), _) => {
                        // with the rest of the line gone the program is erroneous (e.g. a \fi whose
                        // \iftrue was discarded): the implementation must then report an error
                        if r.error.is_some() {
                            return Verdict::Known("flag:endinput_discards_rest_of_line".into());
                        }
                    }
                }
            }
            Verdict::Fail(format!("output differs from the files-as-lines model\n{}\nexpected: {:?}\ngot:      {:?}\nerror:    {:?}", note, expected, got, r.error))
        }
    }
}

#[derive(Clone, Debug, Serialize, Deserialize)]
pub struct DepthCase {
    depth: usize,
    trailing: bool,
}

fn depth_oracle(c: &DepthCase, case: &mut Case) -> Verdict {
    // file i inputs file i+1 in the middle of a line
    let mut files: BTreeMap<String, String> = BTreeMap::new();
    let mut vm_files = vec![];
    fn num_name(i: usize) -> String {
        // letters only (file names are read as letter tokens)
        let mut s = String::new();
        let mut k = i;
        loop {
            s.push((b'a' + (k % 26) as u8) as char);
            k /= 26;
            if k == 0 {
                break;
            }
        }
        s
    }
    let name = |i: usize| format!("d{}", num_name(i));
    for i in 1..=c.depth {
        let text = if i < c.depth {
            if c.trailing {
                format!("A\\input {} B\n", name(i + 1))
            } else {
                format!("A\\input {}\nB\n", name(i + 1))
            }
        } else {
            "Z\n".to_string()
        };
        files.insert(name(i), text.clone());
        vm_files.push((format!("{}.tex", name(i)), text));
    }
    let main = format!("\\def\\par{{P}}%\nM\\input {} N%\n", name(1));
    let (model, _) = run_input_model(&files, &main, InputDev::default(), MAX_SOURCES);
    case.note = Some(format!("chain of {} nested files", c.depth));
    let opts = VmOptions { files: vm_files, ..Default::default() };
    let r = texvm::run_program(&opts, &main);
    match model {
        ModelEnd::Ok(expected) => {
            let got = texvm::plain(&r.out);
            if r.error.is_none() && got == expected {
                Verdict::pass(true)
            } else {
                Verdict::Fail(format!("nesting depth {}: expected {:?}, got {:?}, error {:?}", c.depth, expected, got, r.error))
            }
        }
        ModelEnd::TexError(_) => {
            // beyond the documented limit: a located error, not a crash
            if r.error.is_some() {
                Verdict::pass(true)
            } else {
                Verdict::Fail(format!("nesting depth {} exceeds the documented limit of 100 but no error was reported", c.depth))
            }
        }
    }
}

// ------------------------------------------------------------------------------------
// \openin / \read / \ifeof / \closein

#[derive(Clone, Debug, Serialize, Deserialize)]
pub enum ROp {
    OpenIn(u8, u8), // stream, file index (may not exist)
    Read(u8),
    IfEof(u8),
    CloseIn(u8),
}

#[derive(Clone, Debug, Serialize, Deserialize)]
pub struct ReadCase {
    pub files: Vec<Vec<Vec<RPiece>>>, // file -> lines -> pieces
    pub final_newline: Vec<bool>,
    pub terminal: Vec<Vec<RPiece>>,
    pub ops: Vec<ROp>,
}

#[derive(Clone, Debug, Serialize, Deserialize)]
pub enum RPiece {
    Tag(u8),
    Space,
    Open,
    Close,
    Comment,
    Cs(u8),
}

fn render_rline(l: &[RPiece]) -> String {
    let mut s = String::new();
    for p in l {
        match p {
            RPiece::Tag(t) => s.push((b'A' + (t % 15)) as char),
            RPiece::Space => s.push(' '),
            RPiece::Open => s.push('{'),
            RPiece::Close => s.push('}'),
            RPiece::Comment => s.push('%'),
            RPiece::Cs(k) => s.push_str(["\\a ", "\\bc ", "\\!", "\\ "][(*k % 4) as usize]),
        }
    }
    s
}

#[derive(Clone, Copy, Default)]
pub struct ReadDev {
    /// the stream is closed as soon as its last real line has been read, and reading at the end
    /// of the file delivers no tokens (D26)
    pub ifeof_true_after_last_real_line: bool,
}

enum Stream {
    Closed,
    Open { lines: Vec<String>, pos: usize },
}

fn tok_out(t: &Tok) -> OutTok {
    match t {
        Tok::L(c) => OutTok::Ch(*c, 11),
        Tok::Other(c) => OutTok::Ch(*c, 12),
        Tok::Sp => OutTok::Ch(' ', 10),
        Tok::Open => OutTok::Ch('{', 1),
        Tok::Close => OutTok::Ch('}', 2),
        Tok::Cs(n) => OutTok::Cs(n.clone()),
    }
}

pub struct ReadBuilt {
    pub program: String,
    pub expected: Vec<OutTok>,
    /// Some(reason) when TeX reports an error at some point; `expected` is valid up to there
    pub tex_error: Option<&'static str>,
    pub multi_line_read: bool,
    pub read_at_eof: bool,
    pub terminal_reads: usize,
    pub file_reads: usize,
}

pub fn build_read(c: &ReadCase, dev: ReadDev) -> (ReadBuilt, Vec<(String, String)>, Vec<String>) {
    let mut vm_files = vec![];
    let mut contents: Vec<String> = vec![];
    for (i, f) in c.files.iter().enumerate() {
        let mut s = String::new();
        for (li, l) in f.iter().enumerate() {
            s.push_str(&render_rline(l));
            if li + 1 < f.len() || c.final_newline.get(i).copied().unwrap_or(true) {
                s.push('\n');
            }
        }
        vm_files.push((format!("{}.tex", file_name(i)), s.clone()));
        contents.push(s);
    }
    let terminal: Vec<String> = c.terminal.iter().map(|l| render_rline(l)).collect();
    let mut term_pos = 0usize;
    let mut streams: Vec<Stream> = (0..16).map(|_| Stream::Closed).collect();
    let mut b = ReadBuilt { program: String::new(), expected: vec![], tex_error: None, multi_line_read: false, read_at_eof: false, terminal_reads: 0, file_reads: 0 };
    let semi = OutTok::Ch(';', 12);
    'ops: for op in &c.ops {
        match op {
            ROp::OpenIn(n, f) => {
                let n = (*n % 4) as usize;
                // index beyond the file list = a file that does not exist
                let fi = *f as usize % (c.files.len() + 1);
                b.program.push_str(&format!("\\openin{}={} ", n, file_name(fi)));
                streams[n] = if fi < c.files.len() {
                    let mut lines = split_lines(&contents[fi]);
                    if dev.ifeof_true_after_last_real_line && lines.is_empty() {
                        // the implementation appends a newline to a file that does not end in one,
                        // so an empty file is one empty line
                        lines.push(String::new());
                    }
                    Stream::Open { lines, pos: 0 }
                } else {
                    Stream::Closed
                };
            }
            ROp::CloseIn(n) => {
                let n = (*n % 4) as usize;
                b.program.push_str(&format!("\\closein{} ", n));
                streams[n] = Stream::Closed;
            }
            ROp::IfEof(n) => {
                let n = (*n % 4) as usize;
                b.program.push_str(&format!("\\ifeof{} T\\else F\\fi;", n));
                let closed = matches!(streams[n], Stream::Closed);
                b.expected.push(OutTok::Ch(if closed { 'T' } else { 'F' }, 11));
                b.expected.push(semi.clone());
            }
            ROp::Read(n) => {
                let n = (*n % 4) as usize;
                b.program.push_str(&format!("\\read{} to\\x \\expandafter\\vpcapture\\x\\vpstop;", n));
                let mut body: Vec<Tok> = vec![];
                let mut depth = 0i64;
                let mut nlines = 0;
                let from_file = matches!(streams[n], Stream::Open { .. });
                if from_file {
                    b.file_reads += 1;
                } else {
                    b.terminal_reads += 1;
                }
                loop {
                    // fetch a line
                    let line: String = match &mut streams[n] {
                        Stream::Open { lines, pos } => {
                            if *pos < lines.len() {
                                let l = lines[*pos].clone();
                                *pos += 1;
                                if dev.ifeof_true_after_last_real_line && *pos >= lines.len() {
                                    // closes as soon as the last real line is consumed
                                    let l2 = l.clone();
                                    streams[n] = Stream::Closed;
                                    l2
                                } else {
                                    l
                                }
                            } else {
                                // input_ln fails: the stream closes and an empty line is read
                                streams[n] = Stream::Closed;
                                b.read_at_eof = true;
                                if depth != 0 {
                                    b.tex_error = Some("file ended within \\read");
                                    break 'ops;
                                }
                                if dev.ifeof_true_after_last_real_line {
                                    // no tokens at all
                                    break;
                                }
                                String::new()
                            }
                        }
                        Stream::Closed => {
                            if from_file {
                                // a multi-line group hit the end of the file after the stream closed
                                b.tex_error = Some("file ended within \\read");
                                break 'ops;
                            }
                            if term_pos < terminal.len() {
                                term_pos += 1;
                                terminal[term_pos - 1].clone()
                            } else {
                                b.tex_error = Some("terminal input exhausted");
                                break 'ops;
                            }
                        }
                    };
                    nlines += 1;
                    let toks = lex_line(&line);
                    let mut aborted = false;
                    for t in toks {
                        match t {
                            Tok::Open => depth += 1,
                            Tok::Close => {
                                if depth == 0 {
                                    // unmatched }: the rest of the line is dropped
                                    aborted = true;
                                    break;
                                }
                                depth -= 1;
                            }
                            _ => {}
                        }
                        body.push(t);
                    }
                    if aborted || depth == 0 {
                        break;
                    }
                }
                if nlines >= 2 {
                    b.multi_line_read = true;
                }
                b.expected.extend(body.iter().map(tok_out));
                b.expected.push(semi.clone());
            }
        }
    }
    b.program.push('%');
    (b, vm_files, terminal)
}

fn rpiece_strategy() -> impl Strategy<Value = RPiece> {
    prop_oneof![
        8 => (0u8..15).prop_map(RPiece::Tag),
        3 => Just(RPiece::Space),
        2 => Just(RPiece::Open),
        2 => Just(RPiece::Close),
        1 => Just(RPiece::Comment),
        2 => (0u8..4).prop_map(RPiece::Cs),
    ]
}

fn rline_strategy() -> impl Strategy<Value = Vec<RPiece>> {
    proptest::collection::vec(rpiece_strategy(), 0..7)
}

fn read_case_strategy() -> impl Strategy<Value = ReadCase> {
    let stream = || prop_oneof![5 => 0u8..2, 1 => 2u8..4];
    let op = prop_oneof![
        2 => (stream(), 0u8..6).prop_map(|(n, f)| ROp::OpenIn(n, f)),
        8 => stream().prop_map(ROp::Read),
        5 => stream().prop_map(ROp::IfEof),
        1 => stream().prop_map(ROp::CloseIn),
    ];
    (
        proptest::collection::vec(proptest::collection::vec(rline_strategy(), 0..5), 1..4),
        proptest::collection::vec(proptest::bool::weighted(0.7), 4),
        proptest::collection::vec(rline_strategy(), 0..9),
        proptest::collection::vec(op, 1..14),
        (0u8..6, 0u8..6),
    )
        .prop_map(|(files, final_newline, terminal, mut ops, (f0, f1))| {
            // streams 0 and 1 start open (mostly on existing files) so that reads reach files
            ops.insert(0, ROp::OpenIn(0, f0));
            ops.insert(1, ROp::OpenIn(1, f1));
            ReadCase { files, final_newline, terminal, ops }
        })
}

/// Balance braces inside each file (most cases), keep raw ones (every fifth by size).
fn well_form_read(c: &ReadCase) -> ReadCase {
    let total: usize = c.files.iter().map(|f| f.iter().map(|l| l.len()).sum::<usize>()).sum();
    if total % 5 == 4 {
        return c.clone();
    }
    let mut out = c.clone();
    let fix = |lines: &mut Vec<Vec<RPiece>>| {
        let mut depth = 0i64;
        let nl = lines.len();
        for (li, l) in lines.iter_mut().enumerate() {
            let mut v = vec![];
            for p in l.iter() {
                match p {
                    RPiece::Open => {
                        depth += 1;
                        v.push(p.clone());
                    }
                    RPiece::Close => {
                        // keep an occasional unmatched } (aborts the line in TeX)
                        if depth > 0 {
                            depth -= 1;
                            v.push(p.clone());
                        } else if l.len() % 3 == 0 {
                            v.push(p.clone());
                        }
                    }
                    RPiece::Comment => {
                        if li + 1 == nl {
                            while depth > 0 {
                                v.push(RPiece::Close);
                                depth -= 1;
                            }
                        }
                        v.push(p.clone());
                    }
                    _ => v.push(p.clone()),
                }
            }
            if li + 1 == nl {
                while depth > 0 {
                    v.push(RPiece::Close);
                    depth -= 1;
                }
            }
            *l = v;
        }
    };
    for f in &mut out.files {
        fix(f);
    }
    fix(&mut out.terminal);
    out
}

fn read_oracle(ctx: &Ctx, c: &ReadCase, case: &mut Case) -> Verdict {
    let c = well_form_read(c);
    let (b, vm_files, terminal) = build_read(&c, ReadDev::default());
    let note = format!("program: {} | files: {:?} | terminal: {:?}", b.program, vm_files, terminal);
    case.note = Some(note.clone());
    // a real terminal line ends with a newline (std::io::Stdin::read_line keeps it)
    let opts = VmOptions { files: vm_files.clone(), terminal: terminal.iter().map(|l| format!("{}\n", l)).collect(), ..Default::default() };
    let r = texvm::run_program(&opts, &b.program);
    case.class_if(b.multi_line_read, "read spans lines");
    case.class_if(b.read_at_eof, "read at end of file");
    case.class_if(b.terminal_reads > 0, "terminal read");
    case.class_if(b.file_reads >= 2, ">=2 file reads");
    let nontrivial = b.multi_line_read || b.read_at_eof || b.file_reads >= 2;
    if b.tex_error.is_some() {
        case.class("tex error");
        return Verdict::Skip("TeX reports an error on this input");
    }
    if r.error.is_none() && r.out == b.expected {
        return Verdict::pass(nontrivial);
    }
    if ctx.known("flag:ifeof_true_after_last_real_line") {
        let (b2, _, _) = build_read(&c, ReadDev { ifeof_true_after_last_real_line: true });
        if b2.tex_error.is_none() && r.error.is_none() && r.out == b2.expected {
            return Verdict::Known("flag:ifeof_true_after_last_real_line".into());
        }
        if b2.tex_error.is_some() {
            // under the listed deviation the script runs out of terminal lines earlier: the run
            // must agree up to that point and then end with the terminal error
            if r.error.is_some() && r.out == b2.expected {
                return Verdict::Known("flag:ifeof_true_after_last_real_line".into());
            }
        }
    }
    Verdict::Fail(format!("\\read/\\ifeof differ from TeX's model\n{}\nexpected: {}\ngot:      {}\nerror:    {:?}", note, texvm::render(&b.expected), texvm::render(&r.out), r.error))
}

pub fn run(ctx: &Ctx) {
    ctx.rule("input trees: up to 6 in-memory files (0-5 lines each, with/without final newline, empty files, lines ending inside groups/conditionals) over tags, blanks, braces, \\iftrue/\\iffalse/\\else/\\fi, comments, blank lines (\\par defined as a tag), \\input and \\endinput at any position of a line; output compared with a small TeX interpreter (line scanner + source stack + conditional skipping) that treats files as lines standing in place; plus nesting-depth probes. read: scripts of \\openin/\\read/\\ifeof/\\closein over 4 streams, files with balanced and unbalanced line groups, scripted terminal; the macro body defined by each \\read (captured unexpanded) and every \\ifeof must equal TeX's read_toks model. non-trivial = nesting depth>=2 or text after \\input/\\endinput on its line; for read: a read spanning lines, a read at end of file, or >=2 reads of one file; distinct by rendered case");
    ctx.assume("\\input after \\endinput on the same line is not generated (TeX's global force_eof closes the nested file after its first line)");
    ctx.assume("inputs on which TeX itself reports an error (extra }, \\else, \\fi; a file ending while conditional text is skipped; unbalanced \\read at end of file; exhausted terminal) are skipped and counted");
    let n = ctx.tier.pick(250_000u64, 3_000_000u64);
    run_generated(ctx, "input_tree", n, tree_strategy, |c: &TreeCase, case| tree_oracle(ctx, c, case));
    let depths: Vec<DepthCase> = [1usize, 2, 5, 50, 90, 98, 99, 101, 102, 150].iter().flat_map(|d| [DepthCase { depth: *d, trailing: true }, DepthCase { depth: *d, trailing: false }]).collect();
    run_list(ctx, "input_depth", depths, |c: &DepthCase, case| depth_oracle(c, case));
    let n = ctx.tier.pick(250_000u64, 3_000_000u64);
    run_generated(ctx, "read_streams", n, read_case_strategy, |c: &ReadCase, case| read_oracle(ctx, c, case));
}
