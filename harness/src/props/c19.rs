//! C19 \input, \endinput and \read treat files as lines standing in place.

use crate::engine::*;
use crate::texvm::{self, OutTok, VmOptions};
use proptest::prelude::*;
use serde::{Deserialize, Serialize};
use std::collections::{BTreeMap, VecDeque};

// ------------------------------------------------------------------------------------
// A small TeX line scanner for the restricted character set used here (plain TeX codes):
// letters, space, { }, %, \ followed by letters or one other character.

#[derive(Clone, Debug, PartialEq, Eq)]
pub enum Tok {
    L(char),
    Sp,
    Open,
    Close,
    Other(char),
    Cs(String),
}

/// Lines of a file: split at '\n'; a final piece without newline is a line; nothing after the
/// final newline.
pub fn split_lines(src: &str) -> Vec<String> {
    let mut v: Vec<String> = src.split('\n').map(|s| s.to_string()).collect();
    if v.last().map(|s| s.is_empty()).unwrap_or(false) {
        v.pop();
    }
    v
}

#[derive(Clone, Copy, PartialEq, Eq, Debug)]
enum St {
    N,
    M,
    S,
}

/// Lazy scanner of one line (TeX 343-356 for the restricted alphabet): trailing blanks removed, the
/// end-line character (category 5) appended. Tokens are produced one at a time because the category
/// code of one character, `B`, can change while a line is being read: the caller passes its current
/// code (11 letter, 12 other, 9 ignored) at every step. All other codes are plain TeX's.
#[derive(Clone, Debug)]
pub struct LineLex {
    chars: Vec<char>,
    pos: usize,
    st: St,
    done: bool,
    /// set when a `B` was scanned under a code other than 11 (class counter only)
    pub saw_recoded_b: bool,
}

impl LineLex {
    pub fn new(line: &str) -> LineLex {
        LineLex { chars: line.trim_end_matches(' ').chars().collect(), pos: 0, st: St::N, done: false, saw_recoded_b: false }
    }

    fn is_letter(c: char, cat_b: u8) -> bool {
        c.is_ascii_alphabetic() && (c != 'B' || cat_b == 11)
    }

    /// The next token of the line; None when the line is exhausted.
    pub fn next(&mut self, cat_b: u8) -> Option<Tok> {
        loop {
            if self.done {
                return None;
            }
            if self.pos >= self.chars.len() {
                // the end-line character (category 5)
                self.done = true;
                return match self.st {
                    St::N => Some(Tok::Cs("par".into())),
                    St::M => Some(Tok::Sp),
                    St::S => None,
                };
            }
            let c = self.chars[self.pos];
            self.pos += 1;
            match c {
                ' ' => {
                    if self.st == St::M {
                        self.st = St::S;
                        return Some(Tok::Sp);
                    }
                }
                '%' => {
                    self.done = true;
                    return None;
                }
                '{' => {
                    self.st = St::M;
                    return Some(Tok::Open);
                }
                '}' => {
                    self.st = St::M;
                    return Some(Tok::Close);
                }
                '\\' => {
                    if self.pos >= self.chars.len() {
                        // `\` directly before the end-line character: control symbol \^^M
                        self.done = true;
                        return Some(Tok::Cs("\r".into()));
                    }
                    let d = self.chars[self.pos];
                    if Self::is_letter(d, cat_b) {
                        let mut name = String::new();
                        while self.pos < self.chars.len() && Self::is_letter(self.chars[self.pos], cat_b) {
                            name.push(self.chars[self.pos]);
                            self.pos += 1;
                        }
                        self.st = St::S;
                        return Some(Tok::Cs(name));
                    }
                    self.pos += 1;
                    self.st = if d == ' ' { St::S } else { St::M };
                    return Some(Tok::Cs(d.to_string()));
                }
                'B' if cat_b == 9 => {
                    // ignored character: no token, no change of state
                    self.saw_recoded_b = true;
                }
                c if Self::is_letter(c, cat_b) => {
                    self.st = St::M;
                    return Some(Tok::L(c));
                }
                c => {
                    if c == 'B' {
                        self.saw_recoded_b = true;
                    }
                    self.st = St::M;
                    return Some(Tok::Other(c));
                }
            }
        }
    }

    /// Forget the rest of the line, its end-line character included.
    pub fn kill(&mut self) {
        self.done = true;
    }

    /// True when the line still holds a token.
    pub fn has_more(&self, cat_b: u8) -> bool {
        self.clone().next(cat_b).is_some()
    }
}

/// Tokens of one line under plain TeX's category codes.
pub fn lex_line(line: &str) -> Vec<Tok> {
    let mut l = LineLex::new(line);
    let mut out = vec![];
    while let Some(t) = l.next(11) {
        out.push(t);
    }
    out
}

// ------------------------------------------------------------------------------------
// \input / \endinput

#[derive(Clone, Debug, Serialize, Deserialize)]
pub enum Piece {
    Tag(u8),
    Space,
    Open,
    Close,
    IfTrue,
    IfFalse,
    Else,
    Fi,
    Comment,
    /// `\\input name ` (j < 8) or, with the extension spelled out, `\\input name.tex ` (j >= 8)
    Input(u8),
    EndInput,
    /// `\\ld name ` where `\\def\\ld#1 {<\\input #1 >}`: an \\input issued from a macro expansion, with a
    /// token of the expansion pending behind it
    Ld(u8),
    /// the file name is ended by a token that is not a character; that token is read after the file:
    /// `\\input name\\relax ` (j < 8) or `\\input name\\def\\v{d}` (j >= 8: the file still sees the old \\v)
    InputRelax(u8),
    /// `\\lr name ` where `\\def\\lr#1 {<\\input #1\\relax>}`
    Lr(u8),
    /// `\\ls name ` where `\\def\\ls#1 {<\\input\\sp #1 >}`, `\\def\\sp{ }`: a blank space in front of the
    /// file name (TeX 526 skips it)
    Ls(u8),
    /// `\\le ` where `\\def\\le{<\\endinput>}`: \\endinput issued from a macro expansion, with a token of
    /// the expansion pending behind it
    Le,
    /// `\\sa ` / `\\sb ` / `\\sc `: `\\def\\v{a}` (b, c), a local definition that groups undo
    SetV(u8),
    /// `\\v `: typesets the current value
    UseV,
    /// `\\co ` / `\\cl ` / `\\ci `: `\\catcode`\\B=12 ` (11, 9), a local assignment
    Cat(u8),
}

#[derive(Clone, Debug, Serialize, Deserialize)]
pub struct FileSpec {
    pub lines: Vec<Vec<Piece>>,
    pub final_newline: bool,
    /// 0: nothing. Otherwise the file begins by finishing something its parent opened directly in
    /// front of the \\input: 1 `\\fi `, 2 `\\else Q\\fi ` (parent: `\\iftrue `), 3 `\\v }\\v ` (parent: `{\\sc `)
    #[serde(default)]
    pub head: u8,
    /// 0: nothing. Otherwise the file ends (own last line) inside something that the parent finishes
    /// directly behind the file name: 1 `\\iftrue X` (parent: `\\else Z\\fi `), 2 `\\iffalse X\\else Y`
    /// (parent: `\\fi `), 3 `{\\sb ` (parent: `\\v }\\v `)
    #[serde(default)]
    pub tail: u8,
}

#[derive(Clone, Debug, Serialize, Deserialize)]
pub struct TreeCase {
    /// files[0] is the main source; file i may only \input files with larger index (acyclic)
    pub files: Vec<FileSpec>,
}

fn file_name(i: usize) -> String {
    format!("f{}", (b'a' + (i % 26) as u8) as char)
}

const PREAMBLE: &str = "\\def\\par{P}\\def\\ld#1 {<\\input #1 >}\\def\\lr#1 {<\\input #1\\relax>}\\def\\sp{ }\\def\\ls#1 {<\\input\\sp #1 >}\\def\\le{<\\endinput>}\\def\\v{o}\\def\\sa{\\def\\v{a}}\\def\\sb{\\def\\v{b}}\\def\\sc{\\def\\v{c}}\\def\\co{\\catcode`\\B=12 }\\def\\cl{\\catcode`\\B=11 }\\def\\ci{\\catcode`\\B=9 }%\n";

fn render_file(c: &TreeCase, idx: usize) -> String {
    let spec = &c.files[idx];
    let nfiles = c.files.len();
    let mut lines: Vec<String> = vec![];
    for line in spec.lines.iter() {
        let mut s = String::new();
        let mut had_endinput = false;
        for p in line {
            match p {
                Piece::Tag(t) => s.push((b'A' + (t % 15)) as char),
                Piece::Space => s.push(' '),
                Piece::Open => s.push('{'),
                Piece::Close => s.push('}'),
                Piece::IfTrue => s.push_str("\\iftrue "),
                Piece::IfFalse => s.push_str("\\iffalse "),
                Piece::Else => s.push_str("\\else "),
                Piece::Fi => s.push_str("\\fi "),
                Piece::Comment => s.push('%'),
                Piece::Input(j) | Piece::Ld(j) | Piece::InputRelax(j) | Piece::Lr(j) | Piece::Ls(j) => {
                    // only files with a larger index; never after \endinput on the same line
                    // (TeX's global force_eof would close the nested file after its first line)
                    let remaining = nfiles.saturating_sub(idx + 1);
                    if remaining > 0 && !had_endinput {
                        let target = idx + 1 + ((*j % 8) as usize % remaining);
                        let name = file_name(target);
                        // what the target leaves open at its start / end is opened / finished here
                        s.push_str(match c.files[target].head % 4 {
                            1 | 2 => "\\iftrue ",
                            3 => "{\\sc ",
                            _ => "",
                        });
                        match p {
                            Piece::Input(j) if *j >= 8 => s.push_str(&format!("\\input {}.tex ", name)),
                            Piece::Input(_) => s.push_str(&format!("\\input {} ", name)),
                            Piece::Ld(_) => s.push_str(&format!("\\ld {} ", name)),
                            Piece::InputRelax(j) if *j >= 8 => s.push_str(&format!("\\input {}\\def\\v{{d}}", name)),
                            Piece::InputRelax(_) => s.push_str(&format!("\\input {}\\relax ", name)),
                            Piece::Lr(_) => s.push_str(&format!("\\lr {} ", name)),
                            _ => s.push_str(&format!("\\ls {} ", name)),
                        }
                        s.push_str(match c.files[target].tail % 4 {
                            1 => "\\else Z\\fi ",
                            2 => "\\fi ",
                            3 => "\\v }\\v ",
                            _ => "",
                        });
                    }
                }
                Piece::EndInput => {
                    s.push_str("\\endinput ");
                    had_endinput = true;
                }
                Piece::Le => {
                    s.push_str("\\le ");
                    had_endinput = true;
                }
                Piece::SetV(k) => s.push_str(["\\sa ", "\\sb ", "\\sc "][(*k % 3) as usize]),
                Piece::UseV => s.push_str("\\v "),
                Piece::Cat(k) => s.push_str(["\\co ", "\\cl ", "\\ci "][(*k % 3) as usize]),
            }
        }
        lines.push(s);
    }
    if idx > 0 {
        let head = match spec.head % 4 {
            1 => "\\fi ",
            2 => "\\else Q\\fi ",
            3 => "\\v }\\v ",
            _ => "",
        };
        if !head.is_empty() {
            if lines.is_empty() {
                lines.push(head.to_string());
            } else {
                lines[0] = format!("{}{}", head, lines[0]);
            }
        }
        let tail = match spec.tail % 4 {
            1 => "\\iftrue X",
            2 => "\\iffalse X\\else Y",
            3 => "{\\sb ",
            _ => "",
        };
        if !tail.is_empty() {
            lines.push(tail.to_string());
        }
    }
    let mut s = String::new();
    for (li, l) in lines.iter().enumerate() {
        s.push_str(l);
        if li + 1 < lines.len() || spec.final_newline {
            s.push('\n');
        }
    }
    s
}

#[derive(Clone, Copy, Default)]
pub struct InputDev {
    /// \endinput discards the rest of its own line (D25)
    pub endinput_discards_rest_of_line: bool,
}

#[derive(Debug)]
pub enum ModelEnd {
    Ok(Vec<OutTok>),
    /// TeX itself reports an error on this input (outside the property)
    TexError(&'static str),
}

pub const TOO_MANY_LEVELS: &str = "too many input levels";

struct Src {
    /// serial number of this opening of a file (0 = the main source)
    id: usize,
    lines: Vec<String>,
    next_line: usize,
    cur: Option<LineLex>,
    /// tokens of macro expansions (and a token put back by the file name scanner) that are read
    /// before the rest of the line
    exp: VecDeque<Tok>,
    force_eof: bool,
    /// groups + conditionals open when the file began
    open_at_start: usize,
}

#[derive(Default)]
pub struct InputModelStats {
    pub max_depth: usize,
    pub text_after_input: bool,
    pub text_after_endinput: bool,
    pub endinputs: usize,
    pub inputs: usize,
    pub macro_inputs: usize,
    pub empty_file_inputs: usize,
    pub blank_line_file_inputs: usize,
    pub no_final_newline_inputs: usize,
    pub name_ended_by_relax: usize,
    pub name_ended_by_def: usize,
    pub explicit_extension: usize,
    pub name_after_blank: usize,
    pub macro_endinputs: usize,
    pub macro_endinput_with_rest_of_line: usize,
    pub files_ended_open: usize,
    pub closed_in_other_file: usize,
    pub else_in_other_file: usize,
    pub restored_in_other_file: usize,
    pub skipped_inputs: usize,
    pub same_file_twice: bool,
    pub recoded_b_in_other_file: usize,
    /// what had been typeset when the model stopped with a TeX error
    pub partial: Vec<OutTok>,
}

struct Machine<'a> {
    files: &'a BTreeMap<String, String>,
    dev: InputDev,
    max_nested: usize,
    stack: Vec<Src>,
    out: Vec<OutTok>,
    /// open groups: saved \v, saved code of B, id of the source that opened it
    groups: Vec<(char, u8, usize)>,
    /// open conditionals: true = in the branch before \else; id of the source of the \if
    conds: Vec<(bool, usize)>,
    v: char,
    cat_b: u8,
    cat_b_set_in: usize,
    next_id: usize,
    opened: BTreeMap<String, usize>,
    stats: InputModelStats,
}

impl<'a> Machine<'a> {
    fn cur_id(&self) -> usize {
        self.stack.last().map(|s| s.id).unwrap_or(0)
    }

    fn pop_file(&mut self) {
        if let Some(s) = self.stack.pop() {
            if self.groups.len() + self.conds.len() > s.open_at_start {
                self.stats.files_ended_open += 1;
            }
        }
    }

    /// Fetch the next token; `skipping` changes what the end of a file means.
    /// Returns None at the end of all input.
    fn next_tok(&mut self, skipping: bool) -> Result<Option<Tok>, &'static str> {
        loop {
            let cat_b = self.cat_b;
            let set_in = self.cat_b_set_in;
            let Some(top) = self.stack.last_mut() else { return Ok(None) };
            if let Some(t) = top.exp.pop_front() {
                return Ok(Some(t));
            }
            if let Some(l) = top.cur.as_mut() {
                let t = l.next(cat_b);
                if l.saw_recoded_b {
                    l.saw_recoded_b = false;
                    if set_in != top.id {
                        self.stats.recoded_b_in_other_file += 1;
                    }
                }
                if let Some(t) = t {
                    return Ok(Some(t));
                }
                top.cur = None;
            }
            // at a line boundary: TeX 362 (force_eof, or input_ln fails)
            if top.force_eof || top.next_line >= top.lines.len() {
                if skipping {
                    return Err("file ended while skipping conditional text");
                }
                self.pop_file();
                continue;
            }
            top.cur = Some(LineLex::new(&top.lines[top.next_line]));
            top.next_line += 1;
        }
    }

    /// The next token without leaving the current line (file name, macro argument).
    fn same_line_tok(&mut self) -> Option<Tok> {
        let cat_b = self.cat_b;
        let top = self.stack.last_mut()?;
        if let Some(t) = top.exp.pop_front() {
            return Some(t);
        }
        top.cur.as_mut()?.next(cat_b)
    }

    fn rest_of_line_nonempty(&self) -> bool {
        match self.stack.last() {
            Some(top) => top.cur.as_ref().map(|l| l.has_more(self.cat_b)).unwrap_or(false),
            None => false,
        }
    }

    fn push_front(&mut self, toks: Vec<Tok>) {
        if let Some(top) = self.stack.last_mut() {
            for t in toks.into_iter().rev() {
                top.exp.push_front(t);
            }
        }
    }

    fn emit(&mut self, c: char, cat: u8) {
        self.out.push(OutTok::Ch(c, cat));
    }

    fn run(&mut self) -> ModelEnd {
        let mut steps = 0u64;
        loop {
            steps += 1;
            if steps > 200_000 {
                return ModelEnd::TexError("model budget");
            }
            let t = match self.next_tok(false) {
                Ok(Some(t)) => t,
                Ok(None) => return ModelEnd::Ok(std::mem::take(&mut self.out)),
                Err(e) => return ModelEnd::TexError(e),
            };
            let here = self.cur_id();
            match t {
                Tok::L(c) => self.emit(c, 11),
                Tok::Other(c) => self.emit(c, 12),
                Tok::Sp => self.emit(' ', 10),
                Tok::Open => self.groups.push((self.v, self.cat_b, here)),
                Tok::Close => match self.groups.pop() {
                    None => return ModelEnd::TexError("extra }"),
                    Some((v0, c0, id)) => {
                        if id != here {
                            self.stats.closed_in_other_file += 1;
                            if v0 != self.v || c0 != self.cat_b {
                                self.stats.restored_in_other_file += 1;
                            }
                        }
                        self.v = v0;
                        if c0 != self.cat_b {
                            self.cat_b = c0;
                            self.cat_b_set_in = here;
                        }
                    }
                },
                Tok::Cs(name) => match name.as_str() {
                    "par" => self.emit('P', 11),
                    "relax" => {}
                    "v" => self.emit(self.v, 11),
                    "sa" => self.v = 'a',
                    "sb" => self.v = 'b',
                    "sc" => self.v = 'c',
                    "co" | "cl" | "ci" => {
                        self.cat_b = match name.as_str() {
                            "co" => 12,
                            "cl" => 11,
                            _ => 9,
                        };
                        self.cat_b_set_in = here;
                    }
                    "iftrue" => self.conds.push((true, here)),
                    "iffalse" | "else" => {
                        let mut origin = here;
                        if name == "else" {
                            match self.conds.pop() {
                                Some((true, id)) => {
                                    origin = id;
                                    if id != here {
                                        self.stats.else_in_other_file += 1;
                                    }
                                }
                                _ => return ModelEnd::TexError("extra \\else"),
                            }
                        }
                        // skip to the matching \else (only for \iffalse) or \fi
                        let mut level = 0;
                        loop {
                            let s = match self.next_tok(true) {
                                Ok(Some(s)) => s,
                                Ok(None) => return ModelEnd::TexError("input ended while skipping"),
                                Err(e) => return ModelEnd::TexError(e),
                            };
                            if let Tok::Cs(n) = s {
                                match n.as_str() {
                                    "iftrue" | "iffalse" => level += 1,
                                    "fi" => {
                                        if level == 0 {
                                            break;
                                        }
                                        level -= 1;
                                    }
                                    "else" => {
                                        if level == 0 && name == "iffalse" {
                                            self.conds.push((false, origin));
                                            break;
                                        }
                                    }
                                    "input" | "ld" | "lr" | "ls" => self.stats.skipped_inputs += 1,
                                    _ => {}
                                }
                            }
                        }
                    }
                    "fi" => match self.conds.pop() {
                        None => return ModelEnd::TexError("extra \\fi"),
                        Some((_, id)) => {
                            if id != here {
                                self.stats.closed_in_other_file += 1;
                            }
                        }
                    },
                    "input" => {
                        // TeX 526: blank spaces in front of the name are skipped (expanding macros on the
                        // way: \sp is a blank space); then characters up to a blank space, which is
                        // consumed, or up to a token that is not a character, which is read again later
                        let mut fname = String::new();
                        loop {
                            match self.same_line_tok() {
                                None => return ModelEnd::TexError("file name runs over the end of the line"),
                                Some(Tok::L(c)) | Some(Tok::Other(c)) => fname.push(c),
                                Some(Tok::Open) => fname.push('{'),
                                Some(Tok::Close) => fname.push('}'),
                                Some(Tok::Sp) => {
                                    if !fname.is_empty() {
                                        break;
                                    }
                                }
                                Some(Tok::Cs(n)) if n == "sp" => {
                                    if !fname.is_empty() {
                                        break;
                                    }
                                    self.stats.name_after_blank += 1;
                                }
                                Some(t) => {
                                    if t == Tok::Cs("relax".into()) {
                                        self.stats.name_ended_by_relax += 1;
                                    }
                                    if t == Tok::Cs("def".into()) {
                                        self.stats.name_ended_by_def += 1;
                                    }
                                    self.push_front(vec![t]);
                                    break;
                                }
                            }
                        }
                        // the extension .tex is supplied when the name has none (TeX 537)
                        if let Some(stem) = fname.strip_suffix(".tex") {
                            fname = stem.to_string();
                            self.stats.explicit_extension += 1;
                        }
                        let Some(content) = self.files.get(&fname) else { return ModelEnd::TexError("file not found") };
                        let top = self.stack.last().unwrap();
                        if !top.exp.is_empty() || self.rest_of_line_nonempty() {
                            self.stats.text_after_input = true;
                        }
                        if self.stack.len() > self.max_nested {
                            return ModelEnd::TexError(TOO_MANY_LEVELS);
                        }
                        self.stats.inputs += 1;
                        let mut lines = split_lines(content);
                        if content.is_empty() {
                            self.stats.empty_file_inputs += 1;
                        } else if lines.iter().all(|l| l.trim_end_matches(' ').is_empty()) {
                            self.stats.blank_line_file_inputs += 1;
                        }
                        if !content.is_empty() && !content.ends_with('\n') {
                            self.stats.no_final_newline_inputs += 1;
                        }
                        if lines.is_empty() {
                            // TeX 538: "If the file is empty, it is considered to contain a single blank line."
                            lines.push(String::new());
                        }
                        let n = self.opened.entry(fname.clone()).or_insert(0);
                        *n += 1;
                        if *n >= 2 {
                            self.stats.same_file_twice = true;
                        }
                        let id = self.next_id;
                        self.next_id += 1;
                        let open_at_start = self.groups.len() + self.conds.len();
                        self.stack.push(Src { id, lines, next_line: 0, cur: None, exp: VecDeque::new(), force_eof: false, open_at_start });
                        self.stats.max_depth = self.stats.max_depth.max(self.stack.len() - 1);
                    }
                    "endinput" => {
                        self.stats.endinputs += 1;
                        let rest = self.rest_of_line_nonempty();
                        let dev = self.dev;
                        let top = self.stack.last_mut().unwrap();
                        if rest || !top.exp.is_empty() {
                            self.stats.text_after_endinput = true;
                        }
                        if rest && !top.exp.is_empty() {
                            self.stats.macro_endinput_with_rest_of_line += 1;
                        }
                        top.force_eof = true;
                        if dev.endinput_discards_rest_of_line {
                            // the line is dropped where the scanner stands; tokens of macro expansions
                            // that are already pending are still read
                            if let Some(l) = top.cur.as_mut() {
                                l.kill();
                            }
                        }
                    }
                    "def" => {
                        // the definitions of the preamble are built into this interpreter; the only one that
                        // the files repeat is \def\v{<letter>} (a local definition)
                        let target = match self.next_tok(false) {
                            Ok(Some(t)) => t,
                            _ => return ModelEnd::TexError("runaway definition"),
                        };
                        let mut depth = 0i32;
                        let mut params = 0usize;
                        let mut body: Vec<Tok> = vec![];
                        loop {
                            match self.next_tok(false) {
                                Ok(Some(Tok::Open)) => {
                                    depth += 1;
                                    if depth > 1 {
                                        body.push(Tok::Open);
                                    }
                                }
                                Ok(Some(Tok::Close)) => {
                                    depth -= 1;
                                    if depth == 0 {
                                        break;
                                    }
                                    body.push(Tok::Close);
                                }
                                Ok(Some(t)) => {
                                    if depth == 0 {
                                        params += 1;
                                    } else {
                                        body.push(t);
                                    }
                                }
                                _ => return ModelEnd::TexError("runaway definition"),
                            }
                        }
                        if target == Tok::Cs("v".into()) && params == 0 {
                            if let [Tok::L(c)] = body[..] {
                                self.v = c;
                            }
                        }
                    }
                    "ld" | "lr" | "ls" => {
                        // \def\ld#1 {<\input #1 >}: #1 is delimited by a space
                        let mut arg: Vec<Tok> = vec![];
                        loop {
                            match self.same_line_tok() {
                                Some(Tok::Sp) => break,
                                Some(t @ Tok::L(_)) => arg.push(t),
                                _ => return ModelEnd::TexError("argument of \\ld runs over the line"),
                            }
                        }
                        let mut exp: Vec<Tok> = vec![Tok::Other('<'), Tok::Cs("input".into())];
                        if name == "ls" {
                            exp.push(Tok::Cs("sp".into()));
                        }
                        exp.extend(arg);
                        if name == "lr" {
                            exp.push(Tok::Cs("relax".into()));
                        } else {
                            exp.push(Tok::Sp);
                        }
                        exp.push(Tok::Other('>'));
                        self.push_front(exp);
                        self.stats.macro_inputs += 1;
                    }
                    "le" => {
                        self.push_front(vec![Tok::Other('<'), Tok::Cs("endinput".into()), Tok::Other('>')]);
                        self.stats.macro_endinputs += 1;
                    }
                    _ => return ModelEnd::TexError("undefined control sequence"),
                },
            }
        }
    }
}

/// Interpret the file tree with TeX's semantics. `max_nested` = number of files that may be open below
/// the main source.
pub fn run_input_model(files: &BTreeMap<String, String>, main: &str, dev: InputDev, max_nested: usize) -> (ModelEnd, InputModelStats) {
    let mut m = Machine {
        files,
        dev,
        max_nested,
        stack: vec![Src { id: 0, lines: split_lines(main), next_line: 0, cur: None, exp: VecDeque::new(), force_eof: false, open_at_start: 0 }],
        out: vec![],
        groups: vec![],
        conds: vec![],
        v: 'o',
        cat_b: 11,
        cat_b_set_in: 0,
        next_id: 1,
        opened: BTreeMap::new(),
        stats: InputModelStats::default(),
    };
    let end = m.run();
    let mut stats = m.stats;
    if let ModelEnd::TexError(_) = end {
        stats.partial = m.out;
    }
    (end, stats)
}

fn piece_strategy() -> impl Strategy<Value = Piece> {
    prop_oneof![
        8 => (0u8..15).prop_map(Piece::Tag),
        3 => Just(Piece::Space),
        1 => Just(Piece::Open),
        1 => Just(Piece::Close),
        1 => Just(Piece::IfTrue),
        1 => Just(Piece::IfFalse),
        1 => Just(Piece::Else),
        2 => Just(Piece::Fi),
        1 => Just(Piece::Comment),
        3 => (0u8..8).prop_map(Piece::Input),
        1 => (8u8..16).prop_map(Piece::Input),
        2 => (0u8..8).prop_map(Piece::Ld),
        1 => Just(Piece::EndInput),
        // the letter whose category code the programs change
        2 => Just(Piece::Tag(1)),
        1 => (0u8..8).prop_map(Piece::InputRelax),
        1 => (8u8..16).prop_map(Piece::InputRelax),
        1 => (0u8..8).prop_map(Piece::Lr),
        1 => (0u8..8).prop_map(Piece::Ls),
        1 => Just(Piece::Le),
        2 => (0u8..3).prop_map(Piece::SetV),
        2 => Just(Piece::UseV),
        2 => (0u8..3).prop_map(Piece::Cat),
    ]
}

fn file_strategy() -> impl Strategy<Value = FileSpec> {
    let open_end = || prop_oneof![7 => Just(0u8), 1 => Just(1u8), 1 => Just(2u8), 1 => Just(3u8)];
    (proptest::collection::vec(proptest::collection::vec(piece_strategy(), 0..7), 0..6), proptest::bool::weighted(0.7), open_end(), open_end())
        .prop_map(|(lines, final_newline, head, tail)| FileSpec { lines, final_newline, head, tail })
}

fn tree_strategy() -> impl Strategy<Value = TreeCase> {
    proptest::collection::vec(file_strategy(), 1..9).prop_map(|files| TreeCase { files })
}

/// Make a raw piece list well formed: closers only when something is open, so that most
/// cases are programs TeX accepts (raw ones remain: every fifth case by size).
fn well_form(c: &TreeCase) -> TreeCase {
    let total: usize = c.files.iter().map(|f| f.lines.iter().map(|l| l.len()).sum::<usize>()).sum();
    if total % 5 == 4 {
        return c.clone();
    }
    let mut out = c.clone();
    for f in &mut out.files {
        for l in &mut f.lines {
            // per line: drop \else / \fi / } that have no opener on the same line, and close what the
            // line opened, except in one line out of four (files may end inside a group/conditional)
            let keep_open = l.len() % 4 == 1;
            let mut stack: Vec<u8> = vec![];
            let mut nl = vec![];
            for p in l.iter() {
                match p {
                    Piece::Open => {
                        stack.push(0);
                        nl.push(p.clone());
                    }
                    Piece::Close => {
                        if stack.last() == Some(&0) {
                            stack.pop();
                            nl.push(p.clone());
                        }
                    }
                    Piece::IfTrue | Piece::IfFalse => {
                        stack.push(1);
                        nl.push(p.clone());
                    }
                    Piece::Else => {
                        if stack.last() == Some(&1) {
                            *stack.last_mut().unwrap() = 2;
                            nl.push(p.clone());
                        }
                    }
                    Piece::Fi => {
                        if matches!(stack.last(), Some(1) | Some(2)) {
                            stack.pop();
                            nl.push(p.clone());
                        }
                    }
                    Piece::Comment => {
                        // closers after a comment would be swallowed: close first
                        if !keep_open {
                            while let Some(k) = stack.pop() {
                                nl.push(if k == 0 { Piece::Close } else { Piece::Fi });
                            }
                        }
                        nl.push(p.clone());
                    }
                    _ => nl.push(p.clone()),
                }
            }
            if !keep_open {
                while let Some(k) = stack.pop() {
                    nl.push(if k == 0 { Piece::Close } else { Piece::Fi });
                }
            }
            *l = nl;
        }
    }
    out
}

/// Files that may be open below the main source in the randomly generated trees (never reached: the
/// trees have at most 8 files).
const MAX_NESTED: usize = 100;

/// Judge a run against the files-as-lines model; the listed deviation D25 is excused only when the
/// deviating model reproduces the run exactly.
fn judge_input(ctx: &Ctx, files: &BTreeMap<String, String>, main: &str, r: &texvm::RunResult, expected: &[OutTok], note: &str, nontrivial: bool) -> Verdict {
    if r.error.is_none() && r.out == expected {
        return Verdict::pass(nontrivial);
    }
    if ctx.known("flag:endinput_discards_rest_of_line") {
        match run_input_model(files, main, InputDev { endinput_discards_rest_of_line: true }, MAX_NESTED) {
            (ModelEnd::Ok(e2), _) => {
                if r.error.is_none() && r.out == e2 {
                    return Verdict::Known("flag:endinput_discards_rest_of_line".into());
                }
            }
            (ModelEnd::TexError(_), _) => {
                // with the rest of the line gone the program is erroneous (e.g. a \fi whose
                // \iftrue was discarded): the implementation must then report an error
                if r.error.is_some() {
                    return Verdict::Known("flag:endinput_discards_rest_of_line".into());
                }
            }
        }
    }
    Verdict::Fail(format!("output differs from the files-as-lines model\n{}\nexpected: {}\ngot:      {}\nerror:    {:?}", note, texvm::render(expected), texvm::render(&r.out), r.error))
}

fn tree_oracle(ctx: &Ctx, c: &TreeCase, case: &mut Case) -> Verdict {
    let c = well_form(c);
    let n = c.files.len();
    let mut files: BTreeMap<String, String> = BTreeMap::new();
    let mut vm_files = vec![];
    for i in 1..n {
        let text = render_file(&c, i);
        files.insert(file_name(i), text.clone());
        vm_files.push((format!("{}.tex", file_name(i)), text));
    }
    let body = render_file(&c, 0);
    let main = format!("{}{}", PREAMBLE, body);
    let (model, stats) = run_input_model(&files, &main, InputDev::default(), MAX_NESTED);
    let mut note = format!("main (after the preamble of definitions): {:?}", body);
    for (k, v) in &files {
        note.push_str(&format!(" | {}: {:?}", k, v));
    }
    case.note = Some(note.clone());
    // the program is run even when TeX would report an error: a crash still counts
    let opts = VmOptions { files: vm_files, ..Default::default() };
    let r = texvm::run_program(&opts, &main);
    let expected = match model {
        ModelEnd::TexError(_) => {
            // class counters below are recorded for judged cases only
            case.class("tex error");
            return Verdict::Skip("TeX reports an error on this input");
        }
        ModelEnd::Ok(expected) => expected,
    };
    case.class_if(stats.max_depth >= 2, "depth>=2");
    case.class_if(stats.max_depth >= 4, "depth>=4");
    case.class_if(stats.text_after_input, "text after \\input on its line");
    case.class_if(stats.text_after_endinput, "text after \\endinput on its line");
    case.class_if(stats.endinputs > 0, "endinput executed");
    case.class_if(stats.macro_inputs > 0, "\\input from a macro expansion with pending tokens");
    case.class_if(stats.empty_file_inputs > 0, "empty (0-byte) file input");
    case.class_if(stats.blank_line_file_inputs > 0, "file of blank lines only input");
    case.class_if(stats.no_final_newline_inputs > 0, "file without final newline input");
    case.class_if(stats.name_ended_by_relax > 0, "file name ended by \\relax");
    case.class_if(stats.name_ended_by_def > 0, "file name ended by \\def (executed after the file)");
    case.class_if(stats.explicit_extension > 0, "file name with explicit extension");
    case.class_if(stats.name_after_blank > 0, "blank space in front of the file name");
    case.class_if(stats.macro_endinputs > 0, "\\endinput from a macro expansion with pending tokens");
    case.class_if(stats.macro_endinput_with_rest_of_line > 0, "\\endinput from a macro, expansion tokens and rest of line pending");
    case.class_if(stats.files_ended_open > 0, "file ended inside a group or conditional");
    case.class_if(stats.closed_in_other_file > 0, "group or conditional closed in another file than it was opened in");
    case.class_if(stats.else_in_other_file > 0, "\\else in another file than its \\if");
    case.class_if(stats.restored_in_other_file > 0, "group end in another file restores \\v or \\catcode");
    case.class_if(stats.skipped_inputs > 0, "\\input inside skipped conditional text");
    case.class_if(stats.same_file_twice, "same file input twice");
    case.class_if(stats.recoded_b_in_other_file > 0, "character read under a category code set in another file");
    let nontrivial = stats.max_depth >= 2
        || stats.text_after_input
        || stats.text_after_endinput
        || stats.macro_inputs > 0
        || stats.empty_file_inputs > 0
        || stats.name_ended_by_relax > 0
        || stats.name_ended_by_def > 0
        || stats.macro_endinputs > 0
        || stats.closed_in_other_file > 0
        || stats.recoded_b_in_other_file > 0;
    judge_input(ctx, &files, &main, &r, &expected, &note, nontrivial)
}

#[derive(Clone, Debug, Serialize, Deserialize)]
pub struct DepthCase {
    depth: usize,
    trailing: bool,
    /// 0: a chain of `depth` nested files. 1: `reps` \input's of one file, one after the other.
    /// 2: the same, the file stopping itself with \endinput. 3: a chain of `depth` files whose
    /// last-but-one link inputs the last one `reps` times in sequence; the main source walks the chain twice.
    #[serde(default)]
    kind: u8,
    #[serde(default)]
    reps: usize,
}

fn depth_oracle(ctx: &Ctx, c: &DepthCase, case: &mut Case) -> Verdict {
    let mut files: BTreeMap<String, String> = BTreeMap::new();
    fn num_name(i: usize) -> String {
        // letters only (file names are read as letter tokens)
        let mut s = String::new();
        let mut k = i;
        loop {
            s.push((b'a' + (k % 26) as u8) as char);
            k /= 26;
            if k == 0 {
                break;
            }
        }
        s
    }
    let name = |i: usize| format!("d{}", num_name(i));
    // `A\input x B` in one line, or the name ended by the end of the line
    let link = |target: &str, trailing: bool| if trailing { format!("A\\input {} B\n", target) } else { format!("A\\input {}\nB\n", target) };
    let main;
    match c.kind {
        0 => {
            // file i inputs file i+1 in the middle of a line
            for i in 1..=c.depth {
                let text = if i < c.depth { link(&name(i + 1), c.trailing) } else { "Z\n".to_string() };
                files.insert(name(i), text);
            }
            main = format!("\\def\\par{{P}}%\nM\\input {} N%\n", name(1));
            case.note = Some(format!("chain of {} nested files", c.depth));
        }
        1 | 2 => {
            let text = match (c.kind, c.trailing) {
                (1, _) => "Z\n",
                (_, true) => "Z\\endinput Y\nQ\n",
                (_, false) => "Z\\endinput\nQ\n",
            };
            files.insert("fa".into(), text.to_string());
            main = format!("\\def\\par{{P}}%\n{}", link("fa", c.trailing).repeat(c.reps));
            case.note = Some(format!("{} \\input's of {:?} in sequence", c.reps, text));
        }
        _ => {
            for i in 1..=c.depth {
                let text = if i + 1 < c.depth {
                    link(&name(i + 1), c.trailing)
                } else if i < c.depth {
                    link(&name(i + 1), c.trailing).repeat(c.reps)
                } else {
                    "Z\n".to_string()
                };
                files.insert(name(i), text);
            }
            main = format!("\\def\\par{{P}}%\nM\\input {} N%\nM\\input {} N%\n", name(1), name(1));
            case.note = Some(format!("chain of {} nested files walked twice, the innermost file input {} times in sequence", c.depth, c.reps));
        }
    }
    let vm_files: Vec<(String, String)> = files.iter().map(|(k, v)| (format!("{}.tex", k), v.clone())).collect();
    let opts = VmOptions { files: vm_files, budget: 200_000, ..Default::default() };
    let r = texvm::run_program(&opts, &main);
    // The documented limit is "too many input levels (100)". Counting the main source as a level (as
    // TeX's in_open does) 99 files may be open below it, not counting it 100: both readings are accepted,
    // but whichever \input is refused, everything in front of it must have been delivered exactly.
    let mut first_expected = None;
    for (max_nested, class) in [(99usize, "limit: the 100th nested \\input is refused"), (100usize, "limit: the 100th nested \\input is accepted, the 101st refused")] {
        let (model, stats) = run_input_model(&files, &main, InputDev::default(), max_nested);
        match model {
            ModelEnd::Ok(expected) => {
                // below the limit under this reading
                let v = judge_input(ctx, &files, &main, &r, &expected, case.note.as_deref().unwrap_or(""), true);
                if !matches!(v, Verdict::Fail(_)) {
                    case.class_if(c.depth >= 100, class);
                    case.class_if(stats.inputs > 100, "more than 100 \\input's executed in one run");
                    return v;
                }
                if first_expected.is_none() {
                    first_expected = Some(format!("complete output {}", texvm::render(&expected)));
                }
            }
            ModelEnd::TexError(e) if e == TOO_MANY_LEVELS => {
                let refused = r.error.as_deref().map(|t| t.contains("too many input levels")).unwrap_or(false);
                if refused && r.out == stats.partial {
                    case.class(class);
                    return Verdict::pass(true);
                }
                if first_expected.is_none() {
                    first_expected = Some(format!("the error \"too many input levels\" after the output {}", texvm::render(&stats.partial)));
                }
            }
            ModelEnd::TexError(e) => return Verdict::Fail(format!("depth probe is not a valid program for the model: {}", e)),
        }
    }
    Verdict::Fail(format!(
        "{}: expected {} (or the same with the limit one level later), got {} with error {:?}",
        case.note.clone().unwrap_or_default(),
        first_expected.unwrap_or_default(),
        texvm::render(&r.out),
        r.error
    ))
}

// ------------------------------------------------------------------------------------
// \openin / \read / \ifeof / \closein

#[derive(Clone, Debug, Serialize, Deserialize)]
pub enum ROp {
    /// stream selector, file: `f % 6` = index (beyond the list: a file that does not exist), `f >= 6` = no `=`
    OpenIn(u8, u8),
    /// `n % 4` stream selector; `n / 4 % 2 == 1`: the target is the active character `~` instead of `\\x`;
    /// `n / 8 % 2 == 1`: the \\read stands in a group of its own (the definition is local);
    /// `n / 16 % 2 == 1`: stream number outside 0..15 (-1 or 16: the terminal)
    Read(u8),
    IfEof(u8),
    CloseIn(u8),
}

#[derive(Clone, Debug, Serialize, Deserialize)]
pub struct ReadCase {
    pub files: Vec<Vec<Vec<RPiece>>>, // file -> lines -> pieces
    pub final_newline: Vec<bool>,
    pub terminal: Vec<Vec<RPiece>>,
    pub ops: Vec<ROp>,
    /// the four stream numbers (of 0..15) the selectors 0..3 stand for; empty = 0, 1, 2, 3
    #[serde(default)]
    pub stream_map: Vec<u8>,
}

#[derive(Clone, Debug, Serialize, Deserialize)]
pub enum RPiece {
    Tag(u8),
    Space,
    Open,
    Close,
    Comment,
    Cs(u8),
    /// a character of another category: `#` (6), `~` (13), `$` (3), `&` (4), `_` (8)
    Special(u8),
    /// `{X{Y}`: a group that closes on this line inside a group that stays open
    Nest(u8, u8),
}

fn render_rline(l: &[RPiece]) -> String {
    let mut s = String::new();
    for p in l {
        match p {
            RPiece::Tag(t) => s.push((b'A' + (t % 15)) as char),
            RPiece::Space => s.push(' '),
            RPiece::Open => s.push('{'),
            RPiece::Close => s.push('}'),
            RPiece::Comment => s.push('%'),
            RPiece::Cs(k) => s.push_str(["\\a ", "\\bc ", "\\!", "\\ "][(*k % 4) as usize]),
            RPiece::Special(k) => s.push(['#', '~', '$', '&', '_'][(*k % 5) as usize]),
            RPiece::Nest(a, b) => {
                s.push('{');
                s.push((b'A' + (a % 15)) as char);
                s.push('{');
                s.push((b'A' + (b % 15)) as char);
                s.push('}');
            }
        }
    }
    s
}

#[derive(Clone, Copy, Default)]
pub struct ReadDev {
    /// the stream is closed as soon as its last real line has been read, and reading at the end
    /// of the file delivers no tokens (D26)
    pub ifeof_true_after_last_real_line: bool,
}

enum Stream {
    Closed,
    Open { lines: Vec<String>, pos: usize },
}

fn tok_out(t: &Tok) -> OutTok {
    match t {
        Tok::L(c) => OutTok::Ch(*c, 11),
        Tok::Other('#') => OutTok::Ch('#', 6),
        Tok::Other('$') => OutTok::Ch('$', 3),
        Tok::Other('&') => OutTok::Ch('&', 4),
        Tok::Other('_') => OutTok::Ch('_', 8),
        Tok::Other('~') => OutTok::Active('~'),
        Tok::Other(c) => OutTok::Ch(*c, 12),
        Tok::Sp => OutTok::Ch(' ', 10),
        Tok::Open => OutTok::Ch('{', 1),
        Tok::Close => OutTok::Ch('}', 2),
        Tok::Cs(n) => OutTok::Cs(n.clone()),
    }
}

pub struct ReadBuilt {
    pub program: String,
    pub expected: Vec<OutTok>,
    /// Some(reason) when TeX reports an error at some point; `expected` is valid up to there
    pub tex_error: Option<&'static str>,
    pub multi_line_read: bool,
    pub read_at_eof: bool,
    pub terminal_reads: usize,
    pub file_reads: usize,
    /// a \\read went on to a further line after an inner group had closed with the outer one still open
    pub nested_group_spans_lines: usize,
    pub hash_in_body: usize,
    pub active_target: usize,
    pub local_reads: usize,
    pub out_of_range_reads: usize,
    pub high_streams: usize,
    pub two_digit_file_reads: usize,
    pub openin_without_equals: usize,
    pub stream_15_file_reads: usize,
}

pub fn build_read(c: &ReadCase, dev: ReadDev) -> (ReadBuilt, Vec<(String, String)>, Vec<String>) {
    let mut vm_files = vec![];
    let mut contents: Vec<String> = vec![];
    for (i, f) in c.files.iter().enumerate() {
        let mut s = String::new();
        for (li, l) in f.iter().enumerate() {
            s.push_str(&render_rline(l));
            if li + 1 < f.len() || c.final_newline.get(i).copied().unwrap_or(true) {
                s.push('\n');
            }
        }
        vm_files.push((format!("{}.tex", file_name(i)), s.clone()));
        contents.push(s);
    }
    let terminal: Vec<String> = c.terminal.iter().map(|l| render_rline(l)).collect();
    let mut term_pos = 0usize;
    let mut streams: Vec<Stream> = (0..17).map(|_| Stream::Closed).collect();
    let mut b = ReadBuilt {
        program: "\\def\\x{o}\\def~{t}".to_string(),
        expected: vec![],
        tex_error: None,
        multi_line_read: false,
        read_at_eof: false,
        terminal_reads: 0,
        file_reads: 0,
        nested_group_spans_lines: 0,
        hash_in_body: 0,
        active_target: 0,
        local_reads: 0,
        out_of_range_reads: 0,
        high_streams: 0,
        two_digit_file_reads: 0,
        openin_without_equals: 0,
        stream_15_file_reads: 0,
    };
    let semi = OutTok::Ch(';', 12);
    let smap: Vec<usize> = if c.stream_map.len() == 4 { c.stream_map.iter().map(|x| (*x % 16) as usize).collect() } else { vec![0, 1, 2, 3] };
    // current meanings of the two targets
    let mut bodies: [Vec<Tok>; 2] = [vec![Tok::L('o')], vec![Tok::L('t')]];
    'ops: for op in &c.ops {
        match op {
            ROp::OpenIn(n, f) => {
                let n = smap[(*n % 4) as usize];
                // index beyond the file list = a file that does not exist
                let fi = (*f as usize % 6) % (c.files.len() + 1);
                if *f >= 6 {
                    b.openin_without_equals += 1;
                    b.program.push_str(&format!("\\openin{} {} ", n, file_name(fi)));
                } else {
                    b.program.push_str(&format!("\\openin{}={} ", n, file_name(fi)));
                }
                if n >= 4 {
                    b.high_streams += 1;
                }
                streams[n] = if fi < c.files.len() {
                    let mut lines = split_lines(&contents[fi]);
                    if dev.ifeof_true_after_last_real_line && lines.is_empty() {
                        // the implementation appends a newline to a file that does not end in one,
                        // so an empty file is one empty line
                        lines.push(String::new());
                    }
                    Stream::Open { lines, pos: 0 }
                } else {
                    Stream::Closed
                };
            }
            ROp::CloseIn(n) => {
                let n = smap[(*n % 4) as usize];
                b.program.push_str(&format!("\\closein{} ", n));
                streams[n] = Stream::Closed;
            }
            ROp::IfEof(n) => {
                let n = smap[(*n % 4) as usize];
                b.program.push_str(&format!("\\ifeof{} T\\else F\\fi;", n));
                let closed = matches!(streams[n], Stream::Closed);
                b.expected.push(OutTok::Ch(if closed { 'T' } else { 'F' }, 11));
                b.expected.push(semi.clone());
            }
            ROp::Read(code) => {
                let target = (*code / 4 % 2) as usize;
                let local = *code / 8 % 2 == 1;
                let out_of_range = *code / 16 % 2 == 1;
                // slot 16 is never opened: a stream number outside 0..15 means the terminal (TeX 482-484)
                let (n, number) = if out_of_range {
                    (16usize, if *code % 2 == 0 { "-1".to_string() } else { "16".to_string() })
                } else {
                    let n = smap[(*code % 4) as usize];
                    (n, n.to_string())
                };
                let tname = ["\\x ", "~"][target];
                b.program.push_str(&format!("{}\\read{} to{}{}\\expandafter\\vpcapture{}\\vpstop;", if local { "{" } else { "" }, number, tname, if local { "}" } else { "" }, tname));
                b.active_target += target;
                b.local_reads += local as usize;
                b.out_of_range_reads += out_of_range as usize;
                let mut body: Vec<Tok> = vec![];
                let mut depth = 0i64;
                let mut nlines = 0;
                let mut inner_closed = false;
                let from_file = matches!(streams[n], Stream::Open { .. });
                if from_file && n >= 10 {
                    b.two_digit_file_reads += 1;
                }
                if from_file && n == 15 {
                    b.stream_15_file_reads += 1;
                }
                if n >= 4 && n < 16 {
                    b.high_streams += 1;
                }
                if from_file {
                    b.file_reads += 1;
                } else {
                    b.terminal_reads += 1;
                }
                loop {
                    // fetch a line
                    let line: String = match &mut streams[n] {
                        Stream::Open { lines, pos } => {
                            if *pos < lines.len() {
                                let l = lines[*pos].clone();
                                *pos += 1;
                                if dev.ifeof_true_after_last_real_line && *pos >= lines.len() {
                                    // closes as soon as the last real line is consumed
                                    let l2 = l.clone();
                                    streams[n] = Stream::Closed;
                                    l2
                                } else {
                                    l
                                }
                            } else {
                                // input_ln fails: the stream closes and an empty line is read
                                streams[n] = Stream::Closed;
                                b.read_at_eof = true;
                                if depth != 0 {
                                    b.tex_error = Some("file ended within \\read");
                                    break 'ops;
                                }
                                if dev.ifeof_true_after_last_real_line {
                                    // no tokens at all
                                    break;
                                }
                                String::new()
                            }
                        }
                        Stream::Closed => {
                            if from_file {
                                // a multi-line group hit the end of the file after the stream closed
                                b.tex_error = Some("file ended within \\read");
                                break 'ops;
                            }
                            if term_pos < terminal.len() {
                                term_pos += 1;
                                terminal[term_pos - 1].clone()
                            } else {
                                b.tex_error = Some("terminal input exhausted");
                                break 'ops;
                            }
                        }
                    };
                    nlines += 1;
                    let toks = lex_line(&line);
                    let mut aborted = false;
                    for t in toks {
                        match t {
                            Tok::Open => depth += 1,
                            Tok::Close => {
                                if depth == 0 {
                                    // unmatched }: the rest of the line is dropped
                                    aborted = true;
                                    break;
                                }
                                depth -= 1;
                                if depth >= 1 {
                                    inner_closed = true;
                                }
                            }
                            Tok::Other('#') => b.hash_in_body += 1,
                            _ => {}
                        }
                        body.push(t);
                    }
                    if aborted || depth == 0 {
                        break;
                    }
                    if inner_closed {
                        b.nested_group_spans_lines += 1;
                    }
                }
                if nlines >= 2 {
                    b.multi_line_read = true;
                }
                if !local {
                    bodies[target] = body;
                }
                // a definition made inside a group is gone after the group: the old meaning shows
                b.expected.extend(bodies[target].iter().map(tok_out));
                b.expected.push(semi.clone());
            }
        }
    }
    b.program.push('%');
    (b, vm_files, terminal)
}

fn rpiece_strategy() -> impl Strategy<Value = RPiece> {
    prop_oneof![
        8 => (0u8..15).prop_map(RPiece::Tag),
        3 => Just(RPiece::Space),
        2 => Just(RPiece::Open),
        2 => Just(RPiece::Close),
        1 => Just(RPiece::Comment),
        2 => (0u8..4).prop_map(RPiece::Cs),
        2 => (0u8..5).prop_map(RPiece::Special),
        1 => Just(RPiece::Special(0)),
        1 => (0u8..15, 0u8..15).prop_map(|(a, b)| RPiece::Nest(a, b)),
    ]
}

fn rline_strategy() -> impl Strategy<Value = Vec<RPiece>> {
    proptest::collection::vec(rpiece_strategy(), 0..7)
}

fn read_case_strategy() -> impl Strategy<Value = ReadCase> {
    let stream = || prop_oneof![5 => 0u8..2, 1 => 2u8..4];
    // stream selector + 4 * (target ~) + 8 * (read in a group) + 16 * (stream number out of range)
    let read_code = || (stream(), proptest::bool::weighted(0.3), proptest::bool::weighted(0.15), proptest::bool::weighted(0.06)).prop_map(|(n, t, l, o)| n + 4 * t as u8 + 8 * l as u8 + 16 * o as u8);
    let op = prop_oneof![
        2 => (stream(), 0u8..6, proptest::bool::weighted(0.3)).prop_map(|(n, f, noeq)| ROp::OpenIn(n, f + 6 * noeq as u8)),
        8 => read_code().prop_map(ROp::Read),
        5 => stream().prop_map(ROp::IfEof),
        1 => stream().prop_map(ROp::CloseIn),
    ];
    (
        proptest::collection::vec(proptest::collection::vec(rline_strategy(), 0..5), 1..4),
        proptest::collection::vec(proptest::bool::weighted(0.7), 4),
        proptest::collection::vec(rline_strategy(), 0..9),
        proptest::collection::vec(op, 1..14),
        (0u8..6, 0u8..6),
        (0u8..16, 0u8..15, 0u8..14, 0u8..13),
    )
        .prop_map(|(files, final_newline, terminal, mut ops, (f0, f1), (a, b, c, d))| {
            // streams 0 and 1 start open (mostly on existing files) so that reads reach files
            ops.insert(0, ROp::OpenIn(0, f0));
            ops.insert(1, ROp::OpenIn(1, f1));
            // four distinct stream numbers out of the sixteen
            let mut pool: Vec<u8> = (0..16).collect();
            let stream_map = vec![pool.remove(a as usize), pool.remove(b as usize), pool.remove(c as usize), pool.remove(d as usize)];
            ReadCase { files, final_newline, terminal, ops, stream_map }
        })
}

/// Balance braces inside each file (most cases), keep raw ones (every fifth by size).
fn well_form_read(c: &ReadCase) -> ReadCase {
    let total: usize = c.files.iter().map(|f| f.iter().map(|l| l.len()).sum::<usize>()).sum();
    if total % 5 == 4 {
        return c.clone();
    }
    let mut out = c.clone();
    let fix = |lines: &mut Vec<Vec<RPiece>>| {
        let mut depth = 0i64;
        let nl = lines.len();
        for (li, l) in lines.iter_mut().enumerate() {
            let mut v = vec![];
            for p in l.iter() {
                match p {
                    RPiece::Open | RPiece::Nest(_, _) => {
                        depth += 1;
                        v.push(p.clone());
                    }
                    RPiece::Close => {
                        // keep an occasional unmatched } (aborts the line in TeX)
                        if depth > 0 {
                            depth -= 1;
                            v.push(p.clone());
                        } else if l.len() % 3 == 0 {
                            v.push(p.clone());
                        }
                    }
                    RPiece::Comment => {
                        if li + 1 == nl {
                            while depth > 0 {
                                v.push(RPiece::Close);
                                depth -= 1;
                            }
                        }
                        v.push(p.clone());
                    }
                    _ => v.push(p.clone()),
                }
            }
            if li + 1 == nl {
                while depth > 0 {
                    v.push(RPiece::Close);
                    depth -= 1;
                }
            }
            *l = v;
        }
    };
    for f in &mut out.files {
        fix(f);
    }
    fix(&mut out.terminal);
    out
}

fn read_oracle(ctx: &Ctx, c: &ReadCase, case: &mut Case) -> Verdict {
    let c = well_form_read(c);
    let (b, vm_files, terminal) = build_read(&c, ReadDev::default());
    let note = format!("program: {} | files: {:?} | terminal: {:?}", b.program, vm_files, terminal);
    case.note = Some(note.clone());
    // a real terminal line ends with a newline (std::io::Stdin::read_line keeps it)
    let opts = VmOptions { files: vm_files.clone(), terminal: terminal.iter().map(|l| format!("{}\n", l)).collect(), ..Default::default() };
    // the program is run even when TeX would report an error: a crash still counts
    let r = texvm::run_program(&opts, &b.program);
    if b.tex_error.is_some() {
        // class counters below are recorded for judged cases only
        case.class("tex error");
        return Verdict::Skip("TeX reports an error on this input");
    }
    case.class_if(b.multi_line_read, "read spans lines");
    case.class_if(b.read_at_eof, "read at end of file");
    case.class_if(b.terminal_reads > 0, "terminal read");
    case.class_if(b.file_reads >= 2, ">=2 file reads");
    case.class_if(b.nested_group_spans_lines > 0, "read goes on to another line after an inner group closed inside an open outer group");
    case.class_if(b.hash_in_body > 0, "# in the body of a read");
    case.class_if(b.active_target > 0, "read to an active character");
    case.class_if(b.local_reads > 0, "read inside a group (local definition)");
    case.class_if(b.out_of_range_reads > 0, "read with a stream number outside 0..15");
    case.class_if(b.high_streams > 0, "stream number 4..15 used");
    case.class_if(b.two_digit_file_reads > 0, "file read on a two-digit stream number");
    case.class_if(b.openin_without_equals > 0, "\\openin without =");
    case.class_if(b.stream_15_file_reads > 0, "file read on stream 15");
    let nontrivial = b.multi_line_read || b.read_at_eof || b.file_reads >= 2;
    if r.error.is_none() && r.out == b.expected {
        return Verdict::pass(nontrivial);
    }
    if ctx.known("flag:ifeof_true_after_last_real_line") {
        let (b2, _, _) = build_read(&c, ReadDev { ifeof_true_after_last_real_line: true });
        if b2.tex_error.is_none() && r.error.is_none() && r.out == b2.expected {
            return Verdict::Known("flag:ifeof_true_after_last_real_line".into());
        }
        if b2.tex_error.is_some() {
            // under the listed deviation the script runs out of terminal lines earlier: the run
            // must agree up to that point and then end with the terminal error
            if r.error.is_some() && r.out == b2.expected {
                return Verdict::Known("flag:ifeof_true_after_last_real_line".into());
            }
        }
    }
    Verdict::Fail(format!("\\read/\\ifeof differ from TeX's model\n{}\nexpected: {}\ngot:      {}\nerror:    {:?}", note, texvm::render(&b.expected), texvm::render(&r.out), r.error))
}

pub fn run(ctx: &Ctx) {
    ctx.rule("input trees: 1-8 in-memory files (0-5 lines each, with/without final newline, empty files, files ending inside groups/conditionals that the parent finishes and files finishing what the parent opened) over tags, blanks, braces, \\iftrue/\\iffalse/\\else/\\fi, comments, blank lines (\\par defined as a tag), \\input (name ended by a blank, the line end or \\relax; issued directly or by a macro with tokens pending behind it, also with a blank in front of the name) and \\endinput (literal or issued by a macro with tokens pending) at any position of a line, a scoped definition (\\v) and scoped \\catcode changes of the letter B (letter/other/ignored); the typeset tokens (character + category code) are compared with a small TeX interpreter (lazy line scanner + source stack + conditional skipping + group save stack) that treats files as lines standing in place; plus nesting-depth probes (chains up to 150, exactly 100, >100 \\input's in sequence with and without \\endinput, sequential \\input's at depth 99). read: scripts of \\openin/\\read/\\ifeof/\\closein over 4 of the 16 streams (any four), files with balanced and unbalanced line groups (nested groups that close while the outer group spans lines), characters of categories 3,4,6,8,13 in the lines, targets \\x and the active character ~, reads inside a group, stream numbers outside 0..15, scripted terminal; the macro body defined by each \\read (captured unexpanded) and every \\ifeof must equal TeX's read_toks model. non-trivial = nesting depth>=2, text after \\input/\\endinput on its line, an empty file, a name ended by \\relax, a macro-issued \\input/\\endinput, a group/conditional closed in another file, or a character read under a category code set in another file; for read: a read spanning lines, a read at end of file, or >=2 reads of one file; distinct by rendered case");
    ctx.assume("\\input after \\endinput on the same line is not generated (TeX's global force_eof closes the nested file after its first line)");
    ctx.assume("inputs on which TeX itself reports an error (extra }, \\else, \\fi; a file ending while conditional text is skipped; unbalanced \\read at end of file; exhausted terminal) are skipped and counted");
    ctx.assume("a file name is followed on its own line by a blank, the line end or \\relax (a name running into the next line, other expandable tokens inside a name are not generated)");
    ctx.assume("the documented limit \"too many input levels (100)\" is read as: at least 99 files can be open below the main source and at most 100; the 100th nested \\input may be refused (main source counted as a level, as TeX's in_open does) or accepted, the 101st must be refused, and everything in front of the refused \\input must have been delivered exactly");
    let n = ctx.tier.pick(250_000u64, 3_000_000u64);
    run_generated(ctx, "input_tree", n, tree_strategy, |c: &TreeCase, case| tree_oracle(ctx, c, case));
    let mut depths: Vec<DepthCase> = [1usize, 2, 5, 50, 90, 98, 99, 100, 101, 102, 150].iter().flat_map(|d| [DepthCase { depth: *d, trailing: true, kind: 0, reps: 0 }, DepthCase { depth: *d, trailing: false, kind: 0, reps: 0 }]).collect();
    for trailing in [true, false] {
        // more than 100 \input's one after the other: levels must be given back when a file ends
        depths.push(DepthCase { depth: 1, trailing, kind: 1, reps: 150 });
        depths.push(DepthCase { depth: 1, trailing, kind: 2, reps: 150 });
        depths.push(DepthCase { depth: 99, trailing, kind: 3, reps: 5 });
        depths.push(DepthCase { depth: 50, trailing, kind: 3, reps: 120 });
    }
    run_list(ctx, "input_depth", depths, |c: &DepthCase, case| depth_oracle(ctx, c, case));
    let n = ctx.tier.pick(250_000u64, 3_000_000u64);
    run_generated(ctx, "read_streams", n, read_case_strategy, |c: &ReadCase, case| read_oracle(ctx, c, case));
}
