//! C07 Conditionals deliver only the selected branch; \expandafter acts on one token.

use crate::engine::*;
use crate::texvm::{self, OutTok, VmOptions};
use proptest::prelude::*;
use serde::{Deserialize, Serialize};

// ------------------------------------------------------------------------------------
// Conditionals

#[derive(Clone, Debug, Serialize, Deserialize)]
pub enum Operand {
    Const(i32),
    /// `\count1` .. `\count3` (values set in the preamble from `regs`)
    Reg(u8),
    /// `\vpna` .. `\vpnc`: macros whose replacement text is the decimal value of `regs[i]`
    Mac(u8),
}

#[derive(Clone, Copy, Debug, Serialize, Deserialize)]
pub enum Rel {
    Lt,
    Eq,
    Gt,
}

#[derive(Clone, Debug, Serialize, Deserialize)]
pub enum CondKind {
    IfTrue,
    IfFalse,
    IfNum(Operand, Rel, Operand),
    IfOdd(Operand),
    IfCase(Operand),
}

#[derive(Clone, Debug, Serialize, Deserialize)]
pub enum Node {
    /// a unique literal; rendered as three letters
    Tag,
    /// a balanced group around live material
    Group(Vec<Node>),
    Cond {
        kind: CondKind,
        /// for \ifcase: the cases; otherwise exactly one "true" branch
        branches: Vec<Vec<Node>>,
        else_: Option<Vec<Node>>,
        /// how the if / else / or / fi tokens are written: 0 = the primitive's own name, 1 = a control
        /// sequence \let equal to it, 2 = an active character \let equal to it, 3 = a macro whose
        /// replacement text is the primitive (only where the token is reached by expansion, i.e. at the
        /// end of delivered text; elsewhere it is written like 1)
        alias: (u8, u8, u8, u8),
        /// how the (last) operand of \ifnum / \ifodd / \ifcase ends: 0 = `\relax `, 1 = one space,
        /// 2 = nothing: the number runs into whatever follows (branch text, a nested conditional,
        /// or this conditional's own \else / \or / \fi - TeX.2021.510 inserts a \relax there)
        #[serde(default)]
        term: u8,
        /// \ifnum only, between the first operand and the relation: 0 = nothing, 1 = one space,
        /// 2 = two macros that expand to a space
        #[serde(default)]
        pre_rel: u8,
    },
    /// rendered only inside skipped text
    JunkOpen,
    JunkClose,
    JunkUndefined,
    /// rendered only inside skipped text, at nesting depth >= 1 below the skipping conditional or at
    /// depth 0 of text skipped after a delivered branch (by a live \else or \or)
    JunkOr,
    /// a complete dummy conditional rendered only in skipped text: \iftrue \else \else \fi
    JunkElseFi,
    /// a character of category 12
    Dot,
    /// a character of category 12 followed by a space token
    DotSpace,
    /// a surplus \else; rendered where JunkOr is
    JunkElse,
    /// rendered only inside skipped text: a primitive other than the conditional ones that carries a
    /// command tag in the implementation (\noexpand, \global, \def ...) or a few other primitives
    JunkTagged(u8),
    /// a complete \ifeof conditional, rendered only in skipped text
    JunkIfEof,
    /// rendered only inside skipped text: a macro whose replacement text is \fi / \else / \or /
    /// \iftrue (not a conditional token for the purpose of skipping)
    JunkMacro(u8),
    /// rendered only inside skipped text of a case with `rebind_fi`: the control sequence \fi, which
    /// then is a macro and no longer the primitive
    JunkStaleFi,
}

#[derive(Clone, Debug, Serialize, Deserialize)]
pub struct CondCase {
    pub regs: [i32; 3],
    pub body: Vec<Node>,
    /// 0 = the program is read from the source line. Otherwise an initial part of the body is put
    /// into a macro and delivered by calling it: 1 = the longest brace-balanced part (usually all of
    /// it), n >= 2 selects one of the token boundaries recorded by the renderer.
    #[serde(default)]
    pub wrap: u16,
    /// `\def\fi{zz}` in the preamble; the conditionals then use \myfi
    #[serde(default)]
    pub rebind_fi: bool,
}

const COND_PREAMBLE: &str = "\\catcode`\\@=13 \\catcode`\\?=13 \\catcode`\\&=13 \\catcode`\\_=13 \\catcode`\\;=13 \\catcode`\\|=13 \\catcode`\\!=13 \\catcode`\\~=13 \\let@=\\iftrue \\let?=\\iffalse \\let&=\\ifnum \\let_=\\ifodd \\let;=\\ifcase \\let|=\\else \\let!=\\or \\let~=\\fi \\let\\myiftrue=\\iftrue \\let\\myiffalse=\\iffalse \\let\\myifnum=\\ifnum \\let\\myifodd=\\ifodd \\let\\myifcase=\\ifcase \\let\\myelse=\\else \\let\\myor=\\or \\let\\myfi=\\fi \\def\\vpiftrue{\\iftrue}\\def\\vpiffalse{\\iffalse}\\def\\vpifnum{\\ifnum}\\def\\vpifodd{\\ifodd}\\def\\vpifcase{\\ifcase}\\def\\vpelse{\\else}\\def\\vpor{\\or}\\def\\vpfi{\\fi}\\def\\vpsp{ }";

const TAGGED_JUNK: [&str; 14] = ["\\noexpand ", "\\global ", "\\long ", "\\outer ", "\\def ", "\\gdef ", "\\let ", "\\advance ", "\\countdef ", "\\expandafter ", "\\the ", "\\relax ", "\\multiply ", "\\catcode "];
const MACRO_JUNK: [&str; 4] = ["\\vpfi ", "\\vpelse ", "\\vpor ", "\\vpiftrue "];

#[derive(Default)]
struct Render {
    text: String,
    expected: String,
    next_tag: usize,
    max_depth: usize,
    interesting_operand: bool,
    alias_in_skipped: bool,
    active_alias_in_skipped: bool,
    rebind_fi: bool,
    /// bit per kind of junk rendered in skipped text
    junk: u32,
    /// surplus \else / \or at depth 0 of text skipped after a delivered branch
    extra_else_or_after_live: bool,
    macro_spelling_live: bool,
    /// positions behind unterminated evaluated operands whose conditional does not select branch 0
    false_after: Vec<usize>,
    /// (byte position in `text`, live) right behind every unterminated operand
    unterminated: Vec<(usize, bool)>,
    space_ended: bool,
    expandafter_terminated: bool,
    mac_operand_live: bool,
    blank_before_relation: bool,
    /// \ifcase selecting case >= 1 with a nested \ifcase in an earlier (skipped) case
    nested_ifcase_skipped_by_ifcase: bool,
    cond_after_live: bool,
    opposite_extremes: bool,
    /// token boundaries where the text may be split into macro body and source text:
    /// (byte position, live)
    splits: Vec<(usize, bool)>,
    brace_depth: i32,
    brace_negative: bool,
}

const J_OPEN: u32 = 1;
const J_CLOSE: u32 = 2;
const J_UNDEF: u32 = 4;
const J_OR: u32 = 8;
const J_ELSEFI: u32 = 16;
const J_ELSE: u32 = 32;
const J_TAGGED: u32 = 64;
const J_IFEOF: u32 = 128;
const J_MACRO: u32 = 256;
const J_STALE: u32 = 512;

fn tag_text(i: usize) -> String {
    let a = (b'a' + (i / 26 % 26) as u8) as char;
    let b = (b'a' + (i % 26) as u8) as char;
    let c = (b'a' + (i / 676 % 26) as u8) as char;
    format!("{}{}{}", c, a, b)
}

#[derive(Clone, Copy, Default)]
pub struct Deviations {
    /// \ifodd is false for negative odd numbers (D4)
    pub ifodd_false_for_negative: bool,
}

fn clamp(v: i32) -> i32 {
    if v == i32::MIN {
        i32::MIN + 1
    } else {
        v
    }
}

/// How text is being passed over: delivered, skipped by the conditional's own \if... (which is looking
/// for its \else / \or / \fi), or skipped after a delivered branch (by a live \else or \or, which
/// only looks for the \fi).
#[derive(Clone, Copy, PartialEq)]
enum Mode {
    Live,
    SkippedByIf,
    SkippedAfterLive,
}

fn operand_value(o: &Operand, regs: &[i32; 3]) -> i64 {
    match o {
        Operand::Const(v) => clamp(*v) as i64,
        Operand::Reg(r) | Operand::Mac(r) => clamp(regs[(*r % 3) as usize]) as i64,
    }
}

/// The branch a conditional selects: index into `branches`, None = the \else part (or nothing).
fn select(kind: &CondKind, regs: &[i32; 3], n_branches: usize, dev: Deviations) -> Option<usize> {
    let yes = match kind {
        CondKind::IfTrue => true,
        CondKind::IfFalse => false,
        CondKind::IfNum(a, rel, b) => {
            let (av, bv) = (operand_value(a, regs), operand_value(b, regs));
            match rel {
                Rel::Lt => av < bv,
                Rel::Eq => av == bv,
                Rel::Gt => av > bv,
            }
        }
        CondKind::IfOdd(a) => {
            let av = operand_value(a, regs);
            if dev.ifodd_false_for_negative {
                av % 2 == 1
            } else {
                av.rem_euclid(2) == 1
            }
        }
        CondKind::IfCase(a) => {
            let av = operand_value(a, regs);
            return if av >= 0 && (av as usize) < n_branches { Some(av as usize) } else { None };
        }
    };
    if yes {
        Some(0)
    } else {
        None
    }
}

/// Text that is about to be skipped by its conditional's own \if..., but follows an unterminated
/// operand and so is first scanned with expansion for more digits. Some(true): the scan certainly
/// stops at an unexpandable token (a letter, another character, a brace) and all that was expanded on
/// the way are complete or begun conditionals made of plain text only, which TeX then skips over
/// correctly (TeX.2021.500). Some(false): something else would be expanded. None: these nodes are
/// passed without the scan stopping (what follows them decides).
fn scan_stops(ns: &[Node], regs: &[i32; 3], rebind_fi: bool, dev: Deviations) -> Option<bool> {
    let plain = |ns: &[Node]| ns.iter().all(|n| matches!(n, Node::Tag | Node::Dot | Node::DotSpace));
    for n in ns {
        match n {
            Node::Tag | Node::Dot | Node::DotSpace | Node::JunkOpen | Node::JunkClose => return Some(true),
            // (no braces are written around skipped groups)
            Node::Group(inner) => {
                if let Some(r) = scan_stops(inner, regs, rebind_fi, dev) {
                    return Some(r);
                }
            }
            // not written at depth 0 of text skipped by the \if... itself
            Node::JunkOr | Node::JunkElse => {}
            Node::JunkStaleFi if !rebind_fi => {}
            Node::Cond { kind, branches, else_, .. } if branches.iter().all(|b| plain(b)) && else_.as_ref().map_or(true, |e| plain(e)) => {
                let nb = if matches!(kind, CondKind::IfCase(_)) { branches.len() } else { 1 };
                let delivered = match select(kind, regs, nb, dev) {
                    Some(i) => branches.get(i).map(|b| b.len()).unwrap_or(0),
                    None => else_.as_ref().map(|e| e.len()).unwrap_or(0),
                };
                if delivered > 0 {
                    return Some(true);
                }
            }
            _ => return Some(false),
        }
    }
    None
}

impl Render {
    fn open(&mut self) {
        self.text.push('{');
        self.brace_depth += 1;
    }
    fn close(&mut self) {
        self.text.push('}');
        self.brace_depth -= 1;
        if self.brace_depth < 0 {
            self.brace_negative = true;
        }
    }
    /// A token boundary at which the text rendered so far is brace-balanced.
    fn split_point(&mut self, live: bool) {
        if self.brace_depth == 0 && !self.brace_negative && !self.text.is_empty() {
            self.splits.push((self.text.len(), live));
        }
    }

    fn operand(&mut self, o: &Operand, regs: &[i32; 3], live: bool) -> i64 {
        match o {
            Operand::Const(v) => {
                let v = clamp(*v);
                self.text.push_str(&format!("{}", v));
                v as i64
            }
            Operand::Reg(r) => {
                let r = (*r % 3) as usize;
                self.text.push_str(&format!("\\count{}", r + 1));
                clamp(regs[r]) as i64
            }
            Operand::Mac(r) => {
                let r = (*r % 3) as usize;
                // the space belongs to the control word
                self.text.push_str(["\\vpna ", "\\vpnb ", "\\vpnc "][r]);
                self.mac_operand_live |= live;
                clamp(regs[r]) as i64
            }
        }
    }

    /// `branch0`: the conditional selects its first branch
    fn terminator(&mut self, term: u8, live: bool, branch0: bool) {
        match term {
            0 => self.text.push_str("\\relax "),
            // (behind a control word the space is not a token; the operand is then unterminated)
            1 if !self.text.ends_with(' ') => {
                self.text.push(' ');
                self.space_ended |= live;
            }
            _ => {
                if term == 3 {
                    // the number scanner expands \expandafter, which expands the token after \relax once
                    // (this conditional's own \else / \or / \fi stays put, TeX.2021.510); the number then
                    // ends at the \relax. For what follows this is the unterminated case.
                    self.text.push_str("\\expandafter\\relax ");
                    self.expandafter_terminated |= live;
                }
                self.unterminated.push((self.text.len(), live));
                if live && !branch0 {
                    self.false_after.push(self.text.len());
                }
            }
        }
        self.split_point(live);
    }

    /// `mode`: how this text is passed over; `skip_depth`: nesting depth of conditionals below the
    /// conditional that is doing the skipping (0 when live).
    fn nodes(&mut self, ns: &[Node], regs: &[i32; 3], mode: Mode, skip_depth: usize, depth: usize, dev: Deviations) {
        let live = mode == Mode::Live;
        // surplus \else and \or are legal in skipped text except where the skipping conditional would take them as its own
        let extra_ok = !live && (skip_depth >= 1 || mode == Mode::SkippedAfterLive);
        for n in ns {
            self.split_point(live);
            match n {
                Node::Tag => {
                    let t = tag_text(self.next_tag);
                    self.next_tag += 1;
                    self.text.push_str(&t);
                    if live {
                        self.expected.push_str(&t);
                    }
                }
                Node::Dot => {
                    self.text.push('.');
                    if live {
                        self.expected.push('.');
                    }
                }
                Node::DotSpace => {
                    self.text.push_str(". ");
                    if live {
                        self.expected.push_str(". ");
                    }
                }
                Node::Group(inner) => {
                    if live {
                        self.open();
                        self.nodes(inner, regs, mode, skip_depth, depth, dev);
                        self.close();
                    } else {
                        self.nodes(inner, regs, mode, skip_depth, depth, dev);
                    }
                }
                Node::JunkOpen => {
                    if !live {
                        self.open();
                        self.junk |= J_OPEN;
                    }
                }
                Node::JunkClose => {
                    if !live {
                        self.close();
                        self.junk |= J_CLOSE;
                    }
                }
                Node::JunkUndefined => {
                    if !live {
                        self.text.push_str("\\vpundefined ");
                        self.junk |= J_UNDEF;
                    }
                }
                Node::JunkOr => {
                    if extra_ok {
                        self.text.push_str("\\or ");
                        self.junk |= J_OR;
                        self.extra_else_or_after_live |= skip_depth == 0;
                    }
                }
                Node::JunkElse => {
                    if extra_ok {
                        self.text.push_str("\\else ");
                        self.junk |= J_ELSE;
                        self.extra_else_or_after_live |= skip_depth == 0;
                    }
                }
                Node::JunkElseFi => {
                    if !live {
                        self.text.push_str(if self.rebind_fi { "\\iftrue \\else \\else \\myfi " } else { "\\iftrue \\else \\else \\fi " });
                        self.junk |= J_ELSEFI;
                    }
                }
                Node::JunkTagged(k) => {
                    if !live {
                        self.text.push_str(TAGGED_JUNK[*k as usize % TAGGED_JUNK.len()]);
                        self.junk |= J_TAGGED;
                    }
                }
                Node::JunkIfEof => {
                    if !live {
                        self.text.push_str(if self.rebind_fi { "\\ifeof 3 \\else \\myfi " } else { "\\ifeof 3 \\else \\fi " });
                        self.junk |= J_IFEOF;
                    }
                }
                Node::JunkMacro(k) => {
                    if !live {
                        self.text.push_str(MACRO_JUNK[*k as usize % MACRO_JUNK.len()]);
                        self.junk |= J_MACRO;
                    }
                }
                Node::JunkStaleFi => {
                    if !live && self.rebind_fi {
                        self.text.push_str("\\fi ");
                        self.junk |= J_STALE;
                    }
                }
                Node::Cond { kind, branches, else_, alias, term, pre_rel } => {
                    self.max_depth = self.max_depth.max(depth + 1);
                    let any_alias = alias.0 != 0 || alias.1 != 0 || alias.2 != 0 || alias.3 != 0;
                    if !live && any_alias {
                        self.alias_in_skipped = true;
                    }
                    if !live && (alias.0 == 2 || alias.1 == 2 || alias.2 == 2 || alias.3 == 2) {
                        self.active_alias_in_skipped = true;
                    }
                    if mode == Mode::SkippedAfterLive && skip_depth == 0 {
                        self.cond_after_live = true;
                    }
                    let rebind_fi = self.rebind_fi;
                    // `reached`: the token is met by expansion (it follows delivered text)
                    let mut macro_spelling = false;
                    let mut spell = |name: &str, active: char, how: u8, reached: bool| -> String {
                        match how {
                            0 if name == "fi" && rebind_fi => "\\myfi ".to_string(),
                            0 => format!("\\{} ", name),
                            2 => active.to_string(),
                            3 if reached => {
                                macro_spelling = true;
                                format!("\\vp{} ", name)
                            }
                            _ => format!("\\my{} ", name),
                        }
                    };
                    // which branch is selected (only meaningful when live)
                    let mut selected: Option<usize> = None; // index into branches, None => else
                    // An evaluated number that nothing terminates is scanned with expansion into the
                    // text that follows. Where that text is delivered this is what the tree semantics say
                    // anyway. Where it is going to be skipped (the condition is false / another case is
                    // selected) the scan must stop at an unexpandable token before anything happens that
                    // the tree semantics do not describe; if that is not certain the operand gets its \relax.
                    let branch0 = select(kind, regs, branches.len(), dev) == Some(0);
                    let term = &if live && !branch0 && scan_stops(branches.first().map_or(&[][..], |b| &b[..]), regs, self.rebind_fi, dev) == Some(false) { 0 } else { *term };
                    match kind {
                        CondKind::IfTrue => {
                            self.text.push_str(&spell("iftrue", '@', alias.0, live));
                            selected = Some(0);
                        }
                        CondKind::IfFalse => {
                            self.text.push_str(&spell("iffalse", '?', alias.0, live));
                        }
                        CondKind::IfNum(a, rel, b) => {
                            self.text.push_str(&spell("ifnum", '&', alias.0, live));
                            let av = self.operand(a, regs, live);
                            match pre_rel {
                                0 => {}
                                1 => {
                                    if !self.text.ends_with(' ') {
                                        self.text.push(' ');
                                    }
                                }
                                _ => {
                                    self.text.push_str("\\vpsp\\vpsp ");
                                    self.blank_before_relation |= live;
                                }
                            }
                            self.text.push(match rel {
                                Rel::Lt => '<',
                                Rel::Eq => '=',
                                Rel::Gt => '>',
                            });
                            let bv = self.operand(b, regs, live);
                            self.terminator(*term, live, branch0);
                            let r = match rel {
                                Rel::Lt => av < bv,
                                Rel::Eq => av == bv,
                                Rel::Gt => av > bv,
                            };
                            if r {
                                selected = Some(0);
                            }
                            if live && (av < 0 || bv < 0 || av.abs() > 1 << 30 || bv.abs() > 1 << 30) {
                                self.interesting_operand = true;
                            }
                            if live && av.abs() > 1 << 30 && bv.abs() > 1 << 30 && (av < 0) != (bv < 0) {
                                self.opposite_extremes = true;
                            }
                        }
                        CondKind::IfOdd(a) => {
                            self.text.push_str(&spell("ifodd", '_', alias.0, live));
                            let av = self.operand(a, regs, live);
                            self.terminator(*term, live, branch0);
                            let odd = if dev.ifodd_false_for_negative { av % 2 == 1 } else { av.rem_euclid(2) == 1 };
                            if odd {
                                selected = Some(0);
                            }
                            if live && av < 0 {
                                self.interesting_operand = true;
                            }
                        }
                        CondKind::IfCase(a) => {
                            self.text.push_str(&spell("ifcase", ';', alias.0, live));
                            let av = self.operand(a, regs, live);
                            self.terminator(*term, live, branch0);
                            if av >= 0 && (av as usize) < branches.len() {
                                selected = Some(av as usize);
                            }
                            if live && (av < 0 || av as usize >= branches.len()) {
                                self.interesting_operand = true;
                            }
                        }
                    }
                    let is_case = matches!(kind, CondKind::IfCase(_));
                    let nb = if is_case { branches.len().max(1) } else { 1 };
                    // text after the selected branch is skipped by a live \else / \or
                    let mode_of = |i: Option<usize>| -> Mode {
                        if !live {
                            mode
                        } else if selected == i {
                            Mode::Live
                        } else {
                            match (selected, i) {
                                (Some(s), Some(i)) if i > s => Mode::SkippedAfterLive,
                                (Some(_), None) => Mode::SkippedAfterLive,
                                _ => Mode::SkippedByIf,
                            }
                        }
                    };
                    let sd = if live { 0 } else { skip_depth + 1 };
                    for i in 0..nb {
                        if i > 0 {
                            self.text.push_str(&spell("or", '!', alias.2, live && selected == Some(i - 1)));
                        }
                        let empty = vec![];
                        let b = branches.get(i).unwrap_or(&empty);
                        if is_case && live && matches!(selected, Some(s) if s > i) && b.iter().any(|n| matches!(n, Node::Cond { kind: CondKind::IfCase(_), .. })) {
                            self.nested_ifcase_skipped_by_ifcase = true;
                        }
                        self.nodes(b, regs, mode_of(Some(i)), sd, depth + 1, dev);
                    }
                    if let Some(e) = else_ {
                        self.text.push_str(&spell("else", '|', alias.1, live && selected == Some(nb - 1)));
                        self.nodes(e, regs, mode_of(None), sd, depth + 1, dev);
                    }
                    let fi_reached = live && if else_.is_some() { selected.is_none() } else { selected == Some(nb - 1) };
                    self.text.push_str(&spell("fi", '~', alias.3, fi_reached));
                    self.macro_spelling_live |= macro_spelling;
                }
            }
        }
    }
}

pub struct BuiltCond {
    pub text: String,
    pub expected: String,
    pub max_depth: usize,
    pub nontrivial: bool,
    pub classes: Vec<&'static str>,
}

fn starts_with_else_or_fi(rest: &str) -> bool {
    if rest.starts_with(['|', '!', '~']) {
        return true;
    }
    ["\\else ", "\\or ", "\\fi ", "\\myelse ", "\\myor ", "\\myfi ", "\\vpelse ", "\\vpor ", "\\vpfi "].iter().any(|p| rest.starts_with(p))
}

fn starts_with_if(rest: &str) -> bool {
    if rest.starts_with(['@', '?', '&', '_', ';']) {
        return true;
    }
    ["\\if", "\\myif", "\\vpif"].iter().any(|p| rest.starts_with(p))
}

pub fn build_cond(c: &CondCase, dev: Deviations) -> BuiltCond {
    let mut r = Render { rebind_fi: c.rebind_fi, ..Default::default() };
    let regs = [clamp(c.regs[0]), clamp(c.regs[1]), clamp(c.regs[2])];
    r.nodes(&c.body, &regs, Mode::Live, 0, 0, dev);
    r.split_point(true);
    let mut classes: Vec<&'static str> = vec![];
    let mut class_if = |c: bool, name: &'static str| {
        if c {
            classes.push(name);
        }
    };
    // how the body reaches the interpreter
    let body = std::mem::take(&mut r.text);
    let mut text = String::from(COND_PREAMBLE);
    if c.rebind_fi {
        // (\vpfi must then lead to the primitive under its other name)
        text.push_str("\\def\\fi{zz}\\def\\vpfi{\\myfi}");
    }
    for i in 0..3 {
        text.push_str(&format!("\\count{}={}\\relax \\def\\vpn{}{{{}}}", i + 1, regs[i], ["a", "b", "c"][i], regs[i]));
    }
    let candidates: Vec<(usize, bool)> = r.splits.iter().copied().filter(|(p, _)| !body[*p..].starts_with(' ')).collect();
    let split = match (c.wrap, candidates.len()) {
        (0, _) | (_, 0) => None,
        (1, n) => Some(candidates[n - 1]),
        (w, n) => Some(candidates[(w as usize - 2) % n]),
    };
    match split {
        None => text.push_str(&body),
        Some((p, live)) => {
            text.push_str("\\def\\vpbody{");
            text.push_str(&body[..p]);
            text.push_str("}\\vpbody ");
            text.push_str(&body[p..]);
            class_if(p == body.len(), "whole body delivered by a macro");
            class_if(p < body.len(), "body starts in a macro and continues in the source line");
            class_if(p < body.len() && !live, "skipping starts in a macro body and ends in the source line");
            class_if(r.unterminated.iter().any(|(q, l)| *q == p && *l) && p < body.len(), "operand read across the end of a macro body");
        }
    }
    text.push('%');
    let mut ended_by_eof_live = false;
    for (p, live) in &r.unterminated {
        let rest = &body[*p..];
        let eof = starts_with_else_or_fi(rest);
        let cond = starts_with_if(rest);
        ended_by_eof_live |= eof && *live;
        class_if(eof && *live, "evaluated operand ended by else/or/fi (TeX.2021.510 inserts \\relax)");
        class_if(eof && *live && body[..*p].ends_with(|ch: char| ch.is_ascii_digit()) && body[..*p].trim_end_matches(|ch: char| ch.is_ascii_digit()).ends_with("\\count"), "register index ended by else/or/fi");
        class_if(eof && !*live, "operand ended by else/or/fi in skipped text");
        class_if(cond && *live, "conditional expanded while an operand is being read");
        class_if(cond && *live && r.false_after.contains(p), "conditional expanded while an operand is being read, then skipped with the rest");
        class_if(!eof && !cond && *live, "evaluated operand ended by branch text");
    }
    class_if(r.space_ended, "evaluated operand ended by a space");
    class_if(r.expandafter_terminated, "evaluated operand ended by \\expandafter\\relax (token behind it expanded once during the scan)");
    class_if(r.mac_operand_live, "evaluated operand produced by a macro");
    class_if(r.blank_before_relation, "blank space from macros before the relation");
    class_if(r.macro_spelling_live, "if/else/or/fi delivered by a macro");
    class_if(r.junk != 0, "junk in skipped text");
    class_if(r.junk & (J_OPEN | J_CLOSE) != 0, "junk: unbalanced brace");
    class_if(r.junk & J_UNDEF != 0, "junk: undefined control sequence");
    class_if(r.junk & (J_OR | J_ELSE | J_ELSEFI) != 0, "junk: surplus else/or in nested skipped conditional");
    class_if(r.extra_else_or_after_live, "junk: surplus else/or at depth 0 of text skipped after a delivered branch");
    class_if(r.junk & J_TAGGED != 0, "junk: other tagged primitive");
    class_if(r.junk & J_IFEOF != 0, "junk: ifeof conditional");
    class_if(r.junk & J_MACRO != 0, "junk: macro containing fi/else/or/iftrue");
    class_if(r.junk & J_STALE != 0, "junk: control sequence fi rebound to a macro");
    class_if(r.nested_ifcase_skipped_by_ifcase, "ifcase skips over a nested ifcase");
    class_if(r.cond_after_live, "conditional in text skipped after a delivered branch");
    class_if(r.opposite_extremes, "ifnum on extremes of opposite sign");
    class_if(r.active_alias_in_skipped, "active-character alias of a conditional primitive in skipped text");
    let nontrivial = r.max_depth >= 3 || r.interesting_operand || r.alias_in_skipped || ended_by_eof_live;
    let mut seen = std::collections::BTreeSet::new();
    classes.retain(|c| seen.insert(*c));
    BuiltCond { text, expected: r.expected, max_depth: r.max_depth, nontrivial, classes }
}

fn int_strategy() -> impl Strategy<Value = i32> {
    prop_oneof![
        4 => -3i32..6,
        2 => prop_oneof![Just(-1i32), Just(-3), Just(-2), Just(-7), Just(-2147483647), Just(-2147483646), Just(2147483647), Just(2147483646), Just(1 << 30), Just(-(1 << 30) - 1)],
        1 => any::<i32>(),
    ]
}

fn operand_strategy() -> impl Strategy<Value = Operand> {
    prop_oneof![6 => int_strategy().prop_map(Operand::Const), 2 => (0u8..3).prop_map(Operand::Reg), 1 => (0u8..3).prop_map(Operand::Mac)]
}

fn kind_strategy() -> impl Strategy<Value = CondKind> {
    prop_oneof![
        1 => Just(CondKind::IfTrue),
        1 => Just(CondKind::IfFalse),
        2 => (operand_strategy(), prop_oneof![Just(Rel::Lt), Just(Rel::Eq), Just(Rel::Gt)], operand_strategy()).prop_map(|(a, r, b)| CondKind::IfNum(a, r, b)),
        2 => operand_strategy().prop_map(CondKind::IfOdd),
        2 => operand_strategy().prop_map(CondKind::IfCase),
    ]
}

fn alias_strategy() -> impl Strategy<Value = u8> {
    prop_oneof![7 => Just(0u8), 2 => Just(1u8), 2 => Just(2u8), 1 => Just(3u8)]
}

/// (alias, term, pre_rel)
fn spelling_strategy() -> impl Strategy<Value = ((u8, u8, u8, u8), u8, u8)> {
    (
        (alias_strategy(), alias_strategy(), alias_strategy(), alias_strategy()),
        prop_oneof![3 => Just(0u8), 2 => Just(1u8), 5 => Just(2u8), 1 => Just(3u8)],
        prop_oneof![8 => Just(0u8), 1 => Just(1u8), 1 => Just(2u8)],
    )
}

fn leaf_strategy() -> impl Strategy<Value = Node> {
    prop_oneof![
        12 => Just(Node::Tag),
        1 => Just(Node::Dot),
        1 => Just(Node::DotSpace),
        2 => Just(Node::JunkOpen),
        2 => Just(Node::JunkClose),
        2 => Just(Node::JunkUndefined),
        2 => Just(Node::JunkOr),
        2 => Just(Node::JunkElse),
        2 => Just(Node::JunkElseFi),
        2 => (0u8..14).prop_map(Node::JunkTagged),
        1 => Just(Node::JunkIfEof),
        1 => (0u8..4).prop_map(Node::JunkMacro),
        1 => Just(Node::JunkStaleFi),
    ]
}

fn node_strategy() -> impl Strategy<Value = Node> {
    leaf_strategy().prop_recursive(6, 48, 4, |inner| {
        prop_oneof![
            1 => proptest::collection::vec(inner.clone(), 0..3).prop_map(Node::Group),
            5 => (
                kind_strategy(),
                proptest::collection::vec(proptest::collection::vec(inner.clone(), 0..3), 1..4),
                proptest::option::weighted(0.7, proptest::collection::vec(inner, 0..3)),
                spelling_strategy(),
            )
                .prop_map(|(kind, branches, else_, (alias, term, pre_rel))| Node::Cond { kind, branches, else_, alias, term, pre_rel }),
        ]
    })
}

/// A conditional whose nesting reaches exactly `d` levels along one spine: at every level the next
/// level sits in a randomly chosen branch (selected or not), surrounded by small random material.
/// The free recursive strategy above almost never gets deeper than 4.
fn spine_strategy(d: u32) -> BoxedStrategy<Node> {
    if d == 0 {
        return Just(Node::Tag).boxed();
    }
    let small = || proptest::collection::vec(prop_oneof![4 => Just(Node::Tag), 1 => Just(Node::JunkOpen), 1 => Just(Node::JunkClose), 1 => Just(Node::JunkOr), 1 => Just(Node::JunkElse), 1 => Just(Node::JunkElseFi)], 0..2);
    (
        kind_strategy(),
        proptest::collection::vec(small(), 1..4),
        proptest::option::weighted(0.7, small()),
        spelling_strategy(),
        any::<u16>(),
        any::<bool>(),
        spine_strategy(d - 1),
    )
        .prop_map(|(kind, mut branches, mut else_, (alias, term, pre_rel), pos, before, child)| {
            let slots = branches.len() + usize::from(else_.is_some());
            let k = ((pos as usize) * slots) >> 16;
            let target = if k < branches.len() { &mut branches[k] } else { else_.as_mut().unwrap() };
            if before {
                target.insert(0, child);
            } else {
                target.push(child);
            }
            Node::Cond { kind, branches, else_, alias, term, pre_rel }
        })
        .boxed()
}

fn cond_case_strategy() -> impl Strategy<Value = CondCase> {
    let body = prop_oneof![
        3 => proptest::collection::vec(node_strategy(), 1..4),
        1 => (1u32..7).prop_flat_map(|d| (proptest::collection::vec(Just(Node::Tag), 0..2), spine_strategy(d)).prop_map(|(mut v, n)| { v.push(n); v.push(Node::Tag); v })),
    ];
    let wrap = prop_oneof![6 => Just(0u16), 1 => Just(1u16), 3 => 2u16..];
    ([int_strategy(), int_strategy(), int_strategy()], body, wrap, proptest::bool::weighted(0.1)).prop_map(|(regs, body, wrap, rebind_fi)| CondCase { regs, body, wrap, rebind_fi })
}

fn cond_oracle(ctx: &Ctx, c: &CondCase, case: &mut Case) -> Verdict {
    let b = build_cond(c, Deviations::default());
    case.note = Some(b.text.clone());
    case.class_if(b.max_depth >= 3, "depth>=3");
    case.class_if(b.max_depth >= 5, "depth>=5");
    case.class_if(b.max_depth >= 6, "depth>=6");
    case.class_if(b.nontrivial, "nontrivial");
    for c in &b.classes {
        case.class(c);
    }
    let r = texvm::run_program(&VmOptions::default(), &b.text);
    let got = texvm::plain(&r.out);
    if r.error.is_none() && got == b.expected {
        return Verdict::pass(b.nontrivial);
    }
    if ctx.known("flag:ifodd_false_for_negative") {
        let b2 = build_cond(c, Deviations { ifodd_false_for_negative: true });
        if r.error.is_none() && got == b2.expected {
            return Verdict::Known("flag:ifodd_false_for_negative".into());
        }
    }
    Verdict::Fail(format!("conditional output differs from the model\nprogram:  {}\nexpected: {}\ngot:      {}\nerror:    {:?}", b.text, b.expected, got, r.error))
}

// ------------------------------------------------------------------------------------
// Expansion: differential (optimised vs simple \expandafter) and model

#[derive(Clone, Copy, Debug, PartialEq, Eq, Serialize, Deserialize)]
pub enum XTok {
    Xa,       // \expandafter
    XaAlias,  // \xa (\let\xa=\expandafter)
    NoExpand, // \noexpand
    M(u8),    // macros \A \B \C \E \F (parameterless)
    D,        // \D#1 -> [#1]
    TheCount, // \the\count1
    L(u8),    // letters a..d
    Open,
    Close,
    IfTrue,
    IfFalse,
    Else,
    Fi,
    Relax,
    XaActive, // ~ (\let~=\expandafter)
}

const XP_PREAMBLE: &str = "\\def\\A{\\B x}\\def\\B{\\C y}\\def\\C{z}\\def\\E{}\\def\\F{\\A\\A}\\def\\D#1{[#1]}\\count1=7\\relax \\let\\xa=\\expandafter \\catcode`\\~=13 \\let~=\\expandafter ";
const MACROS: [&str; 5] = ["A", "B", "C", "E", "F"];

fn is_xa(t: &XTok) -> bool {
    matches!(t, XTok::Xa | XTok::XaAlias | XTok::XaActive)
}

fn render_x(ts: &[XTok]) -> String {
    let mut s = String::new();
    for t in ts {
        match t {
            XTok::Xa => s.push_str("\\expandafter "),
            XTok::XaAlias => s.push_str("\\xa "),
            XTok::XaActive => s.push('~'),
            XTok::NoExpand => s.push_str("\\noexpand "),
            XTok::M(i) => {
                s.push('\\');
                s.push_str(MACROS[(*i % 5) as usize]);
                s.push(' ');
            }
            XTok::D => s.push_str("\\D "),
            XTok::TheCount => s.push_str("\\the\\count1 "),
            XTok::L(i) => s.push((b'a' + (*i % 4)) as char),
            XTok::Open => s.push('{'),
            XTok::Close => s.push('}'),
            XTok::IfTrue => s.push_str("\\iftrue "),
            XTok::IfFalse => s.push_str("\\iffalse "),
            XTok::Else => s.push_str("\\else "),
            XTok::Fi => s.push_str("\\fi "),
            XTok::Relax => s.push_str("\\relax "),
        }
    }
    s
}

/// Streams for the differential sub-check: mostly free soups, one in ten starts with a long
/// \\expandafter chain (12..48 links) so that a bounded look-ahead of the optimised implementation shows.
fn diff_stream_strategy() -> impl Strategy<Value = Vec<XTok>> {
    let xa = prop_oneof![3 => Just(XTok::Xa), 1 => Just(XTok::XaAlias), 1 => Just(XTok::XaActive)];
    let long = (proptest::collection::vec((xa, xtok_strategy()), 12..48), proptest::collection::vec(xtok_strategy(), 0..6)).prop_map(|(pairs, tail)| {
        let mut v = vec![];
        for (a, b) in pairs {
            v.push(a);
            v.push(b);
        }
        v.extend(tail);
        v
    });
    prop_oneof![9 => proptest::collection::vec(xtok_strategy(), 0..24), 1 => long]
}

fn xtok_strategy() -> impl Strategy<Value = XTok> {
    prop_oneof![
        6 => Just(XTok::Xa),
        2 => Just(XTok::XaAlias),
        1 => Just(XTok::XaActive),
        2 => Just(XTok::NoExpand),
        6 => (0u8..5).prop_map(XTok::M),
        1 => Just(XTok::D),
        1 => Just(XTok::TheCount),
        4 => (0u8..4).prop_map(XTok::L),
        1 => Just(XTok::Open),
        1 => Just(XTok::Close),
        1 => Just(XTok::IfTrue),
        1 => Just(XTok::IfFalse),
        1 => Just(XTok::Else),
        1 => Just(XTok::Fi),
        1 => Just(XTok::Relax),
    ]
}

/// Drop closers that have nothing to close and append missing closers, so that most streams
/// are well formed (70% of the raw streams ended in an early error otherwise). Every fourth
/// stream (by length) is left raw so malformed input stays covered.
fn well_form(ts: &[XTok]) -> Vec<XTok> {
    if ts.len() % 4 == 3 {
        return ts.to_vec();
    }
    let mut out = vec![];
    // stack of open constructs: 0 = group, 1 = conditional in true/false part, 2 = conditional after \else
    let mut stack: Vec<u8> = vec![];
    for t in ts {
        match t {
            XTok::Open => {
                stack.push(0);
                out.push(*t);
            }
            XTok::Close => {
                if stack.last() == Some(&0) {
                    stack.pop();
                    out.push(*t);
                }
            }
            XTok::IfTrue | XTok::IfFalse => {
                stack.push(1);
                out.push(*t);
            }
            XTok::Else => {
                if stack.last() == Some(&1) {
                    *stack.last_mut().unwrap() = 2;
                    out.push(*t);
                }
            }
            XTok::Fi => {
                if matches!(stack.last(), Some(1) | Some(2)) {
                    stack.pop();
                    out.push(*t);
                }
            }
            _ => out.push(*t),
        }
    }
    // two letters so trailing \expandafter / \D have operands, then the closers
    out.push(XTok::L(0));
    out.push(XTok::L(1));
    while let Some(k) = stack.pop() {
        out.push(if k == 0 { XTok::Close } else { XTok::Fi });
    }
    out
}

fn diff_oracle(ts: &Vec<XTok>, case: &mut Case) -> Verdict {
    let ts = &well_form(ts);
    let text = format!("{}{}%", XP_PREAMBLE, render_x(ts));
    case.note = Some(text.clone());
    let run = |simple: bool, recover: bool| {
        crate::engine::panics::catch(|| {
            let opts = VmOptions { simple_expandafter: simple, budget: 5000, count_and_continue: recover, ..Default::default() };
            texvm::run_program(&opts, &text)
        })
    };
    let mut chain = 0;
    let mut max_chain = 0;
    let mut i = 0;
    while i < ts.len() {
        if is_xa(&ts[i]) {
            chain += 1;
            max_chain = max_chain.max(chain);
            i += 2;
        } else {
            chain = 0;
            i += 1;
        }
    }
    case.class_if(max_chain >= 2, "chain>=2");
    case.class_if(max_chain >= 4, "chain>=4");
    case.class_if(max_chain >= 17, "chain>=17");
    case.class_if(ts.contains(&XTok::XaActive), "active-character alias of \\expandafter");
    // First in error-stop mode (the first error ends the run); if it ended in an error, again with
    // recovery from every recoverable error, so that what follows the error is compared as well.
    for recover in [false, true] {
        match (run(false, recover), run(true, recover)) {
            (Ok(a), Ok(b)) => {
                if !recover {
                    case.class_if(a.error.is_some(), "ends in error");
                } else {
                    case.class_if(!a.recovered_titles.is_empty(), "compared beyond a recovered error");
                    case.class_if(a.recovered_titles.len() >= 2, "compared beyond two recovered errors");
                }
                if a.out != b.out || a.error != b.error || a.recovered_titles != b.recovered_titles {
                    return Verdict::Fail(format!(
                        "optimised and simple \\expandafter differ{}\nprogram:   {}\noptimised: {} error={:?} recovered={:?}\nsimple:    {} error={:?} recovered={:?}",
                        if recover { " (recovering from errors)" } else { "" },
                        text,
                        texvm::render(&a.out),
                        a.error,
                        a.recovered_titles,
                        texvm::render(&b.out),
                        b.error,
                        b.recovered_titles
                    ));
                }
                if a.error.is_none() {
                    break;
                }
            }
            (Err(pa), Err(pb)) => {
                if pa.budget && pb.budget {
                    if recover {
                        case.class("recovery run exceeds the budget");
                        break;
                    }
                    return Verdict::Skip("budget");
                } else if pa.budget != pb.budget {
                    return Verdict::Fail(format!("one implementation exceeds the budget, the other panics: {} / {}\nprogram: {}", pa.message, pb.message, text));
                } else if recover {
                    break;
                } else {
                    // Both panic the same way: a totality matter (C09), not a difference.
                    return Verdict::Skip("both panic (C09)");
                }
            }
            (Ok(_), Err(p)) | (Err(p), Ok(_)) => {
                if p.budget {
                    return Verdict::Fail(format!("only one implementation exceeds the expansion budget\nprogram: {}", text));
                } else {
                    return Verdict::Fail(format!("only one implementation panics: {} at {}\nprogram: {}", p.message, p.site(), text));
                }
            }
        }
    }
    Verdict::pass(max_chain >= 2)
}

/// A token of the model's output: an input token, or a character produced by an expansion.
#[derive(Clone, Copy, Debug, PartialEq)]
enum MTok {
    X(XTok),
    Ch(char, u8),
}

/// One-step expansion model: what `s` looks like after its first token has been expanded once, and
/// the kind of token that was finally expanded. \expandafter (and its aliases) recursively, macros
/// without and with one parameter, \the\count1, \iftrue and \iffalse (which skips to its \else or
/// \fi); everything unexpandable is left alone. `None`: outside the model (error, or \noexpand).
fn expand_once_model(s: &[XTok]) -> Option<(Vec<MTok>, &'static str)> {
    if s.is_empty() {
        return None;
    }
    let rest = |k: usize| s[k..].iter().map(|t| MTok::X(*t));
    let x = |v: Vec<XTok>| v.into_iter().map(MTok::X);
    Some(match s[0] {
        XTok::M(i) => {
            let body = match i % 5 {
                0 => vec![XTok::M(1), XTok::L(23)], // \B x   (L(23) renders as 'x' below)
                1 => vec![XTok::M(2), XTok::L(24)], // \C y
                2 => vec![XTok::L(25)],             // z
                3 => vec![],
                _ => vec![XTok::M(0), XTok::M(0)],
            };
            (x(body).chain(rest(1)).collect(), "macro")
        }
        XTok::Xa | XTok::XaAlias | XTok::XaActive => {
            // the token that is stepped over must be a single token in this rendering
            if s.len() < 3 || s[1] == XTok::TheCount {
                return None;
            }
            let (tail, kind) = expand_once_model(&s[2..])?;
            (std::iter::once(MTok::X(s[1])).chain(tail).collect(), kind)
        }
        XTok::D => {
            if s.len() < 2 || matches!(s[1], XTok::TheCount | XTok::Open | XTok::Close) {
                return None;
            }
            ([MTok::Ch('[', 12), MTok::X(s[1]), MTok::Ch(']', 12)].into_iter().chain(rest(2)).collect(), "macro with a parameter")
        }
        XTok::TheCount => (std::iter::once(MTok::Ch('7', 12)).chain(rest(1)).collect(), "\\the"),
        XTok::IfTrue => (rest(1).collect(), "\\iftrue"),
        XTok::IfFalse => {
            let mut depth = 0;
            let mut end = None;
            for (k, t) in s.iter().enumerate().skip(1) {
                match t {
                    XTok::IfTrue | XTok::IfFalse => depth += 1,
                    XTok::Else if depth == 0 => {
                        end = Some(k);
                        break;
                    }
                    XTok::Fi => {
                        if depth == 0 {
                            end = Some(k);
                            break;
                        }
                        depth -= 1;
                    }
                    _ => {}
                }
            }
            (rest(end? + 1).collect(), "\\iffalse")
        }
        // no conditional is open: an error
        XTok::Else | XTok::Fi => return None,
        XTok::NoExpand => return None,
        XTok::L(_) | XTok::Open | XTok::Close | XTok::Relax => (rest(0).collect(), "unexpandable"),
    })
}

fn model_tok_to_out(t: &MTok, out: &mut Vec<OutTok>) {
    let cs = |n: &str| OutTok::Cs(n.into());
    match t {
        MTok::Ch(c, cat) => out.push(OutTok::Ch(*c, *cat)),
        MTok::X(t) => match t {
            XTok::Xa => out.push(cs("expandafter")),
            XTok::XaAlias => out.push(cs("xa")),
            XTok::XaActive => out.push(OutTok::Active('~')),
            XTok::NoExpand => out.push(cs("noexpand")),
            XTok::M(i) => out.push(cs(MACROS[(*i % 5) as usize])),
            XTok::D => out.push(cs("D")),
            XTok::TheCount => out.extend([cs("the"), cs("count"), OutTok::Ch('1', 12), OutTok::Ch(' ', 10)]),
            XTok::L(23) => out.push(OutTok::Ch('x', 11)),
            XTok::L(24) => out.push(OutTok::Ch('y', 11)),
            XTok::L(25) => out.push(OutTok::Ch('z', 11)),
            XTok::L(i) => out.push(OutTok::Ch((b'a' + (*i % 4)) as char, 11)),
            XTok::Open => out.push(OutTok::Ch('{', 1)),
            XTok::Close => out.push(OutTok::Ch('}', 2)),
            XTok::IfTrue => out.push(cs("iftrue")),
            XTok::IfFalse => out.push(cs("iffalse")),
            XTok::Else => out.push(cs("else")),
            XTok::Fi => out.push(cs("fi")),
            XTok::Relax => out.push(cs("relax")),
        },
    }
}

fn chain_strategy() -> impl Strategy<Value = Vec<XTok>> {
    let t = prop_oneof![
        6 => Just(XTok::Xa),
        2 => Just(XTok::XaAlias),
        1 => Just(XTok::XaActive),
        5 => (0u8..5).prop_map(XTok::M),
        3 => (0u8..4).prop_map(XTok::L),
    ];
    let free = proptest::collection::vec(t, 1..14);
    // \expandafter t1 \expandafter t2 ... \expandafter tn <target>: the first token of the target is
    // what gets expanded (a ti that is itself \expandafter only moves the place by one pair)
    let xa = || prop_oneof![3 => Just(XTok::Xa), 1 => Just(XTok::XaAlias), 1 => Just(XTok::XaActive)];
    let stepped_over = prop_oneof![
        4 => (0u8..4).prop_map(XTok::L),
        3 => (0u8..5).prop_map(XTok::M),
        2 => xa(),
        1 => Just(XTok::D),
        1 => Just(XTok::Relax),
        1 => Just(XTok::IfTrue),
        1 => Just(XTok::IfFalse),
        1 => Just(XTok::Else),
        1 => Just(XTok::Fi),
    ];
    let m = || (0u8..5).prop_map(XTok::M);
    let l = || (0u8..4).prop_map(XTok::L);
    let target = prop_oneof![
        2 => (m(), l()).prop_map(|(m, l)| vec![XTok::IfTrue, m, l, XTok::Fi]),
        2 => Just(vec![XTok::TheCount]),
        2 => prop_oneof![l(), m(), xa(), Just(XTok::Fi)].prop_map(|a| vec![XTok::D, a]),
        2 => (l(), m()).prop_map(|(l, m)| vec![XTok::IfFalse, l, XTok::Else, m, XTok::Fi]),
        1 => (l(), m()).prop_map(|(l, m)| vec![XTok::IfFalse, XTok::D, l, XTok::Fi, m]),
        1 => (l(), m()).prop_map(|(l, m)| vec![XTok::IfFalse, XTok::IfTrue, l, XTok::Else, XTok::TheCount, XTok::Fi, l, XTok::Else, m, XTok::Fi]),
        1 => m().prop_map(|m| vec![m]),
        1 => Just(vec![XTok::Relax]),
    ];
    // mostly short chains; one in ten is long (an implementation may bound its look-ahead)
    let pair = (xa(), stepped_over);
    let pairs = prop_oneof![9 => proptest::collection::vec(pair.clone(), 0..6), 1 => proptest::collection::vec(pair, 12..48)];
    let aimed = (pairs, target).prop_map(|(pairs, target)| {
        let mut v = vec![];
        for (a, b) in pairs {
            v.push(a);
            v.push(b);
        }
        v.extend(target);
        v
    });
    prop_oneof![1 => free, 1 => aimed]
}

fn chain_oracle(ts: &Vec<XTok>, simple: bool, case: &mut Case) -> Verdict {
    // two trailing letters guarantee every \expandafter has its two tokens
    let mut s = ts.clone();
    s.push(XTok::L(0));
    s.push(XTok::L(1));
    let Some((model, kind)) = expand_once_model(&s) else { return Verdict::Skip("malformed") };
    let mut expected: Vec<OutTok> = vec![];
    for t in &model {
        model_tok_to_out(t, &mut expected);
    }
    let text = format!("{}\\expandafter\\vpcapture {}\\vpstop%", XP_PREAMBLE, render_x(&s));
    case.note = Some(text.clone());
    let opts = VmOptions { simple_expandafter: simple, budget: 5000, ..Default::default() };
    let r = texvm::run_program(&opts, &text);
    let mut k = 0;
    while k < s.len() && is_xa(&s[k]) {
        k += 2;
    }
    let chain = k / 2;
    case.class_if(chain >= 2, "chain>=2");
    case.class_if(chain >= 4, "chain>=4");
    case.class_if(chain >= 17, "chain>=17");
    case.class_if(chain >= 33, "chain>=33");
    case.class_if(s.contains(&XTok::XaActive), "active-character alias of \\expandafter");
    case.class(match kind {
        "macro" => "expanded token: macro",
        "macro with a parameter" => "expanded token: macro with a parameter",
        "\\the" => "expanded token: \\the",
        "\\iftrue" => "expanded token: \\iftrue",
        "\\iffalse" => "expanded token: \\iffalse (skips to \\else or \\fi)",
        _ => "expanded token: unexpandable",
    });
    if r.error.is_some() || r.out != expected {
        return Verdict::Fail(format!(
            "\\expandafter{} does not expand exactly one token once\nprogram:  {}\nexpected: {}\ngot:      {} error={:?}",
            if simple { " (simple)" } else { " (optimised)" },
            text,
            texvm::render(&expected),
            texvm::render(&r.out),
            r.error
        ));
    }
    Verdict::pass(chain >= 2)
}

#[derive(Clone, Debug, Serialize, Deserialize)]
pub enum NTok {
    NoExpandM(u8),
    M(u8),
    L(u8),
    /// \noexpand before a letter (nothing to suppress; the letter must not get lost)
    NoExpandL(u8),
    /// \noexpand before an expandable primitive (see NOEXPAND_PRIMS), which then is not executed
    NoExpandPrim(u8),
    /// \noexpand\relax
    NoExpandRelax,
    /// the inner sequence inside a delivered branch of a conditional:
    /// 0 = \iftrue..\fi, 1 = \iffalse q\else..\fi, 2 = \ifcase 1 q\or..\else q\fi
    InCond(u8, Vec<NTok>),
}

const NOEXPAND_PRIMS: [&str; 10] = ["fi", "else", "or", "iftrue", "iffalse", "ifnum", "expandafter", "noexpand", "the", "xa"];

#[derive(Default)]
struct NRender {
    text: String,
    expected: Vec<OutTok>,
    n_noexpand: usize,
    before_unexpandable: bool,
    before_conditional: bool,
    before_expansion_primitive: bool,
    in_branch: bool,
}

impl NRender {
    fn toks(&mut self, ts: &[NTok], in_cond: bool) {
        let full = ["zyx", "zy", "z", "", "zyxzyx"];
        for t in ts {
            match t {
                NTok::NoExpandM(i) => {
                    let m = MACROS[(*i % 5) as usize];
                    self.text.push_str(&format!("\\noexpand\\{} ", m));
                    self.expected.push(OutTok::Cs(m.into()));
                    self.n_noexpand += 1;
                    self.in_branch |= in_cond;
                }
                NTok::M(i) => {
                    self.text.push_str(&format!("\\{} ", MACROS[(*i % 5) as usize]));
                    for c in full[(*i % 5) as usize].chars() {
                        self.expected.push(OutTok::Ch(c, 11));
                    }
                }
                NTok::L(i) => {
                    let c = (b'a' + (*i % 4)) as char;
                    self.text.push(c);
                    self.expected.push(OutTok::Ch(c, 11));
                }
                NTok::NoExpandL(i) => {
                    let c = (b'a' + (*i % 4)) as char;
                    self.text.push_str(&format!("\\noexpand {}", c));
                    self.expected.push(OutTok::Ch(c, 11));
                    self.n_noexpand += 1;
                    self.before_unexpandable = true;
                }
                NTok::NoExpandRelax => {
                    self.text.push_str("\\noexpand\\relax ");
                    self.n_noexpand += 1;
                    self.before_unexpandable = true;
                }
                NTok::NoExpandPrim(i) => {
                    let k = *i as usize % NOEXPAND_PRIMS.len();
                    let name = NOEXPAND_PRIMS[k];
                    self.text.push_str(&format!("\\noexpand\\{} ", name));
                    self.expected.push(OutTok::Cs(name.into()));
                    self.n_noexpand += 1;
                    self.in_branch |= in_cond;
                    if k < 6 {
                        self.before_conditional = true;
                    } else {
                        self.before_expansion_primitive = true;
                    }
                }
                NTok::InCond(k, inner) => {
                    match k % 3 {
                        0 => {
                            self.text.push_str("\\iftrue ");
                            self.toks(inner, true);
                            self.text.push_str("\\fi ");
                        }
                        1 => {
                            self.text.push_str("\\iffalse q\\else ");
                            self.toks(inner, true);
                            self.text.push_str("\\fi ");
                        }
                        _ => {
                            self.text.push_str("\\ifcase 1 q\\or ");
                            self.toks(inner, true);
                            self.text.push_str("\\else q\\fi ");
                        }
                    }
                }
            }
        }
    }
}

fn noexpand_oracle(ts: &Vec<NTok>, case: &mut Case) -> Verdict {
    let mut r = NRender { text: String::from(XP_PREAMBLE), ..Default::default() };
    r.toks(ts, false);
    r.text.push('%');
    let (text, expected) = (r.text, r.expected);
    case.note = Some(text.clone());
    case.class_if(r.before_unexpandable, "\\noexpand before an unexpandable token");
    case.class_if(r.before_conditional, "\\noexpand before a conditional primitive");
    case.class_if(r.before_expansion_primitive, "\\noexpand before \\expandafter / \\noexpand / \\the");
    case.class_if(r.in_branch, "\\noexpand of an expandable token inside a delivered conditional branch");
    let res = texvm::run_program(&VmOptions::default(), &text);
    if res.error.is_some() || res.out != expected {
        return Verdict::Fail(format!("\\noexpand does not suppress exactly one expansion\nprogram:  {}\nexpected: {}\ngot:      {} error={:?}", text, texvm::render(&expected), texvm::render(&res.out), res.error));
    }
    Verdict::pass(r.n_noexpand >= 1 && ts.len() >= 2)
}

fn ntok_strategy() -> impl Strategy<Value = Vec<NTok>> {
    let flat = || {
        prop_oneof![
            4 => (0u8..5).prop_map(NTok::NoExpandM),
            4 => (0u8..5).prop_map(NTok::M),
            4 => (0u8..4).prop_map(NTok::L),
            1 => (0u8..4).prop_map(NTok::NoExpandL),
            3 => (0u8..10).prop_map(NTok::NoExpandPrim),
            1 => Just(NTok::NoExpandRelax),
        ]
    };
    let t = prop_oneof![
        8 => flat(),
        1 => (0u8..3, proptest::collection::vec(flat(), 0..5)).prop_map(|(k, v)| NTok::InCond(k, v)),
    ];
    proptest::collection::vec(t, 0..10)
}

pub fn run(ctx: &Ctx) {
    ctx.rule("conditionals: well-nested trees (depth 0..6) of \\iftrue \\iffalse \\ifnum \\ifodd \\ifcase with \\or/\\else/\\fi, i32 operands (constants, \\count reads, macros expanding to the digits) ended by \\relax, by a space or by nothing (the number then runs into branch text, a nested conditional or the conditional's own \\else/\\or/\\fi, TeX.2021.510), unique 3-letter tags and occasional other characters/spaces in every branch, junk (unbalanced braces, undefined control sequences, surplus \\or/\\else at nesting depth>=1 or behind a delivered branch, other tagged primitives, \\ifeof, macros containing \\fi) and \\let-aliases (control sequences and active characters) of every conditional primitive in live and skipped text, macros delivering a conditional primitive where it is reached by expansion, the body optionally delivered wholly or partly from a macro; output compared with a tree evaluator. non-trivial = depth>=3 or a negative/out-of-range operand evaluated or an aliased primitive in skipped text or an evaluated operand ended by else/or/fi. expansion: random token streams run under the optimised and the simple \\expandafter (differential, with and without recovery from errors), chains of \\expandafter^k against a one-step expansion model (targets: macros without/with parameter, \\the, \\iftrue, \\iffalse) observed with \\vpcapture, and \\noexpand sequences (before macros, letters, \\relax, conditional and expansion primitives, at top level and inside delivered branches); non-trivial = chain length>=2; distinct by program text");
    ctx.assume("\\or at nesting depth 0 of a skipped non-\\ifcase branch is an error in TeX (Extra \\or) and is not generated");
    ctx.assume("\\expandafter applied to \\noexpand is only checked differentially (its TeX meaning involves the dont_expand marker and is outside the stated property)");
    ctx.assume("an evaluated operand that nothing terminates is only followed by to-be-skipped text whose first token is unexpandable or the conditional's own \\else/\\or/\\fi (anything else would be expanded by TeX before it is skipped); otherwise the operand gets its \\relax");
    ctx.assume("the \\relax that TeX.2021.510 inserts in front of \\else/\\or/\\fi is not observable in the delivered characters and is not demanded");
    ctx.assume("\\noexpand before an undefined control sequence is not generated (neither macro nor primitive)");
    let n = ctx.tier.pick(250_000u64, 3_000_000u64);
    run_generated(ctx, "conditionals", n, cond_case_strategy, |c: &CondCase, case| cond_oracle(ctx, c, case));
    let n = ctx.tier.pick(120_000u64, 2_000_000u64);
    run_generated(ctx, "expandafter_differential", n, diff_stream_strategy, |ts: &Vec<XTok>, case| diff_oracle(ts, case));
    let n = ctx.tier.pick(90_000u64, 1_000_000u64);
    run_generated(ctx, "expandafter_model_optimised", n, chain_strategy, |ts: &Vec<XTok>, case| chain_oracle(ts, false, case));
    run_generated(ctx, "expandafter_model_simple", n / 2, chain_strategy, |ts: &Vec<XTok>, case| chain_oracle(ts, true, case));
    let n = ctx.tier.pick(40_000u64, 400_000u64);
    run_generated(ctx, "noexpand", n, ntok_strategy, |ts: &Vec<NTok>, case| noexpand_oracle(ts, case));
}
