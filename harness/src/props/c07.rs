//! C07 Conditionals deliver only the selected branch; \expandafter acts on one token.

use crate::engine::*;
use crate::texvm::{self, OutTok, VmOptions};
use proptest::prelude::*;
use serde::{Deserialize, Serialize};

// ------------------------------------------------------------------------------------
// Conditionals

#[derive(Clone, Debug, Serialize, Deserialize)]
pub enum Operand {
    Const(i32),
    /// `\count1` .. `\count3` (values set in the preamble from `regs`)
    Reg(u8),
}

#[derive(Clone, Copy, Debug, Serialize, Deserialize)]
pub enum Rel {
    Lt,
    Eq,
    Gt,
}

#[derive(Clone, Debug, Serialize, Deserialize)]
pub enum CondKind {
    IfTrue,
    IfFalse,
    IfNum(Operand, Rel, Operand),
    IfOdd(Operand),
    IfCase(Operand),
}

#[derive(Clone, Debug, Serialize, Deserialize)]
pub enum Node {
    /// a unique literal; rendered as two letters
    Tag,
    /// a balanced group around live material
    Group(Vec<Node>),
    Cond {
        kind: CondKind,
        /// for \ifcase: the cases; otherwise exactly one "true" branch
        branches: Vec<Vec<Node>>,
        else_: Option<Vec<Node>>,
        /// how the if / else / or / fi tokens are written: 0 = the primitive's own name, 1 = a control
        /// sequence \let equal to it, 2 = an active character \let equal to it
        alias: (u8, u8, u8, u8),
    },
    /// rendered only inside skipped text
    JunkOpen,
    JunkClose,
    JunkUndefined,
    /// rendered only inside skipped text at nesting depth >= 1 below the skipping conditional
    JunkOr,
    /// a complete dummy conditional rendered only in skipped text: \iffalse \else \fi flavour
    JunkElseFi,
}

#[derive(Clone, Debug, Serialize, Deserialize)]
pub struct CondCase {
    pub regs: [i32; 3],
    pub body: Vec<Node>,
}

const COND_PREAMBLE: &str = "\\catcode`\\@=13 \\catcode`\\?=13 \\catcode`\\&=13 \\catcode`\\_=13 \\catcode`\\;=13 \\catcode`\\|=13 \\catcode`\\!=13 \\catcode`\\~=13 \\let@=\\iftrue \\let?=\\iffalse \\let&=\\ifnum \\let_=\\ifodd \\let;=\\ifcase \\let|=\\else \\let!=\\or \\let~=\\fi \\let\\myiftrue=\\iftrue \\let\\myiffalse=\\iffalse \\let\\myifnum=\\ifnum \\let\\myifodd=\\ifodd \\let\\myifcase=\\ifcase \\let\\myelse=\\else \\let\\myor=\\or \\let\\myfi=\\fi ";

struct Render {
    text: String,
    expected: String,
    next_tag: usize,
    max_depth: usize,
    interesting_operand: bool,
    alias_in_skipped: bool,
    active_alias_in_skipped: bool,
    junk_in_skipped: bool,
}

fn tag_text(i: usize) -> String {
    let a = (b'a' + (i / 26 % 26) as u8) as char;
    let b = (b'a' + (i % 26) as u8) as char;
    let c = (b'a' + (i / 676 % 26) as u8) as char;
    format!("{}{}{}", c, a, b)
}

#[derive(Clone, Copy, Default)]
pub struct Deviations {
    /// \ifodd is false for negative odd numbers (D4)
    pub ifodd_false_for_negative: bool,
}

impl Render {
    fn operand(&mut self, o: &Operand, regs: &[i32; 3]) -> i64 {
        match o {
            Operand::Const(v) => {
                let v = if *v == i32::MIN { i32::MIN + 1 } else { *v };
                self.text.push_str(&format!("{}", v));
                v as i64
            }
            Operand::Reg(r) => {
                let r = (*r % 3) as usize;
                self.text.push_str(&format!("\\count{}", r + 1));
                regs[r] as i64
            }
        }
    }

    /// `live`: tokens are delivered; `skip_depth`: None when live, Some(d) = nesting depth of
    /// conditionals below the conditional that is doing the skipping.
    fn nodes(&mut self, ns: &[Node], regs: &[i32; 3], live: bool, skip_depth: usize, depth: usize, dev: Deviations) {
        for n in ns {
            match n {
                Node::Tag => {
                    let t = tag_text(self.next_tag);
                    self.next_tag += 1;
                    self.text.push_str(&t);
                    if live {
                        self.expected.push_str(&t);
                    }
                }
                Node::Group(inner) => {
                    if live {
                        self.text.push('{');
                        self.nodes(inner, regs, live, skip_depth, depth, dev);
                        self.text.push('}');
                    } else {
                        self.nodes(inner, regs, live, skip_depth, depth, dev);
                    }
                }
                Node::JunkOpen => {
                    if !live {
                        self.text.push('{');
                        self.junk_in_skipped = true;
                    }
                }
                Node::JunkClose => {
                    if !live {
                        self.text.push('}');
                        self.junk_in_skipped = true;
                    }
                }
                Node::JunkUndefined => {
                    if !live {
                        self.text.push_str("\\vpundefined ");
                        self.junk_in_skipped = true;
                    }
                }
                Node::JunkOr => {
                    if !live && skip_depth >= 1 {
                        self.text.push_str("\\or ");
                        self.junk_in_skipped = true;
                    }
                }
                Node::JunkElseFi => {
                    if !live {
                        self.text.push_str("\\iftrue \\else \\else \\fi ");
                        self.junk_in_skipped = true;
                    }
                }
                Node::Cond { kind, branches, else_, alias } => {
                    self.max_depth = self.max_depth.max(depth + 1);
                    let any_alias = alias.0 != 0 || alias.1 != 0 || alias.2 != 0 || alias.3 != 0;
                    if !live && any_alias {
                        self.alias_in_skipped = true;
                    }
                    if !live && (alias.0 == 2 || alias.1 == 2 || alias.2 == 2 || alias.3 == 2) {
                        self.active_alias_in_skipped = true;
                    }
                    let spell = |name: &str, active: char, how: u8| -> String {
                        match how {
                            0 => format!("\\{} ", name),
                            1 => format!("\\my{} ", name),
                            _ => active.to_string(),
                        }
                    };
                    // which branch is selected (only meaningful when live)
                    let mut selected: Option<usize> = None; // index into branches, None => else
                    match kind {
                        CondKind::IfTrue => {
                            self.text.push_str(&spell("iftrue", '@', alias.0));
                            selected = Some(0);
                        }
                        CondKind::IfFalse => {
                            self.text.push_str(&spell("iffalse", '?', alias.0));
                        }
                        CondKind::IfNum(a, rel, b) => {
                            self.text.push_str(&spell("ifnum", '&', alias.0));
                            let av = self.operand(a, regs);
                            self.text.push(match rel {
                                Rel::Lt => '<',
                                Rel::Eq => '=',
                                Rel::Gt => '>',
                            });
                            let bv = self.operand(b, regs);
                            self.text.push_str("\\relax ");
                            let r = match rel {
                                Rel::Lt => av < bv,
                                Rel::Eq => av == bv,
                                Rel::Gt => av > bv,
                            };
                            if r {
                                selected = Some(0);
                            }
                            if live && (av < 0 || bv < 0 || av.abs() > 1 << 30 || bv.abs() > 1 << 30) {
                                self.interesting_operand = true;
                            }
                        }
                        CondKind::IfOdd(a) => {
                            self.text.push_str(&spell("ifodd", '_', alias.0));
                            let av = self.operand(a, regs);
                            self.text.push_str("\\relax ");
                            let odd = if dev.ifodd_false_for_negative { av % 2 == 1 } else { av.rem_euclid(2) == 1 };
                            if odd {
                                selected = Some(0);
                            }
                            if live && av < 0 {
                                self.interesting_operand = true;
                            }
                        }
                        CondKind::IfCase(a) => {
                            self.text.push_str(&spell("ifcase", ';', alias.0));
                            let av = self.operand(a, regs);
                            self.text.push_str("\\relax ");
                            if av >= 0 && (av as usize) < branches.len() {
                                selected = Some(av as usize);
                            }
                            if live && (av < 0 || av as usize >= branches.len()) {
                                self.interesting_operand = true;
                            }
                        }
                    }
                    let is_case = matches!(kind, CondKind::IfCase(_));
                    let nb = if is_case { branches.len().max(1) } else { 1 };
                    for i in 0..nb {
                        if i > 0 {
                            self.text.push_str(&spell("or", '!', alias.2));
                        }
                        let empty = vec![];
                        let b = branches.get(i).unwrap_or(&empty);
                        let b_live = live && selected == Some(i);
                        let sd = if live && !b_live { 0 } else { skip_depth + 1 };
                        self.nodes(b, regs, b_live, if live { if b_live { 0 } else { 0 } } else { sd }, depth + 1, dev);
                    }
                    if let Some(e) = else_ {
                        self.text.push_str(&spell("else", '|', alias.1));
                        let e_live = live && selected.is_none();
                        let sd = if live { 0 } else { skip_depth + 1 };
                        self.nodes(e, regs, e_live, sd, depth + 1, dev);
                    }
                    self.text.push_str(&spell("fi", '~', alias.3));
                }
            }
        }
    }
}

pub struct BuiltCond {
    pub text: String,
    pub expected: String,
    pub max_depth: usize,
    pub nontrivial: bool,
    pub active_alias_in_skipped: bool,
}

pub fn build_cond(c: &CondCase, dev: Deviations) -> BuiltCond {
    let mut r = Render { text: String::from(COND_PREAMBLE), expected: String::new(), next_tag: 0, max_depth: 0, interesting_operand: false, alias_in_skipped: false, active_alias_in_skipped: false, junk_in_skipped: false };
    for i in 0..3 {
        r.text.push_str(&format!("\\count{}={}\\relax ", i + 1, c.regs[i]));
    }
    r.nodes(&c.body, &c.regs, true, 0, 0, dev);
    r.text.push('%');
    let nontrivial = r.max_depth >= 3 || r.interesting_operand || r.alias_in_skipped;
    BuiltCond { text: r.text, expected: r.expected, max_depth: r.max_depth, nontrivial, active_alias_in_skipped: r.active_alias_in_skipped }
}

fn int_strategy() -> impl Strategy<Value = i32> {
    prop_oneof![
        4 => -3i32..6,
        2 => prop_oneof![Just(-1i32), Just(-3), Just(-2), Just(-7), Just(-2147483647), Just(-2147483646), Just(2147483647), Just(2147483646), Just(1 << 30), Just(-(1 << 30) - 1)],
        1 => any::<i32>(),
    ]
}

fn operand_strategy() -> impl Strategy<Value = Operand> {
    prop_oneof![3 => int_strategy().prop_map(Operand::Const), 1 => (0u8..3).prop_map(Operand::Reg)]
}

fn kind_strategy() -> impl Strategy<Value = CondKind> {
    prop_oneof![
        1 => Just(CondKind::IfTrue),
        1 => Just(CondKind::IfFalse),
        2 => (operand_strategy(), prop_oneof![Just(Rel::Lt), Just(Rel::Eq), Just(Rel::Gt)], operand_strategy()).prop_map(|(a, r, b)| CondKind::IfNum(a, r, b)),
        2 => operand_strategy().prop_map(CondKind::IfOdd),
        2 => operand_strategy().prop_map(CondKind::IfCase),
    ]
}

fn alias_strategy() -> impl Strategy<Value = u8> {
    prop_oneof![7 => Just(0u8), 2 => Just(1u8), 2 => Just(2u8)]
}

fn node_strategy() -> impl Strategy<Value = Node> {
    let leaf = prop_oneof![
        6 => Just(Node::Tag),
        1 => Just(Node::JunkOpen),
        1 => Just(Node::JunkClose),
        1 => Just(Node::JunkUndefined),
        1 => Just(Node::JunkOr),
        1 => Just(Node::JunkElseFi),
    ];
    leaf.prop_recursive(6, 48, 4, |inner| {
        prop_oneof![
            1 => proptest::collection::vec(inner.clone(), 0..3).prop_map(Node::Group),
            5 => (
                kind_strategy(),
                proptest::collection::vec(proptest::collection::vec(inner.clone(), 0..3), 1..4),
                proptest::option::weighted(0.7, proptest::collection::vec(inner, 0..3)),
                (alias_strategy(), alias_strategy(), alias_strategy(), alias_strategy()),
            )
                .prop_map(|(kind, branches, else_, alias)| Node::Cond { kind, branches, else_, alias }),
        ]
    })
}

/// A conditional whose nesting reaches exactly `d` levels along one spine: at every level the next
/// level sits in a randomly chosen branch (selected or not), surrounded by small random material.
/// The free recursive strategy above almost never gets deeper than 4.
fn spine_strategy(d: u32) -> BoxedStrategy<Node> {
    if d == 0 {
        return Just(Node::Tag).boxed();
    }
    let small = || proptest::collection::vec(prop_oneof![4 => Just(Node::Tag), 1 => Just(Node::JunkOpen), 1 => Just(Node::JunkClose), 1 => Just(Node::JunkOr), 1 => Just(Node::JunkElseFi)], 0..2);
    (
        kind_strategy(),
        proptest::collection::vec(small(), 1..4),
        proptest::option::weighted(0.7, small()),
        (alias_strategy(), alias_strategy(), alias_strategy(), alias_strategy()),
        any::<u16>(),
        any::<bool>(),
        spine_strategy(d - 1),
    )
        .prop_map(|(kind, mut branches, mut else_, alias, pos, before, child)| {
            let slots = branches.len() + usize::from(else_.is_some());
            let k = ((pos as usize) * slots) >> 16;
            let target = if k < branches.len() { &mut branches[k] } else { else_.as_mut().unwrap() };
            if before {
                target.insert(0, child);
            } else {
                target.push(child);
            }
            Node::Cond { kind, branches, else_, alias }
        })
        .boxed()
}

fn cond_case_strategy() -> impl Strategy<Value = CondCase> {
    let body = prop_oneof![
        3 => proptest::collection::vec(node_strategy(), 1..4),
        1 => (1u32..7).prop_flat_map(|d| (proptest::collection::vec(Just(Node::Tag), 0..2), spine_strategy(d)).prop_map(|(mut v, n)| { v.push(n); v.push(Node::Tag); v })),
    ];
    ([int_strategy(), int_strategy(), int_strategy()], body).prop_map(|(regs, body)| CondCase { regs, body })
}

fn cond_oracle(ctx: &Ctx, c: &CondCase, case: &mut Case) -> Verdict {
    let b = build_cond(c, Deviations::default());
    case.note = Some(b.text.clone());
    case.class_if(b.max_depth >= 3, "depth>=3");
    case.class_if(b.max_depth >= 5, "depth>=5");
    case.class_if(b.max_depth >= 6, "depth>=6");
    case.class_if(b.nontrivial, "nontrivial");
    case.class_if(b.active_alias_in_skipped, "active-character alias of a conditional primitive in skipped text");
    let r = texvm::run_program(&VmOptions::default(), &b.text);
    let got = texvm::plain(&r.out);
    if r.error.is_none() && got == b.expected {
        return Verdict::pass(b.nontrivial);
    }
    if ctx.known("flag:ifodd_false_for_negative") {
        let b2 = build_cond(c, Deviations { ifodd_false_for_negative: true });
        if r.error.is_none() && got == b2.expected {
            return Verdict::Known("flag:ifodd_false_for_negative".into());
        }
    }
    Verdict::Fail(format!("conditional output differs from the model\nprogram:  {}\nexpected: {}\ngot:      {}\nerror:    {:?}", b.text, b.expected, got, r.error))
}

// ------------------------------------------------------------------------------------
// Expansion: differential (optimised vs simple \expandafter) and model

#[derive(Clone, Copy, Debug, PartialEq, Eq, Serialize, Deserialize)]
pub enum XTok {
    Xa,       // \expandafter
    XaAlias,  // \xa (\let\xa=\expandafter)
    NoExpand, // \noexpand
    M(u8),    // macros \A \B \C \E \F (parameterless)
    D,        // \D#1 -> [#1]
    TheCount, // \the\count1
    L(u8),    // letters a..d
    Open,
    Close,
    IfTrue,
    IfFalse,
    Else,
    Fi,
    Relax,
}

const XP_PREAMBLE: &str = "\\def\\A{\\B x}\\def\\B{\\C y}\\def\\C{z}\\def\\E{}\\def\\F{\\A\\A}\\def\\D#1{[#1]}\\count1=7\\relax \\let\\xa=\\expandafter ";
const MACROS: [&str; 5] = ["A", "B", "C", "E", "F"];

fn render_x(ts: &[XTok]) -> String {
    let mut s = String::new();
    for t in ts {
        match t {
            XTok::Xa => s.push_str("\\expandafter "),
            XTok::XaAlias => s.push_str("\\xa "),
            XTok::NoExpand => s.push_str("\\noexpand "),
            XTok::M(i) => {
                s.push('\\');
                s.push_str(MACROS[(*i % 5) as usize]);
                s.push(' ');
            }
            XTok::D => s.push_str("\\D "),
            XTok::TheCount => s.push_str("\\the\\count1 "),
            XTok::L(i) => s.push((b'a' + (*i % 4)) as char),
            XTok::Open => s.push('{'),
            XTok::Close => s.push('}'),
            XTok::IfTrue => s.push_str("\\iftrue "),
            XTok::IfFalse => s.push_str("\\iffalse "),
            XTok::Else => s.push_str("\\else "),
            XTok::Fi => s.push_str("\\fi "),
            XTok::Relax => s.push_str("\\relax "),
        }
    }
    s
}

fn xtok_strategy() -> impl Strategy<Value = XTok> {
    prop_oneof![
        6 => Just(XTok::Xa),
        2 => Just(XTok::XaAlias),
        2 => Just(XTok::NoExpand),
        6 => (0u8..5).prop_map(XTok::M),
        1 => Just(XTok::D),
        1 => Just(XTok::TheCount),
        4 => (0u8..4).prop_map(XTok::L),
        1 => Just(XTok::Open),
        1 => Just(XTok::Close),
        1 => Just(XTok::IfTrue),
        1 => Just(XTok::IfFalse),
        1 => Just(XTok::Else),
        1 => Just(XTok::Fi),
        1 => Just(XTok::Relax),
    ]
}

/// Drop closers that have nothing to close and append missing closers, so that most streams
/// are well formed (70% of the raw streams ended in an early error otherwise). Every fourth
/// stream (by length) is left raw so malformed input stays covered.
fn well_form(ts: &[XTok]) -> Vec<XTok> {
    if ts.len() % 4 == 3 {
        return ts.to_vec();
    }
    let mut out = vec![];
    // stack of open constructs: 0 = group, 1 = conditional in true/false part, 2 = conditional after \else
    let mut stack: Vec<u8> = vec![];
    for t in ts {
        match t {
            XTok::Open => {
                stack.push(0);
                out.push(*t);
            }
            XTok::Close => {
                if stack.last() == Some(&0) {
                    stack.pop();
                    out.push(*t);
                }
            }
            XTok::IfTrue | XTok::IfFalse => {
                stack.push(1);
                out.push(*t);
            }
            XTok::Else => {
                if stack.last() == Some(&1) {
                    *stack.last_mut().unwrap() = 2;
                    out.push(*t);
                }
            }
            XTok::Fi => {
                if matches!(stack.last(), Some(1) | Some(2)) {
                    stack.pop();
                    out.push(*t);
                }
            }
            _ => out.push(*t),
        }
    }
    // two letters so trailing \expandafter / \D have operands, then the closers
    out.push(XTok::L(0));
    out.push(XTok::L(1));
    while let Some(k) = stack.pop() {
        out.push(if k == 0 { XTok::Close } else { XTok::Fi });
    }
    out
}

fn diff_oracle(ts: &Vec<XTok>, case: &mut Case) -> Verdict {
    let ts = &well_form(ts);
    let text = format!("{}{}%", XP_PREAMBLE, render_x(ts));
    case.note = Some(text.clone());
    let run = |simple: bool| {
        crate::engine::panics::catch(|| {
            let opts = VmOptions { simple_expandafter: simple, budget: 5000, ..Default::default() };
            texvm::run_program(&opts, &text)
        })
    };
    let a = run(false);
    let b = run(true);
    let mut chain = 0;
    let mut max_chain = 0;
    let mut i = 0;
    while i < ts.len() {
        if matches!(ts[i], XTok::Xa | XTok::XaAlias) {
            chain += 1;
            max_chain = max_chain.max(chain);
            i += 2;
        } else {
            chain = 0;
            i += 1;
        }
    }
    case.class_if(max_chain >= 2, "chain>=2");
    case.class_if(max_chain >= 4, "chain>=4");
    match (a, b) {
        (Ok(a), Ok(b)) => {
            case.class_if(a.error.is_some(), "ends in error");
            if a.out != b.out || a.error != b.error {
                return Verdict::Fail(format!(
                    "optimised and simple \\expandafter differ\nprogram:   {}\noptimised: {} error={:?}\nsimple:    {} error={:?}",
                    text,
                    texvm::render(&a.out),
                    a.error,
                    texvm::render(&b.out),
                    b.error
                ));
            }
            Verdict::pass(max_chain >= 2)
        }
        (Err(pa), Err(pb)) => {
            if pa.budget && pb.budget {
                Verdict::Skip("budget")
            } else if pa.budget != pb.budget {
                Verdict::Fail(format!("one implementation exceeds the budget, the other panics: {} / {}\nprogram: {}", pa.message, pb.message, text))
            } else {
                // Both panic the same way: a totality matter (C09), not a difference.
                Verdict::Skip("both panic (C09)")
            }
        }
        (Ok(_), Err(p)) | (Err(p), Ok(_)) => {
            if p.budget {
                Verdict::Fail(format!("only one implementation exceeds the expansion budget\nprogram: {}", text))
            } else {
                Verdict::Fail(format!("only one implementation panics: {} at {}\nprogram: {}", p.message, p.site(), text))
            }
        }
    }
}

/// One-step expansion model over a restricted alphabet: \expandafter (and alias), parameterless
/// macros, letters.
fn expand_once_model(s: &[XTok]) -> Option<Vec<XTok>> {
    if s.is_empty() {
        return None;
    }
    Some(match s[0] {
        XTok::M(i) => {
            let mut out = match i % 5 {
                0 => vec![XTok::M(1), XTok::L(23)], // \B x   (L(23) renders as 'x' below)
                1 => vec![XTok::M(2), XTok::L(24)], // \C y
                2 => vec![XTok::L(25)],             // z
                3 => vec![],
                _ => vec![XTok::M(0), XTok::M(0)],
            };
            out.extend_from_slice(&s[1..]);
            out
        }
        XTok::Xa | XTok::XaAlias => {
            if s.len() < 3 {
                return None;
            }
            let mut out = vec![s[1]];
            out.extend(expand_once_model(&s[2..])?);
            out
        }
        _ => s.to_vec(),
    })
}

fn model_tok_to_out(t: &XTok) -> OutTok {
    match t {
        XTok::Xa => OutTok::Cs("expandafter".into()),
        XTok::XaAlias => OutTok::Cs("xa".into()),
        XTok::M(i) => OutTok::Cs(MACROS[(*i % 5) as usize].into()),
        XTok::L(23) => OutTok::Ch('x', 11),
        XTok::L(24) => OutTok::Ch('y', 11),
        XTok::L(25) => OutTok::Ch('z', 11),
        XTok::L(i) => OutTok::Ch((b'a' + (*i % 4)) as char, 11),
        other => panic!("not in the model alphabet: {other:?}"),
    }
}

fn chain_strategy() -> impl Strategy<Value = Vec<XTok>> {
    let t = prop_oneof![
        6 => Just(XTok::Xa),
        2 => Just(XTok::XaAlias),
        5 => (0u8..5).prop_map(XTok::M),
        3 => (0u8..4).prop_map(XTok::L),
    ];
    proptest::collection::vec(t, 1..14)
}

fn chain_oracle(ts: &Vec<XTok>, simple: bool, case: &mut Case) -> Verdict {
    // two trailing letters guarantee every \expandafter has its two tokens
    let mut s = ts.clone();
    s.push(XTok::L(0));
    s.push(XTok::L(1));
    let Some(model) = expand_once_model(&s) else { return Verdict::Skip("malformed") };
    let expected: Vec<OutTok> = model.iter().map(model_tok_to_out).collect();
    let text = format!("{}\\expandafter\\vpcapture {}\\vpstop%", XP_PREAMBLE, render_x(&s));
    case.note = Some(text.clone());
    let opts = VmOptions { simple_expandafter: simple, budget: 5000, ..Default::default() };
    let r = texvm::run_program(&opts, &text);
    let mut k = 0;
    while k < s.len() && matches!(s[k], XTok::Xa | XTok::XaAlias) {
        k += 2;
    }
    let chain = k / 2;
    case.class_if(chain >= 2, "chain>=2");
    case.class_if(chain >= 4, "chain>=4");
    if r.error.is_some() || r.out != expected {
        return Verdict::Fail(format!(
            "\\expandafter{} does not expand exactly one token once\nprogram:  {}\nexpected: {}\ngot:      {} error={:?}",
            if simple { " (simple)" } else { " (optimised)" },
            text,
            texvm::render(&expected),
            texvm::render(&r.out),
            r.error
        ));
    }
    Verdict::pass(chain >= 2)
}

#[derive(Clone, Copy, Debug, Serialize, Deserialize)]
pub enum NTok {
    NoExpandM(u8),
    M(u8),
    L(u8),
}

fn noexpand_oracle(ts: &Vec<NTok>, case: &mut Case) -> Verdict {
    let full = ["zyx", "zy", "z", "", "zyxzyx"];
    let mut text = String::from(XP_PREAMBLE);
    let mut expected: Vec<OutTok> = vec![];
    let mut n_noexpand = 0;
    for t in ts {
        match t {
            NTok::NoExpandM(i) => {
                let m = MACROS[(*i % 5) as usize];
                text.push_str(&format!("\\noexpand\\{} ", m));
                expected.push(OutTok::Cs(m.into()));
                n_noexpand += 1;
            }
            NTok::M(i) => {
                text.push_str(&format!("\\{} ", MACROS[(*i % 5) as usize]));
                for c in full[(*i % 5) as usize].chars() {
                    expected.push(OutTok::Ch(c, 11));
                }
            }
            NTok::L(i) => {
                let c = (b'a' + (*i % 4)) as char;
                text.push(c);
                expected.push(OutTok::Ch(c, 11));
            }
        }
    }
    text.push('%');
    case.note = Some(text.clone());
    let r = texvm::run_program(&VmOptions::default(), &text);
    if r.error.is_some() || r.out != expected {
        return Verdict::Fail(format!("\\noexpand does not suppress exactly one expansion\nprogram:  {}\nexpected: {}\ngot:      {} error={:?}", text, texvm::render(&expected), texvm::render(&r.out), r.error));
    }
    Verdict::pass(n_noexpand >= 1 && ts.len() >= 2)
}

pub fn run(ctx: &Ctx) {
    ctx.rule("conditionals: well-nested trees (depth 0..6) of \\iftrue \\iffalse \\ifnum \\ifodd \\ifcase with \\or/\\else/\\fi, i32 operands (constants or \\count reads), unique 3-letter tags in every branch, junk (unbalanced braces, undefined control sequences, \\or at nesting depth>=1, extra \\else inside a nested conditional) and \\let-aliases (control sequences and active characters) of every conditional primitive in live and skipped text; output compared with a tree evaluator. non-trivial = depth>=3 or a negative/out-of-range operand evaluated or an aliased primitive in skipped text. expansion: random token streams run under the optimised and the simple \\expandafter (differential), chains of \\expandafter^k against a one-step expansion model observed with \\vpcapture, and \\noexpand sequences; non-trivial = chain length>=2; distinct by program text");
    ctx.assume("\\or at nesting depth 0 of a skipped non-\\ifcase branch is an error in TeX (Extra \\or) and is not generated");
    ctx.assume("\\expandafter applied to \\noexpand is only checked differentially (its TeX meaning involves the dont_expand marker and is outside the stated property)");
    let n = ctx.tier.pick(250_000u64, 3_000_000u64);
    run_generated(ctx, "conditionals", n, cond_case_strategy, |c: &CondCase, case| cond_oracle(ctx, c, case));
    let n = ctx.tier.pick(120_000u64, 2_000_000u64);
    run_generated(ctx, "expandafter_differential", n, || proptest::collection::vec(xtok_strategy(), 0..24), |ts: &Vec<XTok>, case| diff_oracle(ts, case));
    let n = ctx.tier.pick(90_000u64, 1_000_000u64);
    run_generated(ctx, "expandafter_model_optimised", n, chain_strategy, |ts: &Vec<XTok>, case| chain_oracle(ts, false, case));
    run_generated(ctx, "expandafter_model_simple", n / 2, chain_strategy, |ts: &Vec<XTok>, case| chain_oracle(ts, true, case));
    let n = ctx.tier.pick(40_000u64, 400_000u64);
    let nt = prop_oneof![(0u8..5).prop_map(NTok::NoExpandM), (0u8..5).prop_map(NTok::M), (0u8..4).prop_map(NTok::L)];
    run_generated(ctx, "noexpand", n, move || proptest::collection::vec(nt.clone(), 0..10), |ts: &Vec<NTok>, case| noexpand_oracle(ts, case));
}
