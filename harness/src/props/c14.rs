//! C14 — Hyphenating a horizontal list changes nothing unless a break is taken.
//!
//! Implementation under test: `boxworks_hyphenate::Hyphenator` (`boxworks::Hyphenator::hyphenate`)
//! applied to lists made by `boxworks_text::TextPreprocessorImpl`.
//!
//! Oracle (implementation independent; only the list before, the list after, the pattern text, the
//! rule table of the case and the two minimums are looked at):
//!   (i)   sequential alignment: an output node that is not the next original node must be an inserted
//!         discretionary, and the `replace_count` nodes after it are the next original nodes;
//!   (ii)  original characters of the pre-break list end with the hyphen character; without it, followed
//!         by those of the post-break list, they carry the same letters as the replaced nodes; a
//!         discretionary never separates a character from the implicit kern after it;
//!   (iii) soundness: every inserted discretionary lies in a word TeX 894-899 would try (own model of
//!         the discovery), at a position that `models::liang` allows and the minimums admit;
//!   (iv)  completeness: every admitted position has a discretionary unless it lies strictly inside the
//!         letters replaced by a discretionary inserted at an earlier position (TeX 913-916: the first
//!         hyphen of a cut prefix wins, the branches are developed until they synchronise and hyphens
//!         passed over meanwhile are dropped; a hyphen exactly at the synchronisation point is kept).
//!         For "simple" fonts (cmr10 among them) TeX 913-916 is replayed on letter counts and the
//!         positions and replaced ranges must match exactly (`expected_simple`).
//!
//!   (v)   comparison with the list TeX 903-918 builds (`models::tex_hyph`): which permitted positions
//!         are dropped while the branches synchronise, the replace counts, and every glyph, kern and
//!         boundary flag inside the pre-break and post-break lists. The statement of C14 does not demand
//!         this list, so a difference that ONLY (v) sees - clauses (i)-(iv) hold and the discretionaries stand
//!         at exactly the letter positions TeX keeps (which permitted positions TeX 913-916 drops during
//!         synchronisation is read off the model; this is clause (iv) made exact) - is counted
//!         (`differs_from_tex_reconstitution_but_stated_clauses_hold` and `differs:*`) and passes. What
//!         the model DECIDES: exactly which words TeX itself rebuilds differently from the original nodes
//!         (TeX's anomalies; there (i) cannot hold against the original nodes and (i)-(iv) must hold
//!         either against them or against the nodes TeX rebuilds), and the reference of the listed
//!         finding KF-C14-1.
//!
//! Sub-checks
//!   unit_goldens  the 33 TeX-verified unit tests of boxworks-hyphenate (read from its source file): the
//!                 ORACLE is run on TeX's expected list (calibration), then the implementation is compared.
//!   alice_golden  TeX's own hyphenated lists for 995 lines of Alice in Wonderland (boxworks-bin golden
//!                 files): oracle on TeX's output (calibration of discovery, minimums, plain patterns,
//!                 the exact span model and the kern rule). The implementation is not involved.
//!   fixed         hand-made cases (DESIGN.md examples, D23 shapes, witnesses of the findings).
//!   cmr10         generated text in cmr10.
//!   synth         generated text in cmr10's metrics with a generated lig/kern program.
//!   cmr10_exhaustive  every word over {f,i,l,a} up to 6 (thorough 8) letters x every hyphen mask in cmr10.
//!
//! Debugging aids: `VP_C14_ONLY=<sub-check>` runs one sub-check, `VP_C14_SHOW=1` prints every list (and
//! the TeX model's), `VP_C14_DEBUG_ANOM=1` prints the cases of the rarer anomaly classes.

use crate::engine::*;
use crate::models::liang::{self, Exception, Pattern};
use crate::models::ligkern_interp::RawFont;
use crate::models::tex_hyph;
use crate::models::tfm_arith;
use boxworks::ds;
use boxworks::TextPreprocessor;
use proptest::prelude::*;
use serde::{Deserialize, Serialize};
use std::cell::RefCell;
use std::collections::BTreeSet;
use std::rc::Rc;
use std::sync::OnceLock;

const CMR10: &[u8] = include_bytes!("/repo/crates/tfm/corpus/computer-modern/cmr10.tfm");
const PLAIN_PATTERNS: &str = include_str!("/repo/crates/hyphenate/src/plain_tex_patterns.txt");
const PLAIN_EXCEPTIONS: &str = include_str!("/repo/crates/hyphenate/src/plain_tex_exceptions.txt");
const UNIT_TESTS_SRC: &str = include_str!("/repo/crates/boxworks-hyphenate/src/lib.rs");
const ALICE_PLAIN: &str = "/repo/crates/boxworks-bin/tests/alice_in_wonderland_hlists.txt";
const ALICE_HYPH: &str = "/repo/crates/boxworks-bin/tests/alice_in_wonderland_hlists_hyphenated.txt";

pub const FLAG_D23: &str = "flag:glue_ending_a_letterless_prefix_starts_no_attempt";
pub const FLAG_LB: &str = "flag:word_always_rebuilt_from_left_boundary";
pub const FLAG_RB: &str = "flag:sync_ligature_right_boundary_flag_taken_from_left";
pub const FLAG_REBUILD: &str = "flag:word_without_permitted_hyphen_is_rebuilt_anyway";
/// Not a defect of the pinned tree on its own (there FLAG_LB covers it): what remains of FLAG_LB if the
/// lig/kern run of a rebuilt word is started at the boundary only when the first letter node is a
/// ligature that includes the boundary. TeX 903 starts from the NODE BEFORE the word when that is a
/// character or ligature of the word's font, so a ligature rule between that node and the first letter
/// (", b -> , x") is applied again; a run that starts at the first letter loses it.
pub const FLAG_START: &str = "flag:word_rebuilt_from_its_first_letter_not_from_the_node_before_it";

// ---------------------------------------------------------------------------------------------
// Case representation

#[derive(Debug, Clone, Serialize, Deserialize, PartialEq, Eq)]
pub enum Item {
    /// argument of one `add_word` call (a TeX "word": characters between two spaces)
    Word(String),
    /// one `add_space` call
    Space,
    /// `activate_font(n)`; fonts 0 and 1 are the same metric file (`{\otherfont ...}` in TeX)
    Font(u8),
    /// a node pushed directly: 0 penalty, 1 explicit kern, 2 math-on, 3 rule, 4 whatsit, 5 empty hbox,
    /// 6 mark, 7 insertion, 8 adjust, 9 empty vbox, 10 math-off, 11 discretionary `\-`, 12 accent kern,
    /// 13 math kern (anything else: empty hbox)
    Node(u8),
}

#[derive(Debug, Clone, Serialize, Deserialize, PartialEq, Eq)]
pub struct LCase {
    /// `None`: cmr10 as it is. `Some`: cmr10's metrics with this lig/kern program (one rule per
    /// entry in the compact notation of `tfm::ligkern::lang::Operation::parse_compact`; `|` is the
    /// boundary character on either side).
    pub rules: Option<Vec<String>>,
    /// `None`: plain TeX's patterns and exceptions. `Some`: exactly these patterns.
    pub patterns: Option<Vec<String>>,
    /// extra `\hyphenation{...}` words
    pub exceptions: Vec<String>,
    pub lmin: i32,
    pub rmin: i32,
    pub items: Vec<Item>,
}

fn render_items(items: &[Item]) -> String {
    let mut s = String::new();
    for it in items {
        match it {
            Item::Word(w) => s.push_str(w),
            Item::Space => s.push(' '),
            Item::Font(n) => s.push_str(&format!("<font{n}>")),
            Item::Node(k) => s.push_str(match k {
                0 => "<penalty>",
                1 => "<kern>",
                2 => "<math>",
                3 => "<rule>",
                4 => "<whatsit>",
                6 => "<mark>",
                7 => "<insertion>",
                8 => "<adjust>",
                9 => "<vbox>",
                10 => "<math-off>",
                11 => "<\\->",
                12 => "<accent-kern>",
                13 => "<math-kern>",
                _ => "<hbox>",
            }),
        }
    }
    s
}

fn render_case(c: &LCase) -> String {
    format!(
        "text={:?} font={} patterns={} exceptions={:?} lmin={} rmin={}",
        render_items(&c.items),
        match &c.rules {
            None => "cmr10".to_string(),
            Some(r) => format!("{:?}", r),
        },
        match &c.patterns {
            None => "plain".to_string(),
            Some(p) => format!("{:?}", p),
        },
        c.exceptions,
        c.lmin,
        c.rmin
    )
}

// ---------------------------------------------------------------------------------------------
// Building the list and running the implementation

#[derive(Debug)]
struct DummyWhatsit;
impl ds::Whatsit for DummyWhatsit {}

thread_local! {
    static CMR: RefCell<Option<(tfm::File, tfm::ligkern::CompiledProgram)>> = const { RefCell::new(None) };
    static CMR_RAW: RefCell<Option<Rc<RawFont>>> = const { RefCell::new(None) };
    static PLAIN: RefCell<Option<hyphenate::Hyphenator>> = const { RefCell::new(None) };
}

/// cmr10's raw lig/kern instructions for the TeX model (`models::tex_hyph`), read from the metric file
/// the way TeX reads it; never from the compiled program.
fn cmr10_raw() -> Rc<RawFont> {
    CMR_RAW.with(|c| {
        let mut c = c.borrow_mut();
        if c.is_none() {
            let f = tfm::File::deserialize(CMR10).0.expect("cmr10.tfm parses");
            *c = Some(Rc::new(RawFont::from_tfm_file(&f)));
        }
        c.as_ref().unwrap().clone()
    })
}

fn cmr10() -> (tfm::File, tfm::ligkern::CompiledProgram) {
    CMR.with(|c| {
        let mut c = c.borrow_mut();
        if c.is_none() {
            let mut f = tfm::File::deserialize(CMR10).0.expect("cmr10.tfm parses");
            let p = tfm::ligkern::CompiledProgram::compile_from_tfm_file(&mut f).0;
            *c = Some((f, p));
        }
        c.as_ref().unwrap().clone()
    })
}

/// One lig/kern rule as far as the oracle needs it (read from the case's own text).
#[derive(Debug, Clone, Copy, PartialEq, Eq)]
struct Rule {
    /// `None` = left boundary
    l: Option<char>,
    /// `'|'` = right boundary (also a real `|`)
    r: char,
    /// inserted character of a ligature rule; `None` for a kern
    lig: Option<char>,
    /// a kern, or a ligature that replaces both characters (`=:`)
    plain: bool,
}

fn parse_rule(s: &str) -> Option<Rule> {
    let mut w = s.split_ascii_whitespace();
    let (a, _, c) = (w.next()?, w.next()?, w.next()?);
    let mut ac = a.chars();
    let (l, r) = (ac.next()?, ac.next()?);
    let lig = if c.contains('[') { None } else { c.chars().filter(|x| *x != '^').nth(1) };
    let plain = match lig {
        None => true,
        Some(z) => c == format!("_{z}^_"),
    };
    Some(Rule { l: if l == '|' { None } else { Some(l) }, r, lig, plain })
}

/// cmr10's ligature rules (the only ones that matter for the TeX anomaly test below).
const CMR10_LIGS: &[(char, char, char)] = &[
    ('f', 'f', '\u{b}'),
    ('f', 'i', '\u{c}'),
    ('f', 'l', '\u{d}'),
    ('\u{b}', 'i', '\u{e}'),
    ('\u{b}', 'l', '\u{f}'),
    ('`', '`', '\\'),
    ('\'', '\'', '"'),
    ('-', '-', '{'),
    ('{', '-', '|'),
    ('!', '`', '<'),
    ('?', '`', '>'),
];

fn font_rules(c: &LCase) -> Vec<Rule> {
    match &c.rules {
        None => CMR10_LIGS.iter().map(|&(l, r, z)| Rule { l: Some(l), r, lig: Some(z), plain: true }).collect(),
        Some(rs) => rs.iter().filter_map(|s| parse_rule(s)).collect(),
    }
}

struct Built {
    orig: Vec<ds::Horizontal>,
    program: tfm::ligkern::CompiledProgram,
    /// the same lig/kern program as raw instructions, for the TeX model
    raw: Rc<RawFont>,
    /// TeX 568/572 for the font's design size (kern widths of the TeX model)
    scale: Option<tfm_arith::TexScale>,
}

/// The directly pushed node of `Item::Node(k)`.
fn pushed_node(k: u8) -> ds::Horizontal {
    match k {
        0 => ds::Penalty(50).into(),
        1 => ds::Kern { width: common::Scaled::ONE, kind: ds::KernKind::Explicit }.into(),
        2 => ds::Math::Before.into(),
        3 => ds::Rule::new().into(),
        4 => ds::Horizontal::Whatsit(Rc::new(DummyWhatsit)),
        6 => ds::Mark { list: vec![] }.into(),
        7 => ds::Insertion { box_number: 100, height: common::Scaled::ZERO, split_max_depth: common::Scaled::ZERO, split_top_skip: common::Glue::ZERO, float_penalty: 0, vbox: vec![] }.into(),
        8 => ds::Adjust { list: vec![] }.into(),
        9 => ds::VBox::default().into(),
        10 => ds::Math::After.into(),
        11 => ds::Discretionary { pre_break: vec![ds::Char { char: '-', font: 0 }.into()], post_break: vec![], replace_count: 0 }.into(),
        12 => ds::Kern { width: common::Scaled::ONE, kind: ds::KernKind::Accent }.into(),
        13 => ds::Kern { width: common::Scaled::ONE, kind: ds::KernKind::Math }.into(),
        _ => ds::HBox::default().into(),
    }
}

fn build(c: &LCase) -> Result<Built, &'static str> {
    let mut raw: Option<Rc<RawFont>> = None;
    let (tfm_file, program) = match &c.rules {
        None => cmr10(),
        Some(rules) => {
            let (mut f, _) = cmr10();
            let text = rules.join("\n");
            let Ok((p, e)) = tfm::ligkern::lang::Program::parse_compact(&text) else {
                return Err("rules do not parse");
            };
            let mut eps: Vec<(tfm::Char, u16)> = e.iter().map(|(c, e)| (*c, *e)).collect();
            eps.sort();
            raw = Some(Rc::new(RawFont::from_program(&p, eps, &[])));
            f.replace_lig_kern_program(p, e);
            // The font both sides get is the one a TeX run would load: the metric file written to bytes
            // and read back. (In memory, `replace_lig_kern_program` leaves `left_boundary_char_entrypoint`
            // one instruction off when the font has a boundary character, so a font with rules for both
            // boundaries would lose its left boundary program; the bytes are right.)
            let Ok(mut f) = tfm::File::deserialize(&f.serialize()).0 else {
                return Err("synthetic metric file does not load");
            };
            let (p, errs) = tfm::ligkern::CompiledProgram::compile_from_tfm_file(&mut f);
            if !errs.is_empty() {
                return Err("lig/kern program has an infinite loop");
            }
            (f, p)
        }
    };
    let mut tp = boxworks_text::TextPreprocessorImpl::new(boxworks_text::Params::plain_tex_defaults());
    tp.register_font(0, &tfm_file, program.clone());
    tp.register_font(1, &tfm_file, program.clone());
    tp.activate_font(0);
    let mut list: Vec<ds::Horizontal> = vec![];
    for it in &c.items {
        match it {
            Item::Word(w) => tp.add_word(w, &mut list),
            Item::Space => tp.add_space(&mut list),
            Item::Font(n) => tp.activate_font((*n as u32) & 1),
            Item::Node(k) => list.push(pushed_node(*k)),
        }
    }
    let raw = raw.unwrap_or_else(cmr10_raw);
    let scale = tfm_arith::tex_scale(tfm_file.header.design_size.0);
    Ok(Built { orig: list, program, raw, scale })
}

fn run_impl(c: &LCase, b: &Built) -> Vec<ds::Horizontal> {
    use boxworks::Hyphenator;
    let inner = match &c.patterns {
        None => PLAIN.with(|p| p.borrow_mut().take()).unwrap_or_else(hyphenate::Hyphenator::plain_tex_en_us),
        Some(ps) => {
            let mut h = hyphenate::Hyphenator::default();
            h.load_patterns(&ps.join(" "));
            h
        }
    };
    let reuse = c.patterns.is_none() && c.exceptions.is_empty();
    let mut h = boxworks_hyphenate::Hyphenator {
        lig_kern_program: b.program.clone(),
        hyphenator: inner,
        left_hyphen_min: c.lmin,
        right_hyphen_min: c.rmin,
    };
    if !c.exceptions.is_empty() {
        h.hyphenator.insert_exceptions(&c.exceptions.join(" "));
    }
    let mut list = b.orig.clone();
    h.hyphenate(&mut list);
    if reuse {
        let inner = h.hyphenator;
        PLAIN.with(|p| *p.borrow_mut() = Some(inner));
    }
    list
}

// ---------------------------------------------------------------------------------------------
// Liang positions (models::liang)

struct Lex {
    patterns: std::borrow::Cow<'static, [Pattern]>,
    exceptions: Vec<Exception>,
}

fn plain_lex() -> &'static (Vec<Pattern>, Vec<Exception>) {
    static L: OnceLock<(Vec<Pattern>, Vec<Exception>)> = OnceLock::new();
    L.get_or_init(|| {
        let ps = PLAIN_PATTERNS.split_whitespace().map(|s| Pattern::parse(s).expect("plain pattern parses")).collect();
        let es = PLAIN_EXCEPTIONS.split_whitespace().map(Exception::parse).collect();
        (ps, es)
    })
}

impl Lex {
    fn of(c: &LCase) -> Result<Lex, String> {
        let (patterns, mut exceptions): (std::borrow::Cow<'static, [Pattern]>, Vec<Exception>) = match &c.patterns {
            None => {
                let (p, e) = plain_lex();
                (std::borrow::Cow::Borrowed(&p[..]), e.clone())
            }
            Some(ps) => {
                let mut v: Vec<Pattern> = vec![];
                for s in ps {
                    let p = Pattern::parse(s)?;
                    if v.iter().any(|q| q.same_key(&p)) {
                        return Err("duplicate pattern".into());
                    }
                    v.push(p);
                }
                (std::borrow::Cow::Owned(v), vec![])
            }
        };
        for e in &c.exceptions {
            exceptions.push(Exception::parse(e));
        }
        Ok(Lex { patterns, exceptions })
    }
    /// TeX's permitted positions for a word (given in its original case).
    fn positions(&self, letters: &[char]) -> Vec<usize> {
        let w: Vec<char> = letters.iter().map(|c| c.to_ascii_lowercase()).collect();
        for e in self.exceptions.iter().rev() {
            if e.letters == w {
                return e.positions();
            }
        }
        liang::positions_from_digits(&liang::max_digits(&self.patterns, &w))
    }
}

/// Liang positions of a word that the minimums admit.
fn permitted(w: &WordInfo, lex: &Lex, lmin: i32, rmin: i32) -> Vec<usize> {
    let (l_hyf, r_hyf) = (norm_min(lmin), norm_min(rmin));
    let n = w.letters.len();
    lex.positions(&w.letters).into_iter().filter(|&p| p >= l_hyf && n >= r_hyf && p <= n - r_hyf).collect()
}

/// TeX 1091 (`norm_min`).
fn norm_min(h: i32) -> usize {
    if h <= 0 {
        1
    } else if h >= 64 {
        63
    } else {
        h as usize
    }
}

// ---------------------------------------------------------------------------------------------
// Word discovery after TeX 894-899

fn is_letter(c: char) -> bool {
    // plain TeX: \lccode non-zero exactly for the 52 ASCII letters; \uchyph=1
    c.is_ascii_alphabetic()
}

#[derive(Debug, Clone, Copy, PartialEq, Eq)]
enum HyfBchar {
    NonChar,
    FontBchar,
    Char(char),
}

#[derive(Debug, Clone)]
struct WordInfo {
    /// index of the glue node that started the attempt (TeX 894 `cur_p`)
    glue: usize,
    /// index of the first letter node and of the last node TeX absorbs (`hb`)
    first: usize,
    last: usize,
    font: u32,
    letters: Vec<char>,
    /// `before[k]` = letters in nodes `first .. first+k`
    before: Vec<usize>,
    /// the node before the first letter is a character or ligature of the same font (`hu[0]`)
    ha_char: bool,
    /// the character TeX uses as right boundary when it is a real one (`hyf_bchar` from a node)
    bchar: Option<char>,
    /// TeX's `hyf_bchar` exactly (TeX 897-898): `non_char` after a letter, the font's boundary
    /// character after an implicit kern or a ligature with the right boundary, else the character
    /// that ended the word
    hyf_bchar: HyfBchar,
    /// TeX 899 lets the word be hyphenated
    tried: bool,
    cut_at_63: bool,
    prefix_has_char: bool,
}

#[derive(Debug, Clone, Copy, Default, PartialEq, Eq)]
struct Dev {
    /// D23: the node that stops a letterless prefix scan is consumed; if it is a glue, that glue
    /// starts no attempt of its own.
    abort_consumes: bool,
    /// A word with a permitted hyphen is rebuilt from its letters by a lig/kern run that starts at the
    /// left boundary (TeX 903 starts at the boundary only when the node before the word is a character
    /// of another font, or the first letter node / the node before it is a ligature that includes the
    /// boundary; otherwise it starts at the node before the word or at the first letter). Also makes
    /// the rebuilding of `rebuild_all` start at the boundary.
    lb_always: bool,
    /// A word with a permitted hyphen is rebuilt from its letters by a lig/kern run that starts at the
    /// first letter (at the left boundary only if the first letter node is a ligature including the
    /// boundary), never from the node before the word.
    from_first_letter: bool,
    /// A tried word WITHOUT a permitted hyphen is rebuilt from its letters too (TeX 902 returns before
    /// touching the list). Visible when the rebuilt word differs from the nodes that were there: an
    /// implicit kern that belongs to a following font, a ligature with the character after the word
    /// (TeX's own anomaly, but TeX only shows it when a hyphen is found). The rebuilding run starts at
    /// the left boundary if `lb_always` or if the first letter node is a ligature including the boundary.
    rebuild_all: bool,
    /// A ligature of the main list that lies among the nodes a discretionary replaces may carry
    /// `includes_right_boundary = includes_left_boundary` of the true node (field copied from the wrong
    /// source in the synchronisation loop).
    sync_rb_from_lb: bool,
    /// Not a deviation: the reference list is what TeX itself rebuilds in one of its anomalies. In
    /// anomaly (c) the rebuilt word begins with the boundary's kern a second time, so a discretionary
    /// may stand before (and replace) implicit kerns in front of the first letter node.
    anomaly_reference: bool,
}

/// The list the implementation would produce without any discretionary under `dev`, and the words
/// of that list (positions of the rebuilt words are known by construction).
fn deviating_original(orig: &[ds::Horizontal], program: &tfm::ligkern::CompiledProgram, dev: Dev, lex: &Lex, lmin: i32, rmin: i32) -> (Vec<ds::Horizontal>, Vec<WordInfo>) {
    let mut words = discover(orig, dev);
    if !dev.lb_always && !dev.rebuild_all && !dev.from_first_letter {
        return (orig.to_vec(), words);
    }
    let mut out: Vec<ds::Horizontal> = vec![];
    let mut i = 0; // next original node to copy
    for w in words.iter_mut() {
        let (ofirst, olast) = (w.first, w.last);
        let has_permitted = !permitted(w, lex, lmin, rmin).is_empty();
        // KF-C14-1 (from_first_letter) only concerns words whose preceding node is a character or
        // ligature of the word's font: every other word TeX rebuilds from its first letter too
        let rebuilt = w.tried && if has_permitted { dev.lb_always || (dev.from_first_letter && w.ha_char) } else { dev.rebuild_all };
        if !rebuilt {
            let delta = out.len() as isize - i as isize;
            out.extend_from_slice(&orig[i..=olast]);
            w.first = (ofirst as isize + delta) as usize;
            w.last = (olast as isize + delta) as usize;
            i = olast + 1;
            continue;
        }
        out.extend_from_slice(&orig[i..ofirst]);
        let s: String = w.letters.iter().collect();
        let at_boundary = dev.lb_always || matches!(&orig[ofirst], ds::Horizontal::Ligature(l) if l.includes_left_boundary);
        let run = program.run_with_options(s.chars(), tfm::ligkern::RunOptions { disable_left_boundary: !at_boundary, right_boundary_override: w.bchar });
        let new_first = out.len();
        let mut before = vec![0usize];
        for e in run {
            let (node, k): (ds::Horizontal, usize) = match e {
                tfm::ligkern::RunItem::Char(c) => (ds::Char { char: c, font: w.font }.into(), 1),
                tfm::ligkern::RunItem::Kern(k) => (ds::Kern { width: k, kind: ds::KernKind::Normal }.into(), 0),
                tfm::ligkern::RunItem::Ligature(l) => {
                    let k = l.original.chars().count();
                    (
                        ds::Ligature { char: l.c, font: w.font, original_chars: l.original, includes_left_boundary: l.includes_left_boundary, includes_right_boundary: l.includes_right_boundary }.into(),
                        k,
                    )
                }
            };
            out.push(node);
            before.push(before.last().unwrap() + k);
        }
        i = olast + 1;
        w.first = new_first;
        w.last = out.len().max(new_first + 1) - 1;
        w.before = before;
    }
    out.extend_from_slice(&orig[i..]);
    (out, words)
}

fn discover(list: &[ds::Horizontal], dev: Dev) -> Vec<WordInfo> {
    use ds::Horizontal as H;
    let mut words = vec![];
    let mut consumed: BTreeSet<usize> = BTreeSet::new();
    for g in 0..list.len() {
        if !matches!(list[g], H::Glue(_)) || consumed.contains(&g) {
            continue;
        }
        // TeX 896: skip to the first letter
        let mut s = g + 1;
        let mut prefix_has_char = false;
        let start = loop {
            match list.get(s) {
                None => break None,
                Some(H::Char(c)) => {
                    if is_letter(c.char) {
                        break Some(c.font);
                    }
                    prefix_has_char = true;
                }
                Some(H::Ligature(l)) => match l.original_chars.chars().next() {
                    None => {}
                    Some(c) => {
                        if is_letter(c) {
                            break Some(l.font);
                        }
                        prefix_has_char = true;
                    }
                },
                Some(H::Kern(k)) if k.kind == ds::KernKind::Normal => {}
                Some(H::Whatsit(_)) => {}
                Some(_) => {
                    if dev.abort_consumes {
                        consumed.insert(s);
                    }
                    break None;
                }
            }
            s += 1;
        };
        let Some(hf) = start else { continue };
        let first = s;
        // TeX 897-898: collect the letters
        let mut letters: Vec<char> = vec![];
        let mut before = vec![0usize];
        let mut last = first;
        let mut bchar = None;
        let mut hyf_bchar = HyfBchar::NonChar;
        let mut cut = false;
        loop {
            match list.get(s) {
                Some(H::Char(c)) => {
                    if c.font != hf {
                        break;
                    }
                    if !is_letter(c.char) {
                        bchar = Some(c.char);
                        hyf_bchar = HyfBchar::Char(c.char);
                        break;
                    }
                    if letters.len() == 63 {
                        bchar = Some(c.char);
                        hyf_bchar = HyfBchar::Char(c.char);
                        cut = true;
                        break;
                    }
                    letters.push(c.char);
                    bchar = None;
                    hyf_bchar = HyfBchar::NonChar;
                }
                Some(H::Ligature(l)) => {
                    if l.font != hf {
                        break;
                    }
                    let cs: Vec<char> = l.original_chars.chars().collect();
                    if let Some(c0) = cs.first() {
                        bchar = Some(*c0);
                        hyf_bchar = HyfBchar::Char(*c0);
                    }
                    if !cs.iter().all(|c| is_letter(*c)) {
                        break;
                    }
                    if letters.len() + cs.len() > 63 {
                        cut = true;
                        break;
                    }
                    letters.extend(cs);
                    bchar = None;
                    hyf_bchar = if l.includes_right_boundary { HyfBchar::FontBchar } else { HyfBchar::NonChar };
                }
                Some(H::Kern(k)) if k.kind == ds::KernKind::Normal => {
                    hyf_bchar = HyfBchar::FontBchar;
                }
                _ => break,
            }
            last = s;
            s += 1;
            before.push(letters.len());
        }
        // TeX 899: what follows must permit hyphenation
        let mut t = s;
        let tried = loop {
            match list.get(t) {
                None => break true,
                Some(H::Char(_)) | Some(H::Ligature(_)) => {}
                Some(H::Kern(k)) => {
                    if k.kind != ds::KernKind::Normal {
                        break true;
                    }
                }
                Some(H::Whatsit(_)) | Some(H::Glue(_)) | Some(H::Penalty(_)) | Some(H::Insertion(_)) | Some(H::Adjust(_)) | Some(H::Mark(_)) => break true,
                Some(_) => break false,
            }
            t += 1;
        };
        if letters.is_empty() {
            // TeX 898 left the loop at once (a ligature of a letter and a non-letter): hn = 0, TeX 899 gives up
            continue;
        }
        let ha_char = match &list[first - 1] {
            H::Char(c) => c.font == hf,
            H::Ligature(l) => l.font == hf,
            _ => false,
        };
        words.push(WordInfo {
            glue: g,
            first,
            last,
            font: hf,
            letters,
            before,
            ha_char,
            bchar,
            hyf_bchar,
            tried,
            cut_at_63: cut,
            prefix_has_char,
        });
    }
    words
}

// ---------------------------------------------------------------------------------------------
// TeX's own result (models::tex_hyph): the list TeX 903-918 builds for every tried word

struct TexLists {
    /// the whole list as TeX leaves it
    t: Vec<ds::Horizontal>,
    /// `t` without the discretionaries TeX inserted: what TeX makes of the unhyphenated list
    u: Vec<ds::Horizontal>,
    /// indices (into the word list) of words that TeX rebuilds differently from the nodes that were
    /// there (TeX's own anomalies, exactly)
    anomalous: Vec<usize>,
    /// words rebuilt / of these: words whose node before the first letter is rebuilt with them
    rebuilt: usize,
    rebuilt_with_ha: usize,
    discs: usize,
}

fn to_u8(c: char) -> Result<u8, String> {
    u8::try_from(c as u32).map_err(|_| format!("character {:?} outside 0..255", c))
}

fn model_node(n: &tex_hyph::Node, font: u32) -> ds::Horizontal {
    fn elem(n: &tex_hyph::Node, font: u32) -> ds::DiscretionaryElem {
        match n {
            tex_hyph::Node::Char(c) => ds::Char { char: *c as char, font }.into(),
            tex_hyph::Node::Lig { c, orig, lft, rt } => ds::Ligature {
                char: *c as char,
                font,
                original_chars: orig.iter().map(|b| *b as char).collect::<String>().into(),
                includes_left_boundary: *lft,
                includes_right_boundary: *rt,
            }
            .into(),
            tex_hyph::Node::Kern(w) => ds::Kern { width: common::Scaled(*w as i32), kind: ds::KernKind::Normal }.into(),
            tex_hyph::Node::Disc { .. } => unreachable!("TeX never nests discretionaries"),
        }
    }
    match n {
        tex_hyph::Node::Disc { pre, post, replace } => ds::Discretionary {
            pre_break: pre.iter().map(|x| elem(x, font)).collect(),
            post_break: post.iter().map(|x| elem(x, font)).collect(),
            replace_count: *replace as u32,
        }
        .into(),
        other => elem(other, font).into(),
    }
}

/// The word as TeX 903 sees it.
fn model_word(orig: &[ds::Horizontal], w: &WordInfo, allowed: &[usize], raw: &RawFont) -> Result<tex_hyph::Word, String> {
    let letters = w.letters.iter().map(|c| to_u8(*c)).collect::<Result<Vec<u8>, String>>()?;
    let ha = match &orig[w.first - 1] {
        ds::Horizontal::Char(c) => {
            if c.font == w.font {
                tex_hyph::Ha::Char(to_u8(c.char)?)
            } else {
                tex_hyph::Ha::OtherFont
            }
        }
        ds::Horizontal::Ligature(l) => {
            if l.font == w.font {
                tex_hyph::Ha::Lig { c: to_u8(l.char)?, orig: l.original_chars.chars().map(to_u8).collect::<Result<Vec<u8>, String>>()?, lft: l.includes_left_boundary }
            } else {
                tex_hyph::Ha::OtherFont
            }
        }
        _ => tex_hyph::Ha::NonChar,
    };
    let hyf_bchar = match w.hyf_bchar {
        HyfBchar::NonChar => tex_hyph::NON_CHAR,
        HyfBchar::FontBchar => raw.right_boundary_char().map(|c| c as u16).unwrap_or(tex_hyph::NON_CHAR),
        HyfBchar::Char(c) => to_u8(c)? as u16,
    };
    Ok(tex_hyph::Word {
        letters,
        hyf: allowed.to_vec(),
        ha,
        first_is_lft_lig: matches!(&orig[w.first], ds::Horizontal::Ligature(l) if l.includes_left_boundary),
        hyf_bchar,
        hyf_char: b'-',
        hyf_char_exists: true,
    })
}

fn tex_lists(b: &Built, words: &[WordInfo], lex: &Lex, lmin: i32, rmin: i32, dev: tex_hyph::Deviations) -> Result<TexLists, String> {
    let orig = &b.orig;
    let Some(scale) = b.scale else { return Err("design size outside TeX's range".into()) };
    let scale_fn = |fw: i32| tfm_arith::store_scaled(fw, &scale).unwrap_or(0);
    let font = tex_hyph::Font { raw: &b.raw, scale: &scale_fn };
    let mut r = TexLists { t: Vec::with_capacity(orig.len() + 8), u: Vec::with_capacity(orig.len()), anomalous: vec![], rebuilt: 0, rebuilt_with_ha: 0, discs: 0 };
    let mut i = 0usize;
    for (wi, w) in words.iter().enumerate() {
        if !w.tried {
            continue;
        }
        let allowed = permitted(w, lex, lmin, rmin);
        if allowed.is_empty() {
            continue; // TeX 902
        }
        let mw = model_word(orig, w, &allowed, &b.raw)?;
        let rb = tex_hyph::hyphenate(&font, &mw, dev)?;
        if rb.forgot_disc {
            return Err("a discretionary would replace more than 127 nodes".into());
        }
        let start = if rb.replaces_ha { w.first - 1 } else { w.first };
        if start < i {
            return Err("words overlap".into());
        }
        r.t.extend_from_slice(&orig[i..start]);
        r.u.extend_from_slice(&orig[i..start]);
        let u0 = r.u.len();
        for n in &rb.nodes {
            let h = model_node(n, w.font);
            if matches!(n, tex_hyph::Node::Disc { .. }) {
                r.discs += 1;
            } else {
                r.u.push(h.clone());
            }
            r.t.push(h);
        }
        let same = r.u.len() - u0 == w.last + 1 - start && r.u[u0..].iter().zip(&orig[start..=w.last]).all(|(a, b)| node_eq(a, b));
        if !same {
            r.anomalous.push(wi);
        }
        r.rebuilt += 1;
        r.rebuilt_with_ha += rb.replaces_ha as usize;
        i = w.last + 1;
    }
    r.t.extend_from_slice(&orig[i..]);
    r.u.extend_from_slice(&orig[i..]);
    Ok(r)
}

fn lists_eq(a: &[ds::Horizontal], b: &[ds::Horizontal]) -> bool {
    a.len() == b.len() && a.iter().zip(b).all(|(x, y)| node_eq(x, y))
}

/// First difference between two lists, for messages.
fn first_diff(a: &[ds::Horizontal], b: &[ds::Horizontal]) -> String {
    let k = a.iter().zip(b).position(|(x, y)| !node_eq(x, y)).unwrap_or(a.len().min(b.len()));
    format!("first difference at node {}: {} vs {}", k, a.get(k).map(show).unwrap_or_else(|| "end of list".into()), b.get(k).map(show).unwrap_or_else(|| "end of list".into()))
}

// ---------------------------------------------------------------------------------------------
// The oracle

fn node_eq(a: &ds::Horizontal, b: &ds::Horizontal) -> bool {
    match (a, b) {
        (ds::Horizontal::Whatsit(x), ds::Horizontal::Whatsit(y)) => Rc::ptr_eq(x, y),
        _ => a == b,
    }
}

fn show(n: &ds::Horizontal) -> String {
    match n {
        ds::Horizontal::Whatsit(_) => "whatsit".into(),
        ds::Horizontal::Char(c) => format!("char({:?},f{})", c.char, c.font),
        ds::Horizontal::Ligature(l) => format!(
            "lig({:?},{:?}{}{},f{})",
            l.char,
            l.original_chars,
            if l.includes_left_boundary { ",lb" } else { "" },
            if l.includes_right_boundary { ",rb" } else { "" },
            l.font
        ),
        ds::Horizontal::Kern(k) => format!("kern({},{:?})", k.width, k.kind),
        ds::Horizontal::Glue(_) => "glue".into(),
        ds::Horizontal::Penalty(p) => format!("penalty({})", p.0),
        ds::Horizontal::Discretionary(d) => {
            let f = |v: &[ds::DiscretionaryElem]| v.iter().map(|e| show(&e.clone().into())).collect::<Vec<_>>().join(" ");
            format!("disc{{{}}}{{{}}}{{{}}}", f(&d.pre_break), f(&d.post_break), d.replace_count)
        }
        ds::Horizontal::Math(_) => "math".into(),
        ds::Horizontal::Rule(_) => "rule".into(),
        ds::Horizontal::HBox(_) => "hbox".into(),
        _ => "node".into(),
    }
}

fn show_list(l: &[ds::Horizontal]) -> String {
    l.iter().map(show).collect::<Vec<_>>().join(" ")
}

struct Ins<'a> {
    /// inserted before original node `at`
    at: usize,
    rc: usize,
    d: &'a ds::Discretionary,
}

fn replaced_node_eq(o: &ds::Horizontal, p: &ds::Horizontal, dev: Dev) -> bool {
    if node_eq(o, p) {
        return true;
    }
    if dev.sync_rb_from_lb {
        if let (ds::Horizontal::Ligature(a), ds::Horizontal::Ligature(b)) = (o, p) {
            let mut b2 = b.clone();
            b2.includes_right_boundary = b.includes_left_boundary;
            return *a == b2;
        }
    }
    false
}

fn align<'a>(orig: &[ds::Horizontal], out: &'a [ds::Horizontal], dev: Dev) -> Result<Vec<Ins<'a>>, String> {
    let mut i = 0;
    let mut k = 0;
    let mut v = vec![];
    while k < out.len() {
        if i < orig.len() && node_eq(&out[k], &orig[i]) {
            i += 1;
            k += 1;
            continue;
        }
        let ds::Horizontal::Discretionary(d) = &out[k] else {
            return Err(format!(
                "(i) output node {} = {} is neither the next original node ({}) nor a discretionary",
                k,
                show(&out[k]),
                orig.get(i).map(show).unwrap_or_else(|| "end of list".into())
            ));
        };
        let rc = d.replace_count as usize;
        for t in 0..rc {
            let (o, p) = (out.get(k + 1 + t), orig.get(i + t));
            let ok = matches!((o, p), (Some(o), Some(p)) if replaced_node_eq(o, p, dev));
            if !ok {
                return Err(format!(
                    "(i) node {} after the discretionary at output index {} (replace_count {}) is {} but the next original node is {}",
                    t + 1,
                    k,
                    rc,
                    o.map(show).unwrap_or_else(|| "end of list".into()),
                    p.map(show).unwrap_or_else(|| "end of list".into())
                ));
            }
        }
        v.push(Ins { at: i, rc, d });
        k += 1 + rc;
        i += rc;
    }
    if i != orig.len() {
        return Err(format!("(i) original nodes from index {} ({}) on are missing from the output", i, show(&orig[i])));
    }
    Ok(v)
}

fn elem_chars(e: &ds::DiscretionaryElem, font: u32) -> Result<String, String> {
    match e {
        ds::DiscretionaryElem::Char(c) => {
            if c.font != font {
                return Err(format!("character {:?} in font {} inside a discretionary of a font-{} word", c.char, c.font, font));
            }
            Ok(c.char.to_string())
        }
        ds::DiscretionaryElem::Ligature(l) => {
            if l.font != font {
                return Err(format!("ligature {:?} in font {} inside a discretionary of a font-{} word", l.char, l.font, font));
            }
            Ok(l.original_chars.to_string())
        }
        ds::DiscretionaryElem::Kern(_) => Ok(String::new()),
        _ => Err("box or rule inside an inserted discretionary".into()),
    }
}

fn alpha(s: &str) -> String {
    s.chars().filter(|c| is_letter(*c)).collect()
}

#[derive(Default, Debug)]
struct Report {
    words_tried: usize,
    words_untried_899: usize,
    blocked_by_box_rule_math: usize,
    allowed: usize,
    discs: usize,
    dropped_inside_span: usize,
    disc_inside_ligature: usize,
    disc_next_to_kern: usize,
    disc_replaces_many: usize,
    disc_with_post: usize,
    pre_has_ligature: usize,
    post_has_ligature: usize,
    word_after_letterless_prefix_with_positions: usize,
    word_ge_63: usize,
    upper: usize,
    bchar_word: usize,
    ha_char_word: usize,
    exact_words: usize,
    /// (word index, letter position) of every inserted discretionary
    positions: Vec<(usize, usize)>,
}

#[allow(clippy::too_many_arguments)]
fn oracle_lists(orig: &[ds::Horizontal], out: &[ds::Horizontal], words: &[WordInfo], lex: &Lex, lmin: i32, rmin: i32, dev: Dev, simple: Option<&[Rule]>) -> Result<Report, String> {
    let mut rep = Report::default();
    let ins = align(orig, out, dev)?;
    let (l_hyf, r_hyf) = (norm_min(lmin), norm_min(rmin));

    // (ii) and attribution of each inserted discretionary to a tried word
    let mut found: Vec<Vec<(usize, usize, usize)>> = vec![vec![]; words.len()]; // (position, span start, span end) in letters
    for x in &ins {
        let lead = |w: &WordInfo| if dev.anomaly_reference { (0..w.first).rev().take_while(|&k| matches!(&orig[k], ds::Horizontal::Kern(kn) if kn.kind == ds::KernKind::Normal)).count() } else { 0 };
        let Some((wi, w)) = words.iter().enumerate().find(|(_, w)| w.tried && x.at + (w.ha_char as usize) + lead(w) >= w.first && x.at <= w.last + 1) else {
            return Err(format!(
                "(iii) discretionary {} inserted before original node {} which is in no word TeX would try",
                show(&ds::Horizontal::Discretionary(x.d.clone())),
                x.at
            ));
        };
        let ctx = |m: String| format!("{} [discretionary {} before original node {}, word {:?}]", m, show(&ds::Horizontal::Discretionary(x.d.clone())), x.at, w.letters.iter().collect::<String>());
        let mut pre = String::new();
        for e in &x.d.pre_break {
            pre.push_str(&elem_chars(e, w.font).map_err(|m| ctx(format!("(ii) {m}")))?);
        }
        let mut post = String::new();
        for e in &x.d.post_break {
            post.push_str(&elem_chars(e, w.font).map_err(|m| ctx(format!("(ii) {m}")))?);
        }
        if !pre.ends_with('-') {
            return Err(ctx(format!("(ii) the pre-break characters {:?} do not end with the hyphen character", pre)));
        }
        pre.pop();
        if x.at + x.rc > w.last + 1 {
            return Err(ctx(format!("(iii) replaces {} nodes, beyond the last node {} of the word", x.rc, w.last)));
        }
        let mut replaced = String::new();
        for n in &orig[x.at..x.at + x.rc] {
            match n {
                ds::Horizontal::Char(c) => replaced.push(c.char),
                ds::Horizontal::Ligature(l) => replaced.push_str(&l.original_chars),
                ds::Horizontal::Kern(k) if k.kind == ds::KernKind::Normal => {}
                other => return Err(ctx(format!("(ii) replaces the node {}", show(other)))),
            }
        }
        let lhs = format!("{}{}", alpha(&pre), alpha(&post));
        if lhs != alpha(&replaced) {
            return Err(ctx(format!("(ii) pre-break letters {:?} + post-break letters {:?} differ from the letters {:?} of the replaced nodes", alpha(&pre), alpha(&post), alpha(&replaced))));
        }
        // TeX 911/913: the kern found for a pair is appended by the same `reconstitute` call as the
        // character before it, so neither a discretionary nor the end of the nodes it replaces ever
        // comes between a character of the word and the implicit kern after it, and the replaced nodes
        // never begin with a kern (calibrated on TeX's lists: 218 Alice boxes have such kerns).
        let after = x.at + x.rc;
        if after > w.first && after <= w.last && matches!(&orig[after], ds::Horizontal::Kern(k) if k.kind == ds::KernKind::Normal) {
            return Err(ctx(format!("(ii) the {} separated from the implicit kern that follows it (original node {})", if x.rc == 0 { "discretionary stands between a character and the kern; the character is" } else { "replaced nodes end before a kern; the last of them is" }, after)));
        }
        // (a word rebuilt from the left boundary under FLAG_LB can begin with the boundary's kern)
        if x.rc > 0 && !dev.lb_always && !dev.anomaly_reference && matches!(&orig[x.at], ds::Horizontal::Kern(_)) {
            return Err(ctx("(ii) the replaced nodes begin with a kern".into()));
        }
        let k0 = x.at.max(w.first) - w.first;
        let k1 = (x.at + x.rc).max(w.first) - w.first;
        let start = w.before[k0.min(w.before.len() - 1)];
        let end = w.before[k1.min(w.before.len() - 1)];
        let pos = start + alpha(&pre).chars().count();
        found[wi].push((pos, start, end));
        // classes
        rep.discs += 1;
        let inside_lig = orig[x.at..x.at + x.rc].iter().any(|n| matches!(n, ds::Horizontal::Ligature(l) if l.original_chars.chars().count() >= 2)) && pos > start && pos < end;
        if inside_lig {
            rep.disc_inside_ligature += 1;
        }
        let kern_adjacent = orig[x.at..x.at + x.rc].iter().any(|n| matches!(n, ds::Horizontal::Kern(_)))
            || (x.at > 0 && matches!(orig[x.at - 1], ds::Horizontal::Kern(_)) && x.at > w.first)
            || matches!(orig.get(x.at + x.rc), Some(ds::Horizontal::Kern(_)) if x.at + x.rc <= w.last);
        if kern_adjacent {
            rep.disc_next_to_kern += 1;
        }
        if x.rc >= 2 {
            rep.disc_replaces_many += 1;
        }
        if !x.d.post_break.is_empty() {
            rep.disc_with_post += 1;
        }
        if x.d.pre_break.iter().any(|e| matches!(e, ds::DiscretionaryElem::Ligature(_))) {
            rep.pre_has_ligature += 1;
        }
        if x.d.post_break.iter().any(|e| matches!(e, ds::DiscretionaryElem::Ligature(_))) {
            rep.post_has_ligature += 1;
        }
    }

    // (iii) soundness and (iv) completeness, word by word
    for (wi, w) in words.iter().enumerate() {
        if !w.tried {
            rep.words_untried_899 += 1;
            // which node blocked it: walk as TeX 899 does
            let mut t = w.last + 1;
            while matches!(orig.get(t), Some(ds::Horizontal::Char(_)) | Some(ds::Horizontal::Ligature(_)) | Some(ds::Horizontal::Kern(_))) {
                t += 1;
            }
            if matches!(orig.get(t), Some(ds::Horizontal::Math(_)) | Some(ds::Horizontal::Rule(_)) | Some(ds::Horizontal::HBox(_))) && !permitted(w, lex, lmin, rmin).is_empty() {
                rep.blocked_by_box_rule_math += 1;
            }
            continue;
        }
        rep.words_tried += 1;
        let word: String = w.letters.iter().collect();
        let allowed: Vec<usize> = permitted(w, lex, lmin, rmin);
        rep.allowed += allowed.len();
        if w.cut_at_63 {
            rep.word_ge_63 += 1;
        }
        if w.letters.iter().any(|c| c.is_ascii_uppercase()) {
            rep.upper += 1;
        }
        if w.bchar.is_some() {
            rep.bchar_word += 1;
        }
        if w.ha_char {
            rep.ha_char_word += 1;
        }
        if w.prefix_has_char && !allowed.is_empty() {
            rep.word_after_letterless_prefix_with_positions += 1;
        }
        let got = &found[wi];
        rep.positions.extend(got.iter().map(|g| (wi, g.0)));
        for (k, &(p, _, _)) in got.iter().enumerate() {
            if !allowed.contains(&p) {
                return Err(format!(
                    "(iii) discretionary at letter position {} of {:?}: permitted positions (Liang, lmin {} rmin {}) are {:?}",
                    p, word, l_hyf, r_hyf, allowed
                ));
            }
            if k > 0 && got[k - 1].0 >= p {
                return Err(format!("(iii) two discretionaries at or out of order around letter position {} of {:?}", p, word));
            }
        }
        for &p in &allowed {
            if got.iter().any(|g| g.0 == p) {
                continue;
            }
            // TeX 913-916: dropped only when strictly inside the letters replaced by an earlier discretionary
            if got.iter().any(|&(q, s, e)| q < p && s < p && p < e) {
                rep.dropped_inside_span += 1;
                continue;
            }
            return Err(format!(
                "(iv) no discretionary at permitted letter position {} of {:?} (permitted {:?}, found at {:?}; [position, first, last letter replaced])",
                p, word, allowed, got
            ));
        }
        if let Some(rules) = simple {
            let want = expected_simple(w, orig, &allowed, rules);
            rep.exact_words += 1;
            if want != *got {
                return Err(format!(
                    "(iv, exact) word {:?}, permitted {:?}: TeX 913-916 gives discretionaries [position, first, last letter replaced] {:?}, found {:?}",
                    word, allowed, want, got
                ));
            }
        }
    }
    Ok(rep)
}

/// Fonts for which TeX 913-916 can be replayed on letter counts alone: every rule is a kern or a
/// ligature replacing both characters, no rule involves a boundary, and no rule has the hyphen
/// character on its right (so a hyphen never changes what the characters before it become).
fn simple_font(rules: &[Rule]) -> bool {
    // everything a run over letters can put left of the cursor
    let mut reach: BTreeSet<char> = ('a'..='z').chain('A'..='Z').collect();
    loop {
        let before = reach.len();
        for r in rules {
            if let (Some(l), Some(z)) = (r.l, r.lig) {
                if reach.contains(&l) {
                    reach.insert(z);
                }
            }
        }
        if reach.len() == before {
            break;
        }
    }
    rules.iter().all(|r| r.plain && r.l.is_some() && r.r != '|' && (r.r != '-' || !reach.contains(&r.l.unwrap())))
}

/// TeX 913-916 for a simple font, on letter counts. The main list's cut prefixes (one `reconstitute`
/// call each) are read off the unhyphenated nodes: a character or ligature node plus the kern after
/// it. Within a cut prefix the first permitted hyphen wins; the discretionary starts at the prefix
/// start (or, for a hyphen exactly at the end of a kernless prefix, at the hyphen, with empty lists
/// apart from the hyphen). The post-break branch is a fresh lig/kern run from the hyphen on; both
/// branches advance cut prefix by cut prefix until their letter counts agree (TeX 916); hyphens passed
/// meanwhile are dropped; a hyphen exactly at the meeting point gets its own discretionary (TeX 914
/// `until not odd(hyf[j-1])`).
fn expected_simple(w: &WordInfo, orig: &[ds::Horizontal], allowed: &[usize], rules: &[Rule]) -> Vec<(usize, usize, usize)> {
    let lig = |l: char, r: char| rules.iter().find(|x| x.l == Some(l) && x.r == r).and_then(|x| x.lig);
    let mut bounds = vec![0usize];
    let mut kern_after: Vec<bool> = vec![];
    for n in &orig[w.first..=w.last] {
        match n {
            ds::Horizontal::Char(_) => {
                bounds.push(bounds.last().unwrap() + 1);
                kern_after.push(false);
            }
            ds::Horizontal::Ligature(l) => {
                bounds.push(bounds.last().unwrap() + l.original_chars.chars().count());
                kern_after.push(false);
            }
            ds::Horizontal::Kern(_) => {
                if let Some(k) = kern_after.last_mut() {
                    *k = true;
                }
            }
            _ => {}
        }
    }
    let n = w.letters.len();
    let next_post = |q: usize| -> usize {
        let mut cur = w.letters[q];
        let mut k = 1;
        while q + k < n {
            match lig(cur, w.letters[q + k]) {
                Some(z) => {
                    cur = z;
                    k += 1;
                }
                None => break,
            }
        }
        q + k
    };
    let mut hs: BTreeSet<usize> = allowed.iter().copied().collect();
    let mut res = vec![];
    let mut k = 0;
    while k + 1 < bounds.len() {
        let (s, e) = (bounds[k], bounds[k + 1]);
        let kern = kern_after[k];
        let h = hs.iter().copied().find(|&p| (s < p && p < e) || (p == e && kern));
        match h {
            Some(h) => {
                hs.remove(&h);
                let (mut l, mut j, mut kk) = (h, e, k + 1);
                loop {
                    while l < j {
                        l = next_post(l);
                    }
                    if l == j {
                        break;
                    }
                    while j < l {
                        kk += 1;
                        j = bounds[kk];
                    }
                    if l == j {
                        break;
                    }
                }
                res.push((h, s, j));
                if hs.remove(&j) {
                    res.push((j, j, j));
                }
                k = kk;
            }
            None => {
                if hs.remove(&e) {
                    res.push((e, e, e));
                }
                k += 1;
            }
        }
    }
    res
}

/// Words whose reconstitution TeX itself gets "wrong" (only words with a permitted hyphen: TeX 902
/// leaves every other word alone). Decided from the rule table of the case only.
///  (a) TeX 903 uses the character after the word as right boundary; if a ligature rule applies between
///      the end of the word and that character the rebuilt word differs from the original nodes even
///      where no break is taken (pinned by the unit tests right_boundary_char_override_3..6).
///  (b) TeX 897 absorbs every implicit kern after the letters into the word and TeX 903 discards it; a
///      kern that the next font's left boundary put there is not produced again by the word's own run.
///  (c) TeX 896 lets `ha` be the node before the first letter, implicit kerns included. If that node
///      is an implicit kern and the first letter node is a ligature that includes the left boundary,
///      TeX 903 (`found2`) keeps the kern and rebuilds the word from the boundary, which produces the
///      boundary's kern a second time.
#[derive(Debug, Clone, Copy, PartialEq, Eq)]
enum Anomaly {
    A,
    B,
    C,
}

impl Anomaly {
    fn class(self) -> &'static str {
        match self {
            Anomaly::A => "tex_anomaly:a(ligature_between_word_end_and_next_char)",
            Anomaly::B => "tex_anomaly:b(trailing_kern_of_next_fonts_left_boundary)",
            Anomaly::C => "tex_anomaly:c(kern_before_left_boundary_ligature_doubled)",
        }
    }
    fn why(self) -> &'static str {
        match self {
            Anomaly::A => "TeX anomaly (a): ligature between word end and following character",
            Anomaly::B => "TeX anomaly (b): the kern after the word may belong to the next font's left boundary",
            Anomaly::C => "TeX anomaly (c): implicit kern before a word that starts with a left-boundary ligature is produced twice",
        }
    }
}

fn tex_anomaly(orig: &[ds::Horizontal], words: &[WordInfo], rules: &[Rule], lex: &Lex, lmin: i32, rmin: i32) -> Option<Anomaly> {
    for w in words {
        if !w.tried || permitted(w, lex, lmin, rmin).is_empty() {
            continue;
        }
        if w.first > 0 {
            if let (ds::Horizontal::Kern(k), ds::Horizontal::Ligature(l)) = (&orig[w.first - 1], &orig[w.first]) {
                if k.kind == ds::KernKind::Normal && l.includes_left_boundary {
                    return Some(Anomaly::C);
                }
            }
        }
        if matches!(orig[w.last], ds::Horizontal::Kern(_)) {
            let next_char = match orig.get(w.last + 1) {
                Some(ds::Horizontal::Char(c)) if c.font != w.font => Some(c.char),
                Some(ds::Horizontal::Ligature(l)) if l.font != w.font => l.original_chars.chars().next().or(Some(l.char)),
                _ => None,
            };
            if let Some(c) = next_char {
                if rules.iter().any(|r| r.l.is_none() && (r.r == c || r.lig.is_some())) {
                    return Some(Anomaly::B);
                }
            }
        }
        let Some(b) = w.bchar else { continue };
        // What can stand left of the boundary when the end of the word is reached: the glyph of the
        // last node that carries letters of the word, those letters themselves (a rule such as
        // "a, -> _w,^" made the glyph w out of the letter a BECAUSE of the following character, and
        // fires again) and everything ligature rules can make of them (closure over the rule table;
        // inserted characters after that node - unit test right_boundary_char_override_6 - are in the
        // closure). The letters of earlier nodes never meet the boundary.
        let Some(end_node) = orig[w.first..=w.last].iter().rev().find(|n| match n {
            ds::Horizontal::Char(_) => true,
            ds::Horizontal::Ligature(l) => !l.original_chars.is_empty(),
            _ => false,
        }) else {
            continue;
        };
        let mut reach: BTreeSet<char> = BTreeSet::new();
        match end_node {
            ds::Horizontal::Char(c) => {
                reach.insert(c.char);
            }
            ds::Horizontal::Ligature(l) => {
                reach.insert(l.char);
                reach.extend(l.original_chars.chars());
            }
            _ => {}
        }
        loop {
            let before = reach.len();
            for r in rules {
                if let (Some(z), Some(l)) = (r.lig, r.l) {
                    if reach.contains(&l) {
                        reach.insert(z);
                    }
                }
            }
            if reach.len() == before {
                break;
            }
        }
        if rules.iter().any(|r| r.lig.is_some() && r.r == b && matches!(r.l, Some(l) if reach.contains(&l))) {
            return Some(Anomaly::A);
        }
    }
    None
}

fn apply_report(case: &mut Case, r: &Report) -> bool {
    case.class_if(r.words_tried > 0, "word_tried");
    case.class_if(r.words_tried >= 3, "words_tried>=3");
    case.class_if(r.words_untried_899 > 0, "word_blocked_by_899");
    case.class_if(r.blocked_by_box_rule_math > 0, "hyphenable_word_blocked_by_math_rule_or_box");
    case.class_if(r.allowed > 0, "has_permitted_position");
    case.class_if(r.discs > 0, "disc_inserted");
    case.class_if(r.discs >= 3, "discs>=3");
    case.class_if(r.dropped_inside_span > 0, "position_dropped_inside_replaced_letters");
    case.class_if(r.disc_inside_ligature > 0, "disc_inside_ligature");
    case.class_if(r.disc_next_to_kern > 0, "disc_next_to_kern");
    case.class_if(r.disc_replaces_many > 0, "disc_replaces>=2_nodes");
    case.class_if(r.disc_with_post > 0, "disc_with_post_break");
    case.class_if(r.pre_has_ligature > 0, "ligature_in_pre_break");
    case.class_if(r.post_has_ligature > 0, "ligature_in_post_break");
    case.class_if(r.word_after_letterless_prefix_with_positions > 0, "hyphenable_word_after_nonletter_prefix");
    case.class_if(r.word_ge_63 > 0, "word_cut_at_63_letters");
    case.class_if(r.upper > 0, "upper_case_word");
    case.class_if(r.bchar_word > 0, "word_followed_by_char_of_its_font");
    case.class_if(r.ha_char_word > 0, "word_preceded_by_char_of_its_font");
    case.class_if(r.exact_words > 0, "exact_span_model_applied");
    r.disc_inside_ligature > 0 || r.disc_next_to_kern > 0
}

fn kind_name(n: Option<&ds::Horizontal>) -> &'static str {
    match n {
        None => "end_of_list",
        Some(ds::Horizontal::Char(_)) => "char",
        Some(ds::Horizontal::Ligature(_)) => "ligature",
        Some(ds::Horizontal::HBox(_)) => "hbox",
        Some(ds::Horizontal::VBox(_)) => "vbox",
        Some(ds::Horizontal::Rule(_)) => "rule",
        Some(ds::Horizontal::Mark(_)) => "mark",
        Some(ds::Horizontal::Insertion(_)) => "insertion",
        Some(ds::Horizontal::Adjust(_)) => "adjust",
        Some(ds::Horizontal::Discretionary(_)) => "discretionary",
        Some(ds::Horizontal::Whatsit(_)) => "whatsit",
        Some(ds::Horizontal::Math(ds::Math::Before)) => "math_on",
        Some(ds::Horizontal::Math(ds::Math::After)) => "math_off",
        Some(ds::Horizontal::Glue(_)) => "glue",
        Some(ds::Horizontal::Penalty(_)) => "penalty",
        Some(ds::Horizontal::Kern(k)) => match k.kind {
            ds::KernKind::Normal => "implicit_kern",
            ds::KernKind::Explicit => "explicit_kern",
            ds::KernKind::Accent => "accent_kern",
            ds::KernKind::Math => "math_kern",
        },
    }
}

fn starts_with_letter(n: Option<&ds::Horizontal>) -> bool {
    match n {
        Some(ds::Horizontal::Char(c)) => is_letter(c.char),
        Some(ds::Horizontal::Ligature(l)) => l.original_chars.chars().next().is_some_and(is_letter),
        _ => false,
    }
}

/// Class counters for the shapes of the generated list (what decides TeX 896, 897, 899 and 903); they
/// only prove that the generators reach the shapes, no verdict depends on them.
fn shape_classes(case: &mut Case, b: &Built, words: &[WordInfo], lex: &Lex, lmin: i32, rmin: i32) {
    let orig = &b.orig;
    // TeX 896: which node kind stopped a prefix scan directly before a letter
    for (g, n) in orig.iter().enumerate() {
        if !matches!(n, ds::Horizontal::Glue(_)) {
            continue;
        }
        let mut s = g + 1;
        loop {
            match orig.get(s) {
                Some(ds::Horizontal::Char(c)) if !is_letter(c.char) => {}
                Some(ds::Horizontal::Ligature(l)) if !l.original_chars.chars().next().is_some_and(is_letter) => {}
                Some(ds::Horizontal::Kern(k)) if k.kind == ds::KernKind::Normal => {}
                Some(ds::Horizontal::Whatsit(_)) => {}
                Some(ds::Horizontal::Char(_)) | Some(ds::Horizontal::Ligature(_)) | None => break,
                other => {
                    if starts_with_letter(orig.get(s + 1)) {
                        case.class(match kind_name(other) {
                            "hbox" => "896_attempt_ended_before_a_letter_by:hbox",
                            "vbox" => "896_attempt_ended_before_a_letter_by:vbox",
                            "rule" => "896_attempt_ended_before_a_letter_by:rule",
                            "mark" => "896_attempt_ended_before_a_letter_by:mark",
                            "insertion" => "896_attempt_ended_before_a_letter_by:insertion",
                            "adjust" => "896_attempt_ended_before_a_letter_by:adjust",
                            "discretionary" => "896_attempt_ended_before_a_letter_by:discretionary",
                            "math_on" => "896_attempt_ended_before_a_letter_by:math_on",
                            "math_off" => "896_attempt_ended_before_a_letter_by:math_off",
                            "glue" => "896_attempt_ended_before_a_letter_by:glue",
                            "penalty" => "896_attempt_ended_before_a_letter_by:penalty",
                            "explicit_kern" => "896_attempt_ended_before_a_letter_by:explicit_kern",
                            "accent_kern" => "896_attempt_ended_before_a_letter_by:accent_kern",
                            "math_kern" => "896_attempt_ended_before_a_letter_by:math_kern",
                            _ => "896_attempt_ended_before_a_letter_by:other",
                        });
                    }
                    break;
                }
            }
            s += 1;
        }
    }
    for w in words {
        if permitted(w, lex, lmin, rmin).is_empty() {
            continue;
        }
        // TeX 897: what ended the word; TeX 899: which node decided
        let ender = orig.get(w.last + 1);
        let mut t = w.last + 1;
        while matches!(orig.get(t), Some(ds::Horizontal::Char(_)) | Some(ds::Horizontal::Ligature(_))) || matches!(orig.get(t), Some(ds::Horizontal::Kern(k)) if k.kind == ds::KernKind::Normal) {
            t += 1;
        }
        case.class(match (w.tried, kind_name(orig.get(t))) {
            (true, "end_of_list") => "899_hyphenable_word_allowed_by:end_of_list",
            (true, "glue") => "899_hyphenable_word_allowed_by:glue",
            (true, "penalty") => "899_hyphenable_word_allowed_by:penalty",
            (true, "whatsit") => "899_hyphenable_word_allowed_by:whatsit",
            (true, "mark") => "899_hyphenable_word_allowed_by:mark",
            (true, "insertion") => "899_hyphenable_word_allowed_by:insertion",
            (true, "adjust") => "899_hyphenable_word_allowed_by:adjust",
            (true, "explicit_kern") => "899_hyphenable_word_allowed_by:explicit_kern",
            (true, "accent_kern") => "899_hyphenable_word_allowed_by:accent_kern",
            (true, "math_kern") => "899_hyphenable_word_allowed_by:math_kern",
            (false, "hbox") => "899_hyphenable_word_blocked_by:hbox",
            (false, "vbox") => "899_hyphenable_word_blocked_by:vbox",
            (false, "rule") => "899_hyphenable_word_blocked_by:rule",
            (false, "discretionary") => "899_hyphenable_word_blocked_by:discretionary",
            (false, "math_on") => "899_hyphenable_word_blocked_by:math_on",
            (false, "math_off") => "899_hyphenable_word_blocked_by:math_off",
            _ => "899_decided_by:unexpected_kind",
        });
        case.class_if(t > w.last + 1, "899_walks_over_chars_before_the_deciding_node");
        if !w.tried {
            continue;
        }
        case.class_if(matches!(ender, Some(ds::Horizontal::Char(c)) if c.font != w.font) || matches!(ender, Some(ds::Horizontal::Ligature(l)) if l.font != w.font), "hyphenable_word_ended_by_font_change");
        case.class_if(w.cut_at_63 && matches!(ender, Some(ds::Horizontal::Ligature(l)) if l.font == w.font && l.original_chars.chars().all(is_letter)), "ligature_straddles_letter_63");
        case.class_if(orig[w.glue + 1..w.first].iter().any(|n| matches!(n, ds::Horizontal::Whatsit(_))), "whatsit_between_glue_and_hyphenable_word");
        case.class_if(matches!(orig[w.last], ds::Horizontal::Kern(_)), "hyphenable_word_absorbs_trailing_kern");
        case.class_if(w.hyf_bchar == HyfBchar::FontBchar && b.raw.right_boundary_char().is_some(), "hyf_bchar_is_font_boundary_char");
        // the token before the glue has characters but no letter ("3.0 Contents")
        let mut p = w.glue;
        let (mut chars, mut letters) = (0, 0);
        while p > 0 && !matches!(orig[p - 1], ds::Horizontal::Glue(_)) {
            p -= 1;
            match &orig[p] {
                ds::Horizontal::Char(c) => {
                    chars += 1;
                    letters += is_letter(c.char) as usize;
                }
                ds::Horizontal::Ligature(l) => {
                    chars += 1;
                    letters += l.original_chars.chars().any(is_letter) as usize;
                }
                _ => {}
            }
        }
        case.class_if(chars > 0 && letters == 0 && p > 0, "hyphenable_word_after_letterless_token_and_glue");
        if w.ha_char {
            let glyph = match &orig[w.first - 1] {
                ds::Horizontal::Char(c) => Some(c.char),
                ds::Horizontal::Ligature(l) => Some(l.char),
                _ => None,
            };
            let first_letter = w.letters[0];
            let rule = match (glyph.and_then(|g| u8::try_from(g as u32).ok()), u8::try_from(first_letter as u32).ok()) {
                (Some(g), Some(f)) => b.raw.lookup(Some(g), f).is_some(),
                _ => false,
            };
            case.class_if(rule, "hyphenable_word_preceded_by_char_with_rule_for_first_letter");
            case.class_if(matches!(&orig[w.first - 1], ds::Horizontal::Ligature(l) if l.original_chars.is_empty()), "hyphenable_word_preceded_by_inserted_ligature_char");
        }
    }
    // the first word of the list is not preceded by glue: TeX never tries it
    if starts_with_letter(orig.first()) {
        let mut probe: Vec<ds::Horizontal> = Vec::with_capacity(orig.len() + 1);
        probe.push(ds::Glue { value: common::Glue::ZERO, kind: ds::GlueKind::Normal }.into());
        let end = orig.iter().position(|n| matches!(n, ds::Horizontal::Glue(_))).unwrap_or(orig.len());
        probe.extend_from_slice(&orig[..end]);
        let ws = discover(&probe, Dev::default());
        case.class("list_starts_with_a_letter");
        case.class_if(ws.iter().any(|w| w.first == 1 && w.tried && !permitted(w, lex, lmin, rmin).is_empty()), "first_word_of_list_hyphenable_but_not_after_glue");
    }
}

/// The case is decided by the deviating TeX model of a listed finding (KF-C14-1: the node before the
/// word is ignored if it is a character or ligature of the word's font): either the deviating model
/// builds the implementation's list node for node, or the stated clauses (i)-(iv) hold against the
/// deviating model's list without its discretionaries (the finding is about WHICH nodes the word is
/// rebuilt to; differences that only clause (v) sees are no violation, see `differs_classes`).
#[allow(clippy::too_many_arguments)]
fn known_by_model(ctx: &Known, b: &Built, out: &[ds::Horizontal], words: &[WordInfo], lex: &Lex, lmin: i32, rmin: i32, simple: Option<&[Rule]>, case: &mut Case) -> Option<&'static str> {
    if !ctx.known(FLAG_START) {
        return None;
    }
    // The run the finding speaks of is the implementation's: it starts at the first letter AND ends at
    // the font's boundary character where TeX 897 has hyf_bchar=non_char. The second detail shows in
    // the main list only when the word is rebuilt to other nodes than were there, i.e. only together
    // with this finding (on its own it changes post-break lists only, which the statement does not
    // cover), so it is tried as a variant of the same deviation.
    for (k, dev) in [tex_hyph::Deviations { ha_char_ignored: true, non_char_is_font_bchar: false }, tex_hyph::Deviations { ha_char_ignored: true, non_char_is_font_bchar: true }].into_iter().enumerate() {
        let Ok(m2) = tex_lists(b, words, lex, lmin, rmin, dev) else { continue };
        if lists_eq(out, &m2.t) {
            case.class_if(k == 1, "known:rebuilt_run_ends_at_font_boundary_char");
            return Some(FLAG_START);
        }
        let w2 = discover(&m2.u, Dev::default());
        if let Ok(r) = oracle_lists(&m2.u, out, &w2, lex, lmin, rmin, Dev { anomaly_reference: true, ..Dev::default() }, simple) {
            apply_report(case, &r);
            case.class("known:with_differences_only_clause_v_sees");
            case.class_if(k == 1, "known:rebuilt_run_ends_at_font_boundary_char");
            return Some(FLAG_START);
        }
    }
    None
}

/// `out` satisfies the stated clauses but is not TeX's list `t`: which part of the discretionaries
/// differs. Both lists have the same non-discretionary nodes; a discretionary is keyed by the number
/// of such nodes before it.
fn differs_classes(case: &mut Case, out: &[ds::Horizontal], t: &[ds::Horizontal]) {
    fn discs(l: &[ds::Horizontal]) -> Vec<(usize, &ds::Discretionary)> {
        let mut v = vec![];
        let mut base = 0;
        for n in l {
            match n {
                ds::Horizontal::Discretionary(d) => v.push((base, d)),
                _ => base += 1,
            }
        }
        v
    }
    case.class("differs_from_tex_reconstitution_but_stated_clauses_hold");
    let (a, b) = (discs(out), discs(t));
    case.class_if(a.len() != b.len(), "differs:number_of_discretionaries");
    let (mut i, mut j) = (0, 0);
    let (mut pre, mut post, mut rc, mut place) = (false, false, false, false);
    while i < a.len() && j < b.len() {
        match a[i].0.cmp(&b[j].0) {
            std::cmp::Ordering::Less => {
                place = true;
                i += 1;
            }
            std::cmp::Ordering::Greater => {
                place = true;
                j += 1;
            }
            std::cmp::Ordering::Equal => {
                pre |= a[i].1.pre_break != b[j].1.pre_break;
                post |= a[i].1.post_break != b[j].1.post_break;
                rc |= a[i].1.replace_count != b[j].1.replace_count;
                i += 1;
                j += 1;
            }
        }
    }
    place |= i < a.len() || j < b.len();
    case.class_if(place, "differs:disc_before_vs_after_a_node_at_the_same_letter_position");
    case.class_if(pre, "differs:pre_break_contents");
    case.class_if(post, "differs:post_break_contents");
    case.class_if(rc, "differs:replace_count");
}

/// Listed deviations of the clause oracle, smallest subsets first; each must explain the output completely.
#[allow(clippy::too_many_arguments)]
fn known_by_clauses(ctx: &Known, c: &LCase, b: &Built, out: &[ds::Horizontal], lex: &Lex, simple: Option<&[Rule]>, with_start: bool, case: &mut Case) -> Option<&'static str> {
    let listed: Vec<&'static str> = [FLAG_D23, FLAG_LB, FLAG_RB, FLAG_REBUILD, FLAG_START].into_iter().filter(|f| ctx.known(f) && (with_start || *f != FLAG_START)).collect();
    let mut subsets: Vec<Vec<&'static str>> = (1u32..(1 << listed.len())).map(|m| listed.iter().enumerate().filter(|(i, _)| m >> i & 1 == 1).map(|(_, f)| *f).collect()).collect();
    subsets.sort_by_key(|v| v.len());
    for sub in subsets {
        let dev = Dev { abort_consumes: sub.contains(&FLAG_D23), lb_always: sub.contains(&FLAG_LB), from_first_letter: sub.contains(&FLAG_START), sync_rb_from_lb: sub.contains(&FLAG_RB), rebuild_all: sub.contains(&FLAG_REBUILD), anomaly_reference: false };
        let (o2, w2) = deviating_original(&b.orig, &b.program, dev, lex, c.lmin, c.rmin);
        if let Ok(r) = oracle_lists(&o2, out, &w2, lex, c.lmin, c.rmin, dev, simple) {
            apply_report(case, &r);
            case.class_if(sub.len() > 1, "known:several_flags_together");
            return Some(sub[0]);
        }
    }
    None
}

fn oracle_inner(ctx: &Known, c: &LCase, case: &mut Case) -> Verdict {
    let lex = match Lex::of(c) {
        Ok(l) => l,
        Err(_) => return Verdict::Skip("pattern set outside the domain"),
    };
    let b = match build(c) {
        Ok(b) => b,
        Err(m) => return Verdict::Skip(m),
    };
    let rules = font_rules(c);
    let words = discover(&b.orig, Dev::default());
    shape_classes(case, &b, &words, &lex, c.lmin, c.rmin);
    // The implementation runs on EVERY case, also on those the list oracle cannot judge: a panic (or a
    // hang, see `guarded`) is a violation whatever TeX does with the word.
    let out = match panics::catch(|| run_impl(c, &b)) {
        Ok(o) => o,
        Err(p) => {
            let sig = p.signature();
            if ctx.known(&sig) {
                case.class("known:panic");
                return Verdict::Known(sig);
            }
            return Verdict::Fail(format!("hyphenate panicked at {}: {}\n  signature: {}\n  case: {}\n  before: {}", p.site(), p.message, sig, render_case(c), show_list(&b.orig)));
        }
    };
    case.note = Some(format!("{} => {}", render_case(c), show_list(&out)));
    if std::env::var("VP_C14_SHOW").is_ok() {
        eprintln!("{}\n  before: {}\n  after:  {}", render_case(c), show_list(&b.orig), show_list(&out));
        for (name, dev) in [("TeX", tex_hyph::Deviations::default()), ("TeX with ha ignored", tex_hyph::Deviations { ha_char_ignored: true, ..Default::default() })] {
            match tex_lists(&b, &words, &lex, c.lmin, c.rmin, dev) {
                Ok(m) => eprintln!("  {name}: {}", show_list(&m.t)),
                Err(e) => eprintln!("  {name}: model not applicable: {e}"),
            }
        }
    }
    let simple = if simple_font(&rules) { Some(&rules[..]) } else { None };
    let heur = tex_anomaly(&b.orig, &words, &rules, &lex, c.lmin, c.rmin);
    let fail = |m: String, tex: Option<&TexLists>| {
        Verdict::Fail(format!(
            "{m}\n  case: {}\n  before: {}\n  after:  {}{}",
            render_case(c),
            show_list(&b.orig),
            show_list(&out),
            tex.map(|t| format!("\n  TeX:    {}", show_list(&t.t))).unwrap_or_default()
        ))
    };
    let model = match tex_lists(&b, &words, &lex, c.lmin, c.rmin, tex_hyph::Deviations::default()) {
        Ok(m) => m,
        Err(why) => {
            // No exact expectation (characters beyond 255, ligature loop inside the model, or a
            // discretionary that would replace more than 127 nodes: TeX 918 forgets such a discretionary,
            // a limit of its node layout that the implementation does not share): the clause oracle
            // alone, and TeX's anomalies as the rule table predicts them.
            case.class(if why.contains("127") { "tex_model_not_applicable:disc_would_replace_more_than_127_nodes" } else { "tex_model_not_applicable" });
            if std::env::var("VP_C14_DEBUG_ANOM").is_ok() {
                eprintln!("MODEL-NA {why}: {}\n  before: {}\n  after:  {}", render_case(c), show_list(&b.orig), show_list(&out));
            }
            if let Some(a) = heur {
                case.class(a.class());
                return Verdict::Skip(a.why());
            }
            return match oracle_lists(&b.orig, &out, &words, &lex, c.lmin, c.rmin, Dev::default(), simple) {
                Ok(r) => Verdict::pass(apply_report(case, &r)),
                Err(m) => match known_by_clauses(ctx, c, &b, &out, &lex, simple, true, case) {
                    Some(f) => Verdict::Known(f.into()),
                    None => fail(m, None),
                },
            };
        }
    };
    case.class_if(model.rebuilt > 0, "tex_model:word_rebuilt");
    case.class_if(model.rebuilt_with_ha > 0, "tex_model:word_rebuilt_from_the_node_before_it");
    let equal = lists_eq(&out, &model.t);
    // the stated clauses (i)-(iv) against the original list
    let stated = oracle_lists(&b.orig, &out, &words, &lex, c.lmin, c.rmin, Dev::default(), simple);
    if !model.anomalous.is_empty() {
        // TeX itself does not give back the original nodes of some word (exactly: the TeX model's list
        // without its discretionaries differs from the original list). Clause (i) cannot be demanded of
        // that word; what can be demanded is that the implementation keeps the original nodes, or that
        // clauses (i)-(iv) hold against the nodes TeX rebuilds.
        // (d), seen by the model only: the node before the word is a character of the word's font
        // (typically one that a ligature rule inserted) with a rule for the first letter; TeX 903 starts
        // from that node, so the rule fires a second time
        let d = model.anomalous.iter().any(|&wi| {
            let w = &words[wi];
            w.ha_char
                && match &b.orig[w.first - 1] {
                    ds::Horizontal::Char(c) => Some(c.char),
                    ds::Horizontal::Ligature(l) => Some(l.char),
                    _ => None,
                }
                .and_then(|g| u8::try_from(g as u32).ok())
                .zip(u8::try_from(w.letters[0] as u32).ok())
                .is_some_and(|(g, f)| b.raw.lookup(Some(g), f).is_some())
        });
        case.class(match heur {
            Some(a) => a.class(),
            None if d => "tex_anomaly:d(rule_between_node_before_word_and_first_letter_fires_again)",
            None => "tex_anomaly:other(found_by_the_tex_model_only)",
        });
        if heur.is_none() && !d && std::env::var("VP_C14_DEBUG_ANOM").is_ok() {
            eprintln!("ANOM-OTHER {}\n  before: {}\n  after:  {}\n  TeX:    {}", render_case(c), show_list(&b.orig), show_list(&out), show_list(&model.t));
        }
        if equal {
            case.class("tex_anomaly:reproduced_node_for_node");
            return Verdict::pass(false);
        }
        if let Ok(r) = &stated {
            case.class("tex_anomaly:not_reproduced_original_nodes_kept");
            if std::env::var("VP_C14_DEBUG_ANOM").is_ok() {
                eprintln!("ANOM-KEPT {}\n  before: {}\n  after:  {}\n  TeX:    {}", render_case(c), show_list(&b.orig), show_list(&out), show_list(&model.t));
            }
            return Verdict::pass(apply_report(case, r));
        }
        // TeX's rebuilt nodes, discretionaries that differ from TeX's only in what clause (v) sees
        let wu = discover(&model.u, Dev::default());
        if let Ok(r) = oracle_lists(&model.u, &out, &wu, &lex, c.lmin, c.rmin, Dev { anomaly_reference: true, ..Dev::default() }, simple) {
            match oracle_lists(&model.u, &model.t, &wu, &lex, c.lmin, c.rmin, Dev { anomaly_reference: true, ..Dev::default() }, simple) {
                Ok(rt) if rt.positions != r.positions => {
                    return fail(format!("(iv, exact) discretionaries at [word, letter position] {:?}, TeX 913-916 keeps exactly {:?} of the permitted positions", r.positions, rt.positions), Some(&model));
                }
                Ok(_) => {}
                Err(_) => case.class("inconclusive:clause_oracle_rejects_the_tex_model_list"),
            }
            case.class("tex_anomaly:rebuilt_nodes_reproduced_stated_clauses_hold_against_them");
            differs_classes(case, &out, &model.t);
            return Verdict::pass(apply_report(case, &r));
        }
        if let Some(f) = known_by_model(ctx, &b, &out, &words, &lex, c.lmin, c.rmin, simple, case) {
            case.class("known:in_a_tex_anomaly_case");
            return Verdict::Known(f.into());
        }
        return fail(
            format!(
                "TeX rebuilds a word of this list differently from the nodes that were there ({}); the implementation's list satisfies clauses (i)-(iv) neither against the original nodes [{}] nor against the nodes TeX rebuilds; {}",
                heur.map(|a| a.why()).unwrap_or("no anomaly rule matched, the TeX model shows it"),
                stated.as_ref().err().cloned().unwrap_or_default(),
                first_diff(&out, &model.t)
            ),
            Some(&model),
        );
    }
    case.class_if(heur.is_some(), "anomaly_rule_matched_but_tex_rebuilds_the_same_nodes");
    match stated {
        Ok(r) => {
            if equal {
                case.class_if(model.discs > 0, "equals_tex_model_list_with_discretionaries");
            } else {
                // Which permitted positions TeX 913-916 drops while the branches synchronise is part of
                // "exactly the Liang positions" (clause (iv) alone only knows that a dropped position lies
                // inside replaced letters): the SET of letter positions must be TeX's.
                match oracle_lists(&b.orig, &model.t, &words, &lex, c.lmin, c.rmin, Dev::default(), simple) {
                    Ok(rt) if rt.positions != r.positions => {
                        return fail(format!("(iv, exact) discretionaries at [word, letter position] {:?}, TeX 913-916 keeps exactly {:?} of the permitted positions (the others are dropped while the branches synchronise)", r.positions, rt.positions), Some(&model));
                    }
                    Ok(_) => {}
                    Err(_) => case.class("inconclusive:clause_oracle_rejects_the_tex_model_list"),
                }
                // Clause (v) alone: the stated property holds (original nodes kept, letters carried, exactly
                // TeX's positions), the discretionaries are not built the way TeX 903-918 builds them.
                // Counted, never a violation.
                differs_classes(case, &out, &model.t);
                if std::env::var("VP_C14_DEBUG_DIFF").is_ok() {
                    eprintln!("DIFFERS {}\n  before: {}\n  after:  {}\n  TeX:    {}", render_case(c), show_list(&b.orig), show_list(&out), show_list(&model.t));
                }
            }
            Verdict::pass(apply_report(case, &r))
        }
        Err(m) => {
            if equal {
                // two oracles disagree about the same list: never a verdict about the implementation
                case.class("inconclusive:clause_oracle_rejects_the_tex_model_list");
                return Verdict::Skip("inconclusive: the clause oracle rejects a list that equals the TeX model's list");
            }
            if let Some(f) = known_by_model(ctx, &b, &out, &words, &lex, c.lmin, c.rmin, simple, case) {
                return Verdict::Known(f.into());
            }
            if let Some(f) = known_by_clauses(ctx, c, &b, &out, &lex, simple, false, case) {
                return Verdict::Known(f.into());
            }
            fail(m, Some(&model))
        }
    }
}

// ---------------------------------------------------------------------------------------------
// Calibration 1: the unit tests of boxworks-hyphenate

#[derive(Debug, Clone, Serialize, Deserialize)]
pub struct Golden {
    pub name: String,
    pub case: LCase,
    /// TeX's list after the first two nodes (`x`, glue), in the box language
    pub want: String,
}

fn str_field(block: &str, key: &str) -> Option<String> {
    let i = block.find(key)?;
    let rest = &block[i + key.len()..];
    let rest = rest.trim_start();
    if let Some(r) = rest.strip_prefix("r#\"") {
        let e = r.find("\"#")?;
        return Some(r[..e].to_string());
    }
    let rest = rest.strip_prefix("Some(").unwrap_or(rest);
    let r = rest.strip_prefix('"')?;
    let e = r.find('"')?;
    Some(r[..e].to_string())
}

fn unit_goldens() -> Vec<Golden> {
    let Some(start) = UNIT_TESTS_SRC.find("hyphenation_tests![") else { return vec![] };
    let src = &UNIT_TESTS_SRC[start..];
    let mut out = vec![];
    let mut rest = src;
    while let Some(i) = rest.find("TestCase {") {
        let head = &rest[..i];
        let name = head.trim_end().trim_end_matches(',').rsplit(|c: char| !(c.is_alphanumeric() || c == '_')).next().unwrap_or("").to_string();
        let body = &rest[i..];
        // the block ends at the first line that is exactly "}," at TestCase indentation
        let end = body.find("\n            },").unwrap_or(body.len());
        let block = &body[..end];
        let input = str_field(block, "input:").unwrap_or_default();
        let program = str_field(block, "lig_kern_program:").unwrap_or_default();
        let want = str_field(block, "want:").unwrap_or_default();
        let patterns = if block.contains("hyphenation_patterns:") { str_field(block, "hyphenation_patterns:") } else { None };
        let lmin = block.find("left_hyphen_min: Some(").map(|k| {
            let r = &block[k + "left_hyphen_min: Some(".len()..];
            r[..r.find(')').unwrap()].trim().parse::<i32>().unwrap()
        });
        let unhyph: String = input.chars().filter(|c| *c != '-').collect();
        let exc = patterns.unwrap_or_else(|| input.clone());
        out.push(Golden {
            name,
            case: LCase {
                rules: Some(program.lines().map(|l| l.trim().to_string()).filter(|l| !l.is_empty()).collect()),
                patterns: None,
                exceptions: exc.split_whitespace().map(|s| s.to_string()).collect(),
                lmin: lmin.unwrap_or(1),
                rmin: 1,
                items: vec![Item::Word("x".into()), Item::Space, Item::Word(unhyph)],
            },
            want,
        });
        rest = &body[end..];
    }
    out
}

fn golden_inner(g: &Golden, case: &mut Case) -> Verdict {
    let c = &g.case;
    let lex = match Lex::of(c) {
        Ok(l) => l,
        Err(m) => return Verdict::Fail(format!("golden {}: {m}", g.name)),
    };
    let b = match build(c) {
        Ok(b) => b,
        Err(m) => return Verdict::Fail(format!("golden {}: {m}", g.name)),
    };
    let tail = match boxworks::lang::parse_horizontal_list(&g.want) {
        Ok(v) => v,
        Err(_) => return Verdict::Fail(format!("golden {}: expected list does not parse", g.name)),
    };
    let mut tex: Vec<ds::Horizontal> = b.orig[..2].to_vec();
    tex.extend(tail);
    let rules = font_rules(c);
    let words = discover(&b.orig, Dev::default());
    let anomaly = tex_anomaly(&b.orig, &words, &rules, &lex, c.lmin, c.rmin).is_some();
    case.class_if(anomaly, "tex_bchar_ligature_anomaly");
    // 0. the TeX model (models::tex_hyph) must build TeX's own list node for node, anomalies included
    match tex_lists(&b, &words, &lex, c.lmin, c.rmin, tex_hyph::Deviations::default()) {
        Err(m) => return Verdict::Fail(format!("CALIBRATION: the TeX model does not apply to unit test {}: {m}", g.name)),
        Ok(m) => {
            if !lists_eq(&m.t, &tex) {
                return Verdict::Fail(format!("CALIBRATION: the TeX model differs from TeX's list of unit test {}; {}
  before: {}
  model:  {}
  TeX:    {}", g.name, first_diff(&m.t, &tex), show_list(&b.orig), show_list(&m.t), show_list(&tex)));
            }
            case.class_if(!m.anomalous.is_empty(), "tex_model_shows_anomaly");
            // (the rule-table prediction only names the class; the model decides - a disagreement is
            // counted, it says nothing about the implementation)
            case.class_if(m.anomalous.is_empty() == anomaly, "anomaly_rule_and_tex_model_disagree");
        }
    }
    // 1. the oracle must accept TeX's own list
    let simple = if simple_font(&rules) { Some(&rules[..]) } else { None };
    case.class_if(simple.is_some(), "simple_font");
    let r = oracle_lists(&b.orig, &tex, &words, &lex, c.lmin, c.rmin, Dev::default(), simple);
    match (&r, anomaly) {
        (Err(m), false) => {
            return Verdict::Fail(format!("CALIBRATION: oracle rejects TeX's list of unit test {}: {m}\n  before: {}\n  TeX:    {}", g.name, show_list(&b.orig), show_list(&tex)));
        }
        (Ok(_), true) => case.class("anomaly_predicted_but_lists_agree"),
        _ => {}
    }
    // 2. the implementation against TeX's list (what the unit test itself asserts)
    let out = run_impl(c, &b);
    if out.len() != tex.len() || !out.iter().zip(tex.iter()).all(|(a, b)| node_eq(a, b)) {
        return Verdict::Fail(format!("unit test {}: implementation differs from TeX's list\n  impl: {}\n  TeX:  {}", g.name, show_list(&out), show_list(&tex)));
    }
    case.note = Some(format!("{}: {}", g.name, show_list(&tex)));
    match r {
        Ok(r) => {
            let nt = apply_report(case, &r);
            Verdict::pass(nt)
        }
        Err(_) => Verdict::pass(false),
    }
}

// ---------------------------------------------------------------------------------------------
// Watchdog: the code under test contains open-ended loops (synchronisation, TeX 916). Every case
// is evaluated on a helper thread (one per worker, persistent, so the per-thread caches survive).
// A case that has not come back after `HANG_LOOK_S` seconds of wall time is judged by the CPU time
// its helper thread has burnt on it (Linux: /proc/self/task/<tid>/schedstat, else .../stat):
//   * `HANG_CPU_S` seconds of CPU on one case (normal: under 10 ms) = it does not terminate: violation;
//   * less than that (the machine is overloaded, the thread was not scheduled): keep waiting; after
//     `HANG_GIVE_UP_S` seconds of wall time, or if the CPU time cannot be read, the case is
//     INCONCLUSIVE: it is skipped and counted, the helper is replaced, later cases are evaluated
//     normally; a second inconclusive case ends the whole run with exit code 2 (no verdict).
// Wall time alone never produces a violation. After a CONFIRMED hang the remaining cases of the run
// (and the shrinker's candidates) are skipped and counted, not passed.

const HANG_LOOK_S: u64 = 20;
const HANG_CPU_S: f64 = 10.0;
const HANG_GIVE_UP_S: u64 = 600;

/// Test hooks for the watchdog itself (`VP_C14_HANG_CPU_S`, `VP_C14_GIVE_UP_S`): other limits, so
/// that the inconclusive path can be exercised in seconds. Never set in normal runs.
fn hang_cpu_s() -> f64 {
    std::env::var("VP_C14_HANG_CPU_S").ok().and_then(|v| v.parse().ok()).unwrap_or(HANG_CPU_S)
}
fn hang_give_up_s() -> u64 {
    std::env::var("VP_C14_GIVE_UP_S").ok().and_then(|v| v.parse().ok()).unwrap_or(HANG_GIVE_UP_S)
}
static HUNG: std::sync::atomic::AtomicBool = std::sync::atomic::AtomicBool::new(false);
static INCONCLUSIVE: std::sync::atomic::AtomicU32 = std::sync::atomic::AtomicU32::new(0);

#[derive(Clone)]
struct Known {
    sigs: Vec<String>,
}

impl Known {
    fn of(ctx: &Ctx) -> Known {
        Known { sigs: ctx.findings.iter().map(|f| f.sig.clone()).collect() }
    }
    fn known(&self, sig: &str) -> bool {
        self.sigs.iter().any(|s| s == sig)
    }
}

#[derive(Clone)]
enum Job {
    List(LCase),
    Golden(Golden),
}

struct Reply {
    verdict: Verdict,
    classes: Vec<&'static str>,
    note: Option<String>,
}

struct Helper {
    tx: std::sync::mpsc::Sender<Job>,
    rx: std::sync::mpsc::Receiver<Reply>,
    /// kernel thread id of the helper (None: not on Linux / no procfs)
    tid: Option<u64>,
}

thread_local! {
    static HELPER: RefCell<Option<Helper>> = const { RefCell::new(None) };
}

/// CPU seconds (user + system) a thread of this process has consumed so far.
fn thread_cpu_seconds(tid: u64) -> Option<f64> {
    if let Ok(s) = std::fs::read_to_string(format!("/proc/self/task/{tid}/schedstat")) {
        if let Some(ns) = s.split_ascii_whitespace().next().and_then(|x| x.parse::<u64>().ok()) {
            return Some(ns as f64 / 1e9);
        }
    }
    // utime and stime (fields 14 and 15) in clock ticks; 100 per second on every Linux this runs on
    let s = std::fs::read_to_string(format!("/proc/self/task/{tid}/stat")).ok()?;
    let rest = &s[s.rfind(')')? + 1..];
    let f: Vec<&str> = rest.split_ascii_whitespace().collect();
    let (u, k) = (f.get(11)?.parse::<u64>().ok()?, f.get(12)?.parse::<u64>().ok()?);
    Some((u + k) as f64 / 100.0)
}

fn spawn_helper(known: Known) -> Helper {
    let (tx, jrx) = std::sync::mpsc::channel::<Job>();
    let (rtx, rx) = std::sync::mpsc::channel::<Reply>();
    let (ttx, trx) = std::sync::mpsc::channel::<Option<u64>>();
    std::thread::Builder::new()
        .stack_size(256 << 20)
        .spawn(move || {
            let tid = std::fs::read_link("/proc/thread-self").ok().and_then(|p| p.file_name().and_then(|n| n.to_str().and_then(|n| n.parse::<u64>().ok())));
            let _ = ttx.send(tid);
            for job in jrx {
                let mut case = Case::default();
                let r = panics::catch(|| match &job {
                    Job::List(c) => oracle_inner(&known, c, &mut case),
                    Job::Golden(g) => golden_inner(g, &mut case),
                });
                let verdict = match r {
                    Ok(v) => v,
                    Err(p) => Verdict::Fail(format!("panic at {}: {}", p.site(), p.message)),
                };
                if rtx.send(Reply { verdict, classes: std::mem::take(&mut case.classes), note: case.note.take() }).is_err() {
                    break;
                }
            }
        })
        .expect("spawn helper");
    let tid = trx.recv_timeout(std::time::Duration::from_secs(HANG_GIVE_UP_S)).ok().flatten();
    Helper { tx, rx, tid }
}

fn guarded(known: &Known, job: Job, what: String, case: &mut Case) -> Verdict {
    use std::sync::atomic::Ordering::SeqCst;
    if HUNG.load(SeqCst) && !case.replay {
        // a confirmed hang was already reported (the run fails); let the run and the shrinker finish at
        // once, but never count such a case as passed
        case.class("not_evaluated:after_a_confirmed_hang");
        return Verdict::Skip("not evaluated: a non-terminating case was already reported in this run");
    }
    HELPER.with(|h| {
        let mut h = h.borrow_mut();
        if h.is_none() {
            *h = Some(spawn_helper(known.clone()));
        }
        let hh = h.as_ref().unwrap();
        let cpu0 = hh.tid.and_then(thread_cpu_seconds);
        if hh.tx.send(job).is_err() {
            *h = None;
            return Verdict::Fail("helper thread is gone".into());
        }
        let mut waited = 0u64;
        let mut slice = HANG_LOOK_S;
        loop {
            match hh.rx.recv_timeout(std::time::Duration::from_secs(slice)) {
                Ok(r) => {
                    case.classes = r.classes;
                    case.note = r.note;
                    return r.verdict;
                }
                Err(std::sync::mpsc::RecvTimeoutError::Timeout) => {
                    waited += slice;
                    slice = 5;
                    let cpu = match (cpu0, hh.tid.and_then(thread_cpu_seconds)) {
                        (Some(a), Some(b)) => Some(b - a),
                        _ => None,
                    };
                    if let Some(used) = cpu {
                        if used >= hang_cpu_s() {
                            *h = None; // the helper is abandoned (it keeps spinning until the process exits)
                            HUNG.store(true, SeqCst);
                            return Verdict::Fail(format!("no result after {used:.1} s of CPU time on this one case (normal cases take well under 10 ms): hyphenate does not terminate\n  case: {what}"));
                        }
                    }
                    if cpu.is_none() || waited >= hang_give_up_s() {
                        *h = None;
                        let n = INCONCLUSIVE.fetch_add(1, SeqCst) + 1;
                        eprintln!(
                            "C14 watchdog: INCONCLUSIVE case (no answer after {waited} s of wall time, CPU time of the helper on it: {}); case: {what}",
                            cpu.map(|c| format!("{c:.2} s, below the {} s that prove a hang", hang_cpu_s())).unwrap_or_else(|| "unreadable".into())
                        );
                        if n >= 2 {
                            eprintln!("C14 watchdog: second inconclusive case; the machine is too loaded for a verdict. Exit code 2 (inconclusive).");
                            std::process::exit(2);
                        }
                        case.class("inconclusive:watchdog_wall_clock_without_cpu_proof");
                        return Verdict::Skip("inconclusive: no answer in wall time, but too little CPU time used to call it a hang");
                    }
                }
                Err(std::sync::mpsc::RecvTimeoutError::Disconnected) => {
                    *h = None;
                    return Verdict::Fail(format!("helper thread died\n  case: {what}"));
                }
            }
        }
    })
}

fn oracle(known: &Known, c: &LCase, case: &mut Case) -> Verdict {
    guarded(known, Job::List(c.clone()), render_case(c), case)
}

fn golden_oracle(known: &Known, g: &Golden, case: &mut Case) -> Verdict {
    guarded(known, Job::Golden(g.clone()), format!("unit test {}", g.name), case)
}

// ---------------------------------------------------------------------------------------------
// Calibration 2: TeX's hyphenated lists of Alice in Wonderland

#[derive(Debug, Clone, Serialize, Deserialize)]
pub struct BoxPair {
    pub index: usize,
    pub before: String,
    pub after: String,
}

fn split_boxes(text: &str) -> Vec<String> {
    let mut v = vec![];
    let mut cur = String::new();
    for line in text.lines() {
        if line.starts_with("# hbox ") && !cur.trim().is_empty() {
            v.push(std::mem::take(&mut cur));
        }
        if line.starts_with('#') {
            continue;
        }
        cur.push_str(line);
        cur.push('\n');
    }
    if !cur.trim().is_empty() {
        v.push(cur);
    }
    v
}

fn alice_pairs() -> Vec<BoxPair> {
    let (Ok(a), Ok(b)) = (std::fs::read_to_string(ALICE_PLAIN), std::fs::read_to_string(ALICE_HYPH)) else {
        return vec![];
    };
    let (a, b) = (split_boxes(&a), split_boxes(&b));
    if a.len() != b.len() {
        return vec![];
    }
    a.into_iter().zip(b).enumerate().map(|(index, (before, after))| BoxPair { index, before, after }).collect()
}

fn alice_oracle(p: &BoxPair, case: &mut Case) -> Verdict {
    let parse = |s: &str| -> Option<Vec<ds::Horizontal>> {
        match boxworks::lang::parse_horizontal_list(s) {
            Ok(mut v) if v.len() == 1 => match v.remove(0) {
                ds::Horizontal::HBox(h) => Some(h.list),
                _ => None,
            },
            _ => None,
        }
    };
    let (Some(orig), Some(tex)) = (parse(&p.before), parse(&p.after)) else {
        return Verdict::Fail(format!("alice box {} does not parse", p.index));
    };
    let (ps, es) = plain_lex();
    let lex = Lex { patterns: std::borrow::Cow::Borrowed(&ps[..]), exceptions: es.clone() };
    let rules: Vec<Rule> = CMR10_LIGS.iter().map(|&(l, r, z)| Rule { l: Some(l), r, lig: Some(z), plain: true }).collect();
    let words = discover(&orig, Dev::default());
    // the TeX model must build TeX's own list node for node
    let (file, program) = cmr10();
    let built = Built { orig: orig.clone(), program, raw: cmr10_raw(), scale: tfm_arith::tex_scale(file.header.design_size.0) };
    match tex_lists(&built, &words, &lex, 2, 3, tex_hyph::Deviations::default()) {
        Err(m) => return Verdict::Fail(format!("CALIBRATION: the TeX model does not apply to alice box {}: {m}", p.index)),
        Ok(m) => {
            if !lists_eq(&m.t, &tex) {
                return Verdict::Fail(format!("CALIBRATION: the TeX model differs from TeX's hyphenated list of alice box {}; {}
  before: {}
  model:  {}
  TeX:    {}", p.index, first_diff(&m.t, &tex), show_list(&orig), show_list(&m.t), show_list(&tex)));
            }
            case.class_if(m.discs > 0, "tex_model_equals_tex_list_with_discretionaries");
        }
    }
    match oracle_lists(&orig, &tex, &words, &lex, 2, 3, Dev::default(), Some(&rules)) {
        Ok(r) => {
            let nt = apply_report(case, &r);
            case.note = Some(format!("alice box {}: {} discretionaries in {} words", p.index, r.discs, r.words_tried));
            Verdict::pass(nt)
        }
        Err(m) => Verdict::Fail(format!("CALIBRATION: oracle rejects TeX's hyphenated list of alice box {}: {m}\n  before: {}\n  TeX:    {}", p.index, show_list(&orig), show_list(&tex))),
    }
}

// ---------------------------------------------------------------------------------------------
// Hand-made cases

fn text_items(text: &str) -> Vec<Item> {
    let mut v = vec![];
    for (i, w) in text.split(' ').enumerate() {
        if i > 0 {
            v.push(Item::Space);
        }
        if !w.is_empty() {
            v.push(Item::Word(w.to_string()));
        }
    }
    v
}

fn sv(v: &[&str]) -> Vec<String> {
    v.iter().map(|s| s.to_string()).collect()
}

fn fixed_cases() -> Vec<LCase> {
    let cm = |text: &str, pats: Option<&[&str]>, exc: &[&str], l: i32, r: i32| LCase {
        rules: None,
        patterns: pats.map(sv),
        exceptions: sv(exc),
        lmin: l,
        rmin: r,
        items: text_items(text),
    };
    let sy = |text: &str, rules: &[&str], pats: &[&str], l: i32, r: i32| LCase {
        rules: Some(sv(rules)),
        patterns: Some(sv(pats)),
        exceptions: vec![],
        lmin: l,
        rmin: r,
        items: text_items(text),
    };
    vec![
        // DESIGN.md section 4 examples
        cm("x afficb", Some(&["f1f", "f1i"]), &[], 1, 1),
        cm("x afficb", Some(&["f1i"]), &[], 1, 1),
        cm("x afficb", Some(&["f1f", "i1c"]), &[], 1, 1),
        cm("x afffb", Some(&["f1f"]), &[], 1, 1),
        sy("x abcd", &["bc -> b[100]c"], &["a1b", "b1c", "c1d"], 1, 1),
        // D23 shapes
        cm("x Contents", None, &[], 2, 3),
        cm("x 3.0 Contents", None, &[], 2, 3),
        cm("x 3.0 4.0 Contents", None, &[], 2, 3),
        cm("x  Contents", None, &[], 2, 3),
        cm("x (Contents)", None, &[], 2, 3),
        cm("x ``Contents''", None, &[], 2, 3),
        cm("x 3.0Contents", None, &[], 2, 3),
        // explicit hyphens, digits, long words
        cm("a well-known representation of hyphenation", None, &[], 2, 3),
        cm("x supercalifragilisticexpialidocioussupercalifragilisticexpialidocious difficult", None, &[], 2, 3),
        cm("x difficult waffle office baffling", None, &["dif-fi-cult", "waf-f-le", "of-f-i-ce", "baf-fl-ing"], 1, 1),
        cm("x AVOWAL Toyota baby, voyage.", None, &["a-v-o-w-a-l", "t-o-y-o-t-a", "ba-by", "v-o-y-a-g-e"], 1, 1),
        // left boundary shapes in a synthetic font
        sy("x ab", &["|a -> |[100]a"], &["a1b"], 1, 1),
        sy("x (ab", &["|a -> |[100]a"], &["a1b"], 1, 1),
        sy("x ab", &["|a -> |x^a"], &["a1b"], 1, 1),
        sy("x ab", &["|a -> |x^_"], &["a1b"], 1, 1),
        sy("x abcd", &["ab -> _x^_", "cd -> _z^_", "bc -> _y^_", "z| -> _w^|"], &["a1b"], 1, 1),
        // the node before the word is a boundary ligature without original characters (TeX 903 frees it
        // and starts again from the boundary)
        sy("x ab", &["|a -> |x^a", "xa -> x^y_"], &["a1b"], 1, 1),
        // no permitted hyphen: TeX 902 leaves the list alone
        LCase {
            rules: Some(sv(&["|b -> |[100]b"])),
            patterns: Some(vec![]),
            exceptions: vec![],
            lmin: 1,
            rmin: 1,
            items: vec![Item::Word("x".into()), Item::Space, Item::Word("aa".into()), Item::Font(1), Item::Word("b".into())],
        },
        sy("x aa, b", &["a, -> a^x,"], &[], 1, 1),
        sy("x a- b", &["a- -> _x^_"], &[], 1, 1),
        // --- shapes added with the TeX 903-918 model; where the implementation builds the
        // discretionaries differently from TeX (=:| ligature before the hyphen, pre-break at the left
        // boundary, boundary kern at the end of a post-break) the stated clauses hold: counted, passes ---
        // a font with BOTH boundaries: the left boundary ligature must open the post-break text
        sy("x ba", &["z| -> _x|^", "|a -> |1^_"], &["b1a"], 1, 1),
        // a ligature that replaces the left letter in view of the right one (=:|): the hyphen between
        // them is passed inside the cut prefix, the pre-break text has the plain letter
        sy("x aab", &["aa -> _x^a"], &["a1a"], 1, 1),
        sy("x aab", &["aa -> _xa^"], &["a1a"], 1, 1),
        // the pre-break text of a discretionary that replaces the first nodes of a word rebuilt from
        // the left boundary starts at the boundary
        sy("x ab", &["|a -> |x^_", "xb -> x[100]b"], &["a1b"], 1, 1),
        sy("x aab", &["|a -> _x^_", "aa -> _w^_"], &["a1a"], 1, 1),
        // hyf_bchar is non_char after a plain letter: no boundary kern at the end of the post-break text
        sy("x aaa", &["aa -> _z^_", "z| -> z[7]|"], &["a1a"], 1, 2),
        // ... but the font's boundary character after an implicit kern / a right-boundary ligature
        sy("x aaa", &["aa -> _z^_", "z| -> z[7]|", "a| -> a[100]|"], &["a1a"], 1, 2),
        sy("x aaa", &["aa -> _z^_", "z| -> z[7]|", "a| -> a^y|"], &["a1a"], 1, 2),
        // TeX's anomalies, reproduced node for node: (a) in its mild form (only the boundary flag of the
        // last ligature changes), (c) kern before a left-boundary ligature, (d) rule between an inserted
        // character before the word and the first letter
        sy("x aaa,", &["a, -> _w,^"], &["a1a"], 1, 1),
        sy("x ba", &["|b -> _z^b", "zb -> zzb^"], &["b1a"], 1, 1),
        // the first word of a list is never tried; a word after it is
        cm("difficult difficult", None, &[], 2, 3),
        cm("difficult", None, &[], 2, 3),
        // node kinds that decide TeX 896 / 899
        LCase { rules: None, patterns: None, exceptions: vec![], lmin: 2, rmin: 3, items: vec![Item::Word("x".into()), Item::Space, Item::Word("difficult".into()), Item::Node(6), Item::Word("difficult".into()), Item::Space, Item::Node(6), Item::Word("difficult".into())] },
        LCase { rules: None, patterns: None, exceptions: vec![], lmin: 2, rmin: 3, items: vec![Item::Word("x".into()), Item::Space, Item::Word("difficult".into()), Item::Node(7), Item::Space, Item::Word("difficult".into()), Item::Node(8), Item::Space, Item::Word("difficult".into()), Item::Node(9), Item::Space, Item::Word("difficult".into()), Item::Node(10)] },
        LCase { rules: None, patterns: None, exceptions: vec![], lmin: 2, rmin: 3, items: vec![Item::Word("x".into()), Item::Space, Item::Word("dis".into()), Item::Node(11), Item::Word("cretionary".into()), Item::Space, Item::Word("difficult".into()), Item::Node(12), Item::Word("e".into()), Item::Space, Item::Word("difficult".into()), Item::Node(13)] },
        LCase { rules: None, patterns: None, exceptions: vec![], lmin: 2, rmin: 3, items: vec![Item::Word("x".into()), Item::Space, Item::Word("diffi".into()), Item::Font(1), Item::Word("cult".into()), Item::Node(6), Item::Space, Item::Word("diffi".into()), Item::Font(0), Item::Word("cult".into()), Item::Node(9)] },
    ]
}

// ---------------------------------------------------------------------------------------------
// Generators

const CORES: &[&str] = &[
    "difficult", "affine", "waffle", "office", "shuffling", "baffled", "efficient", "coffee", "fluffier", "afflict", "fjord", "offload",
    "sufficient", "raffia", "fifty", "flagstaff", "cliffs", "stiffly", "fish", "flow", "fff", "ffi", "fifl", "avowal", "wavy", "toyota", "away",
    "yoyo", "voyage", "baby", "type", "povo", "key", "paw", "fawn", "wax", "hyphenation", "representation", "antidisestablishmentarianism",
    "supercalifragilisticexpialidocious", "university", "computer", "algorithm", "discretionary", "typographical", "contents", "wonderland",
    "adventures", "table", "a", "an", "the", "of", "record", "present", "associate", "declination", "obligatory", "philanthropic", "project",
];
const PREFIXES: &[&str] = &["", "", "", "", "", "(", "``", "`", "[", "3", "---", "!`", "(``", "1."];
const SUFFIXES: &[&str] = &["", "", "", "", ",", ".", ";", ":", "!", "?", ")", "''", "'", ".)", "...", "1", "--", "-", "'s", ",''"];
const LETTERLESS: &[&str] = &["3.0", "1999", "---", "&", "(1)", "$5", "*", "42,", "...", "--", "1.", "``", "3", "-"];
const CM_PATTERN_POOL: &[&str] = &[
    "f1f", "f1i", "f1l", "1fi", "ff1i", "f2f1l", "1a", "a1", "e1", "i1c", "1b", "o1", "y1", "1v", "a1v", "w1a", "2ff1", "1f", "l1", "1t", ".a1", "t1.",
    "f1fi", "ff2i", "1o", "a2v", "v1o", "1y", "i1", "1l", "u1", "1c", "4f1f", "f3f", "1w", "t1y",
];

#[derive(Debug, Clone)]
struct RawToken {
    kind: u8,
    core: Vec<u16>,
    letters: Vec<u8>,
    prefix: u16,
    suffix: u16,
    casing: u8,
    split: u8,
    before: u8,
    hyph_mask: u64,
    exc: bool,
}

fn raw_token() -> impl Strategy<Value = RawToken> {
    (
        (any::<u8>(), prop::collection::vec(any::<u16>(), 1..9), prop::collection::vec(any::<u8>(), 1..14), any::<u16>(), any::<u16>()),
        (any::<u8>(), any::<u8>(), any::<u8>(), any::<u64>(), any::<bool>()),
    )
        .prop_map(|((kind, core, letters, prefix, suffix), (casing, split, before, hyph_mask, exc))| RawToken { kind, core, letters, prefix, suffix, casing, split, before, hyph_mask, exc })
}

fn pick<'a>(pool: &[&'a str], i: u16) -> &'a str {
    pool[pick_idx(i, pool.len())]
}

fn apply_case(s: &str, casing: u8) -> String {
    match casing % 8 {
        0 => {
            let mut c = s.chars();
            match c.next() {
                Some(f) => f.to_ascii_uppercase().to_string() + c.as_str(),
                None => String::new(),
            }
        }
        1 => s.to_ascii_uppercase(),
        _ => s.to_string(),
    }
}

/// Number of directly pushed node kinds (`Item::Node` codes 0..NODE_KINDS, see `pushed_node`).
const NODE_KINDS: u8 = 14;

/// After the word of a token: a directly pushed node (TeX 899 decides whether the word may be
/// hyphenated), in one case of four followed by a second word without a space, so that the node
/// stands INSIDE what the text treats as one word ("ab\mark{}cd", "dis\-cretionary").
fn node_after_word(t: &RawToken, items: &mut Vec<Item>, allow_nodes: bool, tail: &str) {
    if allow_nodes && t.hyph_mask >> 60 <= 2 {
        items.push(Item::Node(((t.hyph_mask >> 52) % NODE_KINDS as u64) as u8));
        if (t.hyph_mask >> 50) & 3 == 0 && !tail.is_empty() {
            items.push(Item::Word(tail.to_string()));
        }
    }
}

/// Turns one raw token into items (and perhaps an exception) for cmr10 text.
fn cm_token(t: &RawToken, items: &mut Vec<Item>, exceptions: &mut Vec<String>, allow_nodes: bool) {
    const ALPHA: &[u8] = b"fffiillaeeoutnsrvwybcdg";
    match t.before % 32 {
        0 => items.push(Item::Font(1)),
        1 => items.push(Item::Font(0)),
        2 | 4 if allow_nodes => items.push(Item::Node(t.split % NODE_KINDS)),
        3 => items.push(Item::Space),
        _ => {}
    }
    let core: String = match t.kind % 16 {
        0 | 1 => {
            items.push(Item::Word(pick(LETTERLESS, t.core[0]).to_string()));
            return;
        }
        2..=4 => t.letters.iter().map(|b| ALPHA[(*b as usize) % ALPHA.len()] as char).collect(),
        5 => t.core.iter().map(|i| pick(CORES, *i)).collect::<Vec<_>>().join(""),
        6 => format!("{}-{}", pick(CORES, t.core[0]), pick(CORES, *t.core.last().unwrap())),
        7 => format!("{}{}{}", pick(CORES, t.core[0]), (t.split % 10), pick(CORES, *t.core.last().unwrap())),
        _ => pick(CORES, t.core[0]).to_string(),
    };
    if t.exc {
        // an exception for the first run of letters of the core, hyphens from the mask
        let w: String = core.chars().take_while(|c| c.is_ascii_alphabetic()).collect();
        if w.len() >= 2 && w.len() <= 63 {
            let mut e = String::new();
            for (i, c) in w.chars().enumerate() {
                if i > 0 && (t.hyph_mask >> (i % 64)) & 1 == 1 {
                    e.push('-');
                }
                e.push(c);
            }
            exceptions.push(e);
        }
    }
    let word = format!("{}{}{}", pick(PREFIXES, t.prefix), apply_case(&core, t.casing), pick(SUFFIXES, t.suffix));
    // a font switch in the middle of the token (TeX: ab{\it cd})
    if t.split % 16 == 0 && word.len() >= 2 {
        let k = 1 + (t.split as usize / 16) % (word.len() - 1);
        if word.is_char_boundary(k) {
            items.push(Item::Word(word[..k].to_string()));
            items.push(Item::Font(((t.split / 16) % 2) as u8 ^ 1));
            items.push(Item::Word(word[k..].to_string()));
            // (TeX 899 walks over the other font's characters to the node that decides)
            node_after_word(t, items, allow_nodes, "");
            return;
        }
    }
    items.push(Item::Word(word));
    node_after_word(t, items, allow_nodes, pick(CORES, *t.core.last().unwrap()));
}

/// No two `Word` items are adjacent without a space, font switch or node between them: TeX joins
/// such a pair into one word when it reconstitutes (the `shelf{}ful` effect), which is outside (i).
/// A font switch to the font already active is no separator either.
fn normalise_items(items: Vec<Item>) -> Vec<Item> {
    let mut out: Vec<Item> = vec![];
    let mut font = 0u8;
    for it in items {
        match &it {
            Item::Font(n) => {
                let n = n & 1;
                if n == font {
                    continue;
                }
                font = n;
                out.push(Item::Font(n));
            }
            Item::Word(w) => {
                if w.is_empty() {
                    continue;
                }
                if matches!(out.last(), Some(Item::Word(_))) {
                    out.push(Item::Space);
                }
                out.push(it);
            }
            _ => out.push(it),
        }
    }
    out
}

fn mins() -> impl Strategy<Value = (i32, i32)> {
    let one = prop_oneof![
        8 => 1..=2i32,
        8 => 1..=5i32,
        1 => prop_oneof![Just(0), Just(-1), Just(6), Just(63), Just(64), Just(70)],
    ];
    (one.clone(), one)
}

fn cm_strategy() -> impl Strategy<Value = LCase> {
    (
        prop::collection::vec(raw_token(), 1..9),
        mins(),
        any::<u8>(),
        prop::collection::vec((any::<u16>(), 0..6u8), 0..7),
        0..8u8,
    )
        .prop_map(|(toks, (lmin, rmin), pat_kind, pats, lead)| {
            // what precedes the first token: the word x, a space, or (a quarter of the cases) nothing:
            // then the list begins with the first word, which TeX never tries (no glue before it)
            let mut items = vec![];
            match lead {
                0 | 1 => {}
                2..=4 => items.push(Item::Space),
                _ => items.push(Item::Word("x".into())),
            }
            let mut exceptions = vec![];
            let allow_nodes = pat_kind % 4 == 0;
            for (k, t) in toks.iter().enumerate() {
                if k > 0 || lead >= 2 {
                    items.push(Item::Space);
                }
                cm_token(t, &mut items, &mut exceptions, allow_nodes);
            }
            let patterns = if pat_kind % 3 == 0 {
                let mut v: Vec<String> = vec![];
                for (i, d) in &pats {
                    // re-digit the pool pattern: every non-zero digit becomes 1 + (d + old) % 5
                    let p: String = pick(CM_PATTERN_POOL, *i)
                        .chars()
                        .map(|c| match c.to_digit(10) {
                            Some(x) if *d > 0 => char::from(b'0' + ((x as u8 + d - 1) % 5) + 1),
                            _ => c,
                        })
                        .collect();
                    let key: String = p.chars().filter(|c| !c.is_ascii_digit()).collect();
                    if !v.iter().any(|q| q.chars().filter(|c| !c.is_ascii_digit()).collect::<String>() == key) {
                        v.push(p);
                    }
                }
                Some(v)
            } else {
                None
            };
            LCase { rules: None, patterns, exceptions, lmin, rmin, items: normalise_items(items) }
        })
}

// --- synthetic fonts

const SY_LETTERS: &[char] = &['a', 'b', 'c', 'd', 'e', 'a', 'b', 'c', 'A', 'B'];
const SY_LEFT: &[char] = &['a', 'b', 'c', 'd', 'e', 'a', 'b', 'c', 'x', 'y', 'z', 'w', '|', '|', '-', '-', ',', '(', 'A'];
const SY_RIGHT: &[char] = &['a', 'b', 'c', 'd', 'e', 'a', 'b', 'c', 'x', 'y', '-', '-', '-', '|', '|', ',', '.', 'B'];
const SY_INS: &[char] = &['x', 'y', 'z', 'w', 'x', 'y', 'z', 'w', '0', '1', 'a', '-'];
const SY_PREFIXES: &[&str] = &["", "", "", "", "(", "((", "3", "-", ",", "|"];
const SY_SUFFIXES: &[&str] = &["", "", "", ",", ".", ",.", "-", "3", ")", "|", "-a"];
const SY_LETTERLESS: &[&str] = &["3.0", "--", "(", ",", "3", "-", "|", ".(."];

#[derive(Debug, Clone)]
struct RawRule {
    mode: u8,
    a: u16,
    b: u16,
    z: u16,
    op: u8,
    k: u8,
}

fn raw_rule() -> impl Strategy<Value = RawRule> {
    (any::<u8>(), any::<u16>(), any::<u16>(), any::<u16>(), 0..16u8, any::<u8>()).prop_map(|(mode, a, b, z, op, k)| RawRule { mode, a, b, z, op, k })
}

fn rule_text(l: char, r: char, z: char, op: u8, k: u8) -> String {
    let kern = [100, 200, -300, 50000, 7][(k % 5) as usize];
    let body = match op {
        0..=3 => format!("{l}[{kern}]{r}"),
        4..=6 => format!("_{z}^_"),
        7 => format!("{l}^{z}{r}"),
        8 => format!("{l}{z}^{r}"),
        9 => format!("{l}{z}{r}^"),
        10 => format!("{l}^{z}_"),
        11 => format!("{l}{z}^_"),
        12 => format!("_{z}^{r}"),
        13 => format!("_{z}{r}^"),
        _ => format!("_{z}^_"),
    };
    format!("{l}{r} -> {body}")
}

fn sy_strategy() -> impl Strategy<Value = LCase> {
    (
        prop::collection::vec(raw_rule(), 0..12),
        prop::collection::vec(raw_token(), 1..6),
        mins(),
        prop::collection::vec((any::<u16>(), any::<u16>(), 0..8u8, 1..6u8), 0..7),
        any::<u8>(),
        1..6usize,
    )
        .prop_map(|(rules, toks, (lmin, rmin), pats, misc, nletters)| {
            let letters: Vec<char> = if misc % 16 == 5 { SY_LETTERS.to_vec() } else { SY_LETTERS[..nletters].to_vec() };
            // the words first: the rules are aimed at their letter pairs
            let mut cores: Vec<Option<String>> = vec![];
            for t in &toks {
                if t.kind % 16 < 2 {
                    cores.push(None);
                    continue;
                }
                let n = if t.kind % 16 == 2 { 60 + t.letters.len() } else { (t.letters.len() + 1).min(2 + (t.kind as usize / 16) % 9) };
                let core: String = (0..n).map(|i| letters[(t.letters[i % t.letters.len()] as usize + i / t.letters.len()) % letters.len()]).collect();
                cores.push(Some(core));
            }
            let words: Vec<Vec<char>> = cores.iter().flatten().map(|s| s.chars().collect()).collect();
            let mut rs: Vec<String> = vec![];
            let mut inserted: Vec<char> = vec![];
            for r in &rules {
                let z = SY_INS[pick_idx(r.z, SY_INS.len())];
                let w: Option<&Vec<char>> = if words.is_empty() { None } else { Some(&words[pick_idx(r.a, words.len())]) };
                let (l, rc) = match (r.mode % 16, w) {
                    // an adjacent letter pair of a word
                    (0..=6, Some(w)) if w.len() >= 2 => {
                        let i = pick_idx(r.b, w.len() - 1);
                        (w[i], w[i + 1])
                    }
                    // a character inserted by an earlier rule followed by a letter of a word / hyphen / boundary
                    (7..=9, Some(w)) if !inserted.is_empty() => {
                        let x = inserted[pick_idx(r.a, inserted.len())];
                        let pool: Vec<char> = w.iter().copied().chain(['-', '|']).collect();
                        (x, pool[pick_idx(r.b, pool.len())])
                    }
                    // left boundary and the first letter of a word
                    (10, Some(w)) => ('|', w[0]),
                    // a letter (or inserted character) and the hyphen character
                    (11 | 12, Some(w)) => {
                        let pool: Vec<char> = w.iter().copied().chain(inserted.iter().copied()).collect();
                        (pool[pick_idx(r.b, pool.len())], '-')
                    }
                    // the last letter of a word and the right boundary / a following punctuation mark
                    (13, Some(w)) => (*w.last().unwrap(), ['|', '|', ',', '-'][(r.b % 4) as usize]),
                    // hyphen character on the left (pre-break material ends with it)
                    (14, _) => ('-', ['|', '|', 'a', ','][(r.b % 4) as usize]),
                    _ => (SY_LEFT[pick_idx(r.a, SY_LEFT.len())], SY_RIGHT[pick_idx(r.b, SY_RIGHT.len())]),
                };
                let key = format!("{l}{rc}");
                if key == "||" || rs.iter().any(|q| q.starts_with(&key)) {
                    continue;
                }
                if r.op >= 4 {
                    inserted.push(z);
                }
                rs.push(rule_text(l, rc, z, r.op, r.k));
            }
            // what precedes the first token: the word x, a space, or (a quarter of the cases) nothing
            let mut items = vec![];
            let lead = (misc / 4) % 8;
            match lead {
                0 | 1 => {}
                2 => items.push(Item::Space),
                _ => items.push(Item::Word("x".into())),
            }
            let mut exceptions = vec![];
            let allow_nodes = misc % 4 == 1;
            for (k, (t, core)) in toks.iter().zip(cores).enumerate() {
                if k > 0 || lead >= 2 {
                    items.push(Item::Space);
                }
                match t.before % 32 {
                    0 => items.push(Item::Font(1)),
                    1 => items.push(Item::Font(0)),
                    2 | 4 if allow_nodes => items.push(Item::Node(t.split % NODE_KINDS)),
                    3 => items.push(Item::Space),
                    _ => {}
                }
                let Some(mut core) = core else {
                    items.push(Item::Word(pick(SY_LETTERLESS, t.core[0]).to_string()));
                    continue;
                };
                if t.kind % 16 == 3 && core.len() >= 2 {
                    core.insert(1 + (t.split as usize) % (core.len() - 1), if t.split % 2 == 0 { '-' } else { '3' });
                }
                if t.exc {
                    let w: String = core.chars().take_while(|c| c.is_ascii_alphabetic()).collect();
                    if w.len() >= 2 && w.len() <= 63 {
                        let mut e = String::new();
                        for (i, c) in w.chars().enumerate() {
                            if i > 0 && (t.hyph_mask >> (i % 64)) & 1 == 1 {
                                e.push('-');
                            }
                            e.push(c.to_ascii_lowercase());
                        }
                        exceptions.push(e);
                    }
                }
                let word = format!("{}{}{}", pick(SY_PREFIXES, t.prefix), core, pick(SY_SUFFIXES, t.suffix));
                if t.split % 16 == 0 && word.len() >= 2 {
                    let k = 1 + (t.split as usize / 16) % (word.len() - 1);
                    items.push(Item::Word(word[..k].to_string()));
                    items.push(Item::Font(((t.split / 16) % 2) ^ 1));
                    items.push(Item::Word(word[k..].to_string()));
                    node_after_word(t, &mut items, allow_nodes, "");
                } else {
                    items.push(Item::Word(word));
                    let tail: String = letters.iter().cycle().skip(t.split as usize % letters.len()).take(2 + (t.split as usize / 16) % 4).collect();
                    node_after_word(t, &mut items, allow_nodes, &tail);
                }
            }
            let lower: Vec<char> = {
                let mut v: Vec<char> = letters.iter().map(|c| c.to_ascii_lowercase()).collect();
                v.sort();
                v.dedup();
                v
            };
            let mut v: Vec<String> = vec![];
            for (a, b, shape, d) in &pats {
                let a = lower[pick_idx(*a, lower.len())];
                let b = lower[pick_idx(*b, lower.len())];
                let d2 = 1 + (d % 5);
                let p = match shape {
                    0 | 1 => format!("{a}{d}{b}"),
                    2 => format!("{d}{a}"),
                    3 => format!("{a}{d}"),
                    4 => format!("{a}{d}{b}{d2}"),
                    5 => format!(".{a}{d}"),
                    6 => format!("{d}{a}."),
                    _ => format!("{a}{d2}{b}{d}{a}"),
                };
                let key: String = p.chars().filter(|c| !c.is_ascii_digit()).collect();
                if !v.iter().any(|q| q.chars().filter(|c| !c.is_ascii_digit()).collect::<String>() == key) {
                    v.push(p);
                }
            }
            LCase { rules: Some(rs), patterns: Some(v), exceptions, lmin, rmin, items: normalise_items(items) }
        })
}

// ---------------------------------------------------------------------------------------------
// Small-scope exhaustive pass: every word over {f, i, l, a} of 2..=max letters x every set of hyphen
// positions (given as a \hyphenation exception, no patterns), minimums 1/1, in cmr10: all
// combinations of the ff fi fl ffi ffl ligatures with all hyphen masks.

const EXH_ALPHABET: [char; 4] = ['f', 'i', 'l', 'a'];

fn exhaustive_total(max_len: usize) -> u64 {
    (2..=max_len).map(|n| 4u64.pow(n as u32) << (n - 1)).sum()
}

fn exhaustive_case(mut i: u64, max_len: usize) -> LCase {
    let mut n = 2;
    while n < max_len && i >= 4u64.pow(n as u32) << (n - 1) {
        i -= 4u64.pow(n as u32) << (n - 1);
        n += 1;
    }
    let mask = i & ((1 << (n - 1)) - 1);
    let mut w = i >> (n - 1);
    let mut word = String::new();
    let mut exc = String::new();
    for k in 0..n {
        let c = EXH_ALPHABET[(w % 4) as usize];
        w /= 4;
        if k > 0 && (mask >> (k - 1)) & 1 == 1 {
            exc.push('-');
        }
        word.push(c);
        exc.push(c);
    }
    LCase { rules: None, patterns: Some(vec![]), exceptions: vec![exc], lmin: 1, rmin: 1, items: vec![Item::Word("x".into()), Item::Space, Item::Word(word)] }
}

// ---------------------------------------------------------------------------------------------
// Entry point

pub fn run(ctx: &Ctx) {
    ctx.rule("case = text (words with ligature/kern-rich and long cores, punctuation, digits, explicit hyphens, apostrophes, letterless tokens such as 3.0, words of 64+ letters, upper case; font switches between two copies of one metric file; in a quarter of the cases directly pushed nodes of 14 kinds - penalty, explicit/accent/math kern, math-on/off, rule, whatsit, hbox, vbox, mark, insertion, adjust, discretionary \\- - before a token, after a word (also after a font-split word) or INSIDE a word; in a quarter of the cases the list begins with the first word, no glue before it) typeset by TextPreprocessorImpl in cmr10 or in cmr10's metrics with a generated lig/kern program (all 8 ligature forms and kerns, aimed at the letter pairs of the text, at characters inserted by other rules, at the hyphen character and at both boundaries) x pattern set (plain TeX's, or a small generated one with digits 0-5) x exceptions (hyphenated variants of the words in the text) x left/right hyphen minimums (1..5, rarely 0, -1, 6, 63, 64, 70); cmr10_exhaustive = every word over {f,i,l,a} of 2..6 (thorough: 2..8) letters x every set of hyphen positions, minimums 1/1; non-trivial = at least one inserted discretionary falls strictly inside the letters of a ligature node of the unhyphenated list, or has an implicit kern among or next to the nodes it replaces; distinct = by full case text. Class histograms record the other shapes (which node kind decided TeX 896/899, first word of the list, post-break material, ligatures inside pre/post-break, several nodes replaced, positions dropped inside replaced letters, words after a letterless token, words cut at 63 letters, TeX's anomaly classes a-d, ...)");
    ctx.assume("letters are the 52 ASCII letters (plain TeX's \\lccode table), \\uchyph=1, and the hyphen character of every font is '-': the implementation hard-codes all three, and TeX's golden lists (alice_golden) agree");
    ctx.assume("lists are what TextPreprocessorImpl makes of the items; two add_word calls are never adjacent without a space, a font switch or a node between them (TeX re-ligatures across such a seam when it reconstitutes, the shelf{}ful effect), enforced by construction; directly pushed nodes (a quarter of the cases) go beyond 'produced from text' but stay inside TeX 894-899; the end of the list permits hyphenation like the penalty+glue that ends every TeX paragraph; the first word of a list (no glue before it) is never tried, as in TeX 866");
    ctx.assume("(v) comparison with the list TeX 903-918 builds, NOT demanded: a list that satisfies clauses (i)-(iv) but differs from TeX's in how the discretionaries are built (pre-break/post-break glyphs, kerns, boundary flags, replace counts, discretionary before instead of after a ligature at the same letter position) passes and is counted under differs_from_tex_reconstitution_but_stated_clauses_hold / differs:*; the model decides which words TeX itself rebuilds differently, what KF-C14-1 predicts, and - clause (iv) made exact - WHICH permitted letter positions TeX 913-916 drops while the branches synchronise: the set of letter positions with a discretionary must be TeX's (a discretionary that swallows later permitted positions TeX keeps is a violation of 'exactly the Liang positions'). The model: models::tex_hyph (a transliteration of reconstitute and of the discretionary construction on top of the raw lig/kern instruction interpreter models::ligkern_interp; calibrated node for node on TeX's own lists: the 33 unit tests incl. TeX's anomaly and 995 Alice boxes) gives the expected list; A word in which a discretionary would replace more than 127 nodes (TeX 918 forgets it - a limit of TeX's node layout; only fonts whose rules insert several characters per letter reach it) is left to clauses (i)-(iv) and counted. Clauses (i)-(iv) stay as the model-free check of what the statement says literally; a case where they reject a list that equals the model's is counted as inconclusive, never as a violation (0 in all runs so far)");
    ctx.assume("words TeX itself rebuilds differently (decided exactly: the model's list without its discretionaries differs from the original nodes; only words with a permitted hyphen - TeX 902 leaves every other word alone) cannot satisfy clause (i) against the original nodes; there clauses (i)-(iv) must hold either against the original nodes (the implementation kept them) or against the nodes TeX rebuilds (the model's list without its discretionaries); classes: (a) a ligature rule applies between the end of the word and the character after it, which TeX 903 uses as right boundary (unit tests right_boundary_char_override_3..6; in its mild form only the right-boundary flag of the last ligature changes); (b) the implicit kern after the word stems from the left boundary of a following font; (c) an implicit kern before a word that starts with a left-boundary ligature is produced twice; (d) the node before the word is a character of its font with a rule for the first letter, which fires again. The rule-table predictions of (a)-(c) only name the class (and replace the model where it does not apply: characters beyond 255). The implementation runs on every case, so a panic or hang in such a word is seen. Kerns of width 0 (dropped by TeX 911 `if w<>0`) are never generated");
    ctx.assume("generated lig/kern programs with an infinite loop (compile reports it) are skipped and counted");
    ctx.assume("(ii) compares letters (original characters of character and ligature nodes); every character inside an inserted discretionary must be in the word's font; exactly one trailing hyphen character is removed from the original characters of the pre-break list (it may be followed by a boundary ligature without original characters); everything else inside the discretionaries is covered by (v)");
    ctx.assume("(iv) completeness as calibrated on TeX's lists: a permitted position may lack a discretionary only if it lies strictly inside the letters replaced by a discretionary at an earlier position (TeX 913-916; unit test synchronization_2 drops a hyphen BETWEEN two ligature nodes, so 'inside one ligature node' would be too strict). For fonts whose rules are only kerns and both-characters-replaced ligatures, without boundary rules and without reachable rules for the hyphen character (cmr10 is one), TeX 913-916 is replayed on letter counts and positions AND replaced letter ranges must agree exactly (977 Alice boxes and 9 unit tests calibrate this); for every font (v) decides the exact set");
    ctx.assume("structure beyond the property text, calibrated on TeX's lists: a discretionary or the end of its replaced nodes never separates a character from the implicit kern after it");
    ctx.assume("every case runs on a helper thread; a case without an answer is judged by the CPU time the helper spent on it: 10 s of CPU on one case (normal: < 10 ms) is non-termination (suspected TeX 916 loop) and a violation; a wall-clock timeout without that much CPU time (overloaded machine) is inconclusive: the case is skipped and counted, a second one ends the run with exit code 2; wall time alone never fails a case, and after a confirmed hang later cases are skipped and counted, never passed");
    ctx.assume("synthetic fonts are written to TFM bytes and read back before they are given to the text preprocessor and to the hyphenator (what a TeX run would load); the TeX model reads the rule text of the case");
    ctx.assume("known-finding flags switch on named deviations of the reference; flag:word_rebuilt_from_its_first_letter... (KF-C14-1) is a deviation of the TeX model itself (the node before the word is ignored only if it is a character or ligature of the word's font): the deviating model must build the implementation's list node for node, or clauses (i)-(iv) must hold against the deviating model's list without its discretionaries; the older flags (word discovery consumes the node that stops a letterless prefix; words rebuilt from the left boundary / even without a permitted hyphen; right-boundary field of ligatures among replaced nodes) are deviations of the clause oracle whose rebuilt nodes come from the repository's lig/kern run, only inside the deviation path");

    let known = Known::of(ctx);
    // debugging aid (sensitivity experiments): VP_C14_ONLY=<sub-check> runs only that sub-check
    let only = std::env::var("VP_C14_ONLY").ok();
    let wanted = |name: &str| only.as_deref().map_or(true, |o| o == name) || !ctx.is_generate();

    let goldens = unit_goldens();
    if !wanted("unit_goldens") {
    } else if goldens.len() < 33 {
        ctx.fail_external("unit_goldens", &goldens.len(), &format!("expected the 33 unit tests of boxworks-hyphenate, found {}", goldens.len()));
        return;
    } else {
        run_list(ctx, "unit_goldens", goldens, |g: &Golden, case| golden_oracle(&known, g, case));
    }

    let pairs = if wanted("alice_golden") { alice_pairs() } else { vec![] };
    if !wanted("alice_golden") {
    } else if pairs.is_empty() {
        ctx.assume("alice_golden skipped: the boxworks-bin golden files were not found or do not pair up");
    } else {
        run_list(ctx, "alice_golden", pairs, |p: &BoxPair, case| alice_oracle(p, case));
    }
    if wanted("fixed") {
        run_list(ctx, "fixed", fixed_cases(), |c: &LCase, case| oracle(&known, c, case));
    }
    if wanted("cmr10") {
        let n = ctx.tier.pick(80_000u64, 1_500_000u64);
        run_generated(ctx, "cmr10", n, cm_strategy, |c: &LCase, case| oracle(&known, c, case));
    }
    if wanted("synth") {
        let n = ctx.tier.pick(160_000u64, 3_000_000u64);
        run_generated(ctx, "synth", n, sy_strategy, |c: &LCase, case| oracle(&known, c, case));
    }
    if wanted("cmr10_exhaustive") {
        let max_len = ctx.tier.pick(6usize, 8usize);
        run_indexed(ctx, "cmr10_exhaustive", exhaustive_total(max_len), true, |i| exhaustive_case(i, max_len), |c: &LCase, case| oracle(&known, c, case));
    }
}
