//! C14 — Hyphenating a horizontal list changes nothing unless a break is taken.
//!
//! Implementation under test: `boxworks_hyphenate::Hyphenator` (`boxworks::Hyphenator::hyphenate`)
//! applied to lists made by `boxworks_text::TextPreprocessorImpl`.
//!
//! Oracle (implementation independent; only the list before, the list after, the pattern text, the
//! rule table of the case and the two minimums are looked at):
//!   (i)   sequential alignment: an output node that is not the next original node must be an inserted
//!         discretionary, and the `replace_count` nodes after it are the next original nodes;
//!   (ii)  original characters of the pre-break list end with the hyphen character; without it, followed
//!         by those of the post-break list, they carry the same letters as the replaced nodes; a
//!         discretionary never separates a character from the implicit kern after it;
//!   (iii) soundness: every inserted discretionary lies in a word TeX 894-899 would try (own model of
//!         the discovery), at a position that `models::liang` allows and the minimums admit;
//!   (iv)  completeness: every admitted position has a discretionary unless it lies strictly inside the
//!         letters replaced by a discretionary inserted at an earlier position (TeX 913-916: the first
//!         hyphen of a cut prefix wins, the branches are developed until they synchronise and hyphens
//!         passed over meanwhile are dropped; a hyphen exactly at the synchronisation point is kept).
//!         For "simple" fonts (cmr10 among them) TeX 913-916 is replayed on letter counts and the
//!         positions and replaced ranges must match exactly (`expected_simple`).
//!
//! Sub-checks
//!   unit_goldens  the 33 TeX-verified unit tests of boxworks-hyphenate (read from its source file): the
//!                 ORACLE is run on TeX's expected list (calibration), then the implementation is compared.
//!   alice_golden  TeX's own hyphenated lists for 995 lines of Alice in Wonderland (boxworks-bin golden
//!                 files): oracle on TeX's output (calibration of discovery, minimums, plain patterns,
//!                 the exact span model and the kern rule). The implementation is not involved.
//!   fixed         hand-made cases (DESIGN.md examples, D23 shapes, witnesses of the findings).
//!   cmr10         generated text in cmr10.
//!   synth         generated text in cmr10's metrics with a generated lig/kern program.
//!
//! Debugging aids: `VP_C14_ONLY=<sub-check>` runs one sub-check, `VP_C14_SHOW=1` prints every list.

use crate::engine::*;
use crate::models::liang::{self, Exception, Pattern};
use boxworks::ds;
use boxworks::TextPreprocessor;
use proptest::prelude::*;
use serde::{Deserialize, Serialize};
use std::cell::RefCell;
use std::collections::BTreeSet;
use std::rc::Rc;
use std::sync::OnceLock;

const CMR10: &[u8] = include_bytes!("/repo/crates/tfm/corpus/computer-modern/cmr10.tfm");
const PLAIN_PATTERNS: &str = include_str!("/repo/crates/hyphenate/src/plain_tex_patterns.txt");
const PLAIN_EXCEPTIONS: &str = include_str!("/repo/crates/hyphenate/src/plain_tex_exceptions.txt");
const UNIT_TESTS_SRC: &str = include_str!("/repo/crates/boxworks-hyphenate/src/lib.rs");
const ALICE_PLAIN: &str = "/repo/crates/boxworks-bin/tests/alice_in_wonderland_hlists.txt";
const ALICE_HYPH: &str = "/repo/crates/boxworks-bin/tests/alice_in_wonderland_hlists_hyphenated.txt";

pub const FLAG_D23: &str = "flag:glue_ending_a_letterless_prefix_starts_no_attempt";
pub const FLAG_LB: &str = "flag:word_always_rebuilt_from_left_boundary";
pub const FLAG_RB: &str = "flag:sync_ligature_right_boundary_flag_taken_from_left";
pub const FLAG_REBUILD: &str = "flag:word_without_permitted_hyphen_is_rebuilt_anyway";
/// Not a defect of the pinned tree on its own (there FLAG_LB covers it): what remains of FLAG_LB if the
/// lig/kern run of a rebuilt word is started at the boundary only when the first letter node is a
/// ligature that includes the boundary. TeX 903 starts from the NODE BEFORE the word when that is a
/// character or ligature of the word's font, so a ligature rule between that node and the first letter
/// (", b -> , x") is applied again; a run that starts at the first letter loses it.
pub const FLAG_START: &str = "flag:word_rebuilt_from_its_first_letter_not_from_the_node_before_it";

// ---------------------------------------------------------------------------------------------
// Case representation

#[derive(Debug, Clone, Serialize, Deserialize, PartialEq, Eq)]
pub enum Item {
    /// argument of one `add_word` call (a TeX "word": characters between two spaces)
    Word(String),
    /// one `add_space` call
    Space,
    /// `activate_font(n)`; fonts 0 and 1 are the same metric file (`{\otherfont ...}` in TeX)
    Font(u8),
    /// a node pushed directly: 0 penalty, 1 explicit kern, 2 math-on, 3 rule, 4 whatsit, 5 empty hbox
    Node(u8),
}

#[derive(Debug, Clone, Serialize, Deserialize, PartialEq, Eq)]
pub struct LCase {
    /// `None`: cmr10 as it is. `Some`: cmr10's metrics with this lig/kern program (one rule per
    /// entry in the compact notation of `tfm::ligkern::lang::Operation::parse_compact`; `|` is the
    /// boundary character on either side).
    pub rules: Option<Vec<String>>,
    /// `None`: plain TeX's patterns and exceptions. `Some`: exactly these patterns.
    pub patterns: Option<Vec<String>>,
    /// extra `\hyphenation{...}` words
    pub exceptions: Vec<String>,
    pub lmin: i32,
    pub rmin: i32,
    pub items: Vec<Item>,
}

fn render_items(items: &[Item]) -> String {
    let mut s = String::new();
    for it in items {
        match it {
            Item::Word(w) => s.push_str(w),
            Item::Space => s.push(' '),
            Item::Font(n) => s.push_str(&format!("<font{n}>")),
            Item::Node(k) => s.push_str(match k {
                0 => "<penalty>",
                1 => "<kern>",
                2 => "<math>",
                3 => "<rule>",
                4 => "<whatsit>",
                _ => "<hbox>",
            }),
        }
    }
    s
}

fn render_case(c: &LCase) -> String {
    format!(
        "text={:?} font={} patterns={} exceptions={:?} lmin={} rmin={}",
        render_items(&c.items),
        match &c.rules {
            None => "cmr10".to_string(),
            Some(r) => format!("{:?}", r),
        },
        match &c.patterns {
            None => "plain".to_string(),
            Some(p) => format!("{:?}", p),
        },
        c.exceptions,
        c.lmin,
        c.rmin
    )
}

// ---------------------------------------------------------------------------------------------
// Building the list and running the implementation

#[derive(Debug)]
struct DummyWhatsit;
impl ds::Whatsit for DummyWhatsit {}

thread_local! {
    static CMR: RefCell<Option<(tfm::File, tfm::ligkern::CompiledProgram)>> = const { RefCell::new(None) };
    static PLAIN: RefCell<Option<hyphenate::Hyphenator>> = const { RefCell::new(None) };
}

fn cmr10() -> (tfm::File, tfm::ligkern::CompiledProgram) {
    CMR.with(|c| {
        let mut c = c.borrow_mut();
        if c.is_none() {
            let mut f = tfm::File::deserialize(CMR10).0.expect("cmr10.tfm parses");
            let p = tfm::ligkern::CompiledProgram::compile_from_tfm_file(&mut f).0;
            *c = Some((f, p));
        }
        c.as_ref().unwrap().clone()
    })
}

/// One lig/kern rule as far as the oracle needs it (read from the case's own text).
#[derive(Debug, Clone, Copy, PartialEq, Eq)]
struct Rule {
    /// `None` = left boundary
    l: Option<char>,
    /// `'|'` = right boundary (also a real `|`)
    r: char,
    /// inserted character of a ligature rule; `None` for a kern
    lig: Option<char>,
    /// a kern, or a ligature that replaces both characters (`=:`)
    plain: bool,
}

fn parse_rule(s: &str) -> Option<Rule> {
    let mut w = s.split_ascii_whitespace();
    let (a, _, c) = (w.next()?, w.next()?, w.next()?);
    let mut ac = a.chars();
    let (l, r) = (ac.next()?, ac.next()?);
    let lig = if c.contains('[') { None } else { c.chars().filter(|x| *x != '^').nth(1) };
    let plain = match lig {
        None => true,
        Some(z) => c == format!("_{z}^_"),
    };
    Some(Rule { l: if l == '|' { None } else { Some(l) }, r, lig, plain })
}

/// cmr10's ligature rules (the only ones that matter for the TeX anomaly test below).
const CMR10_LIGS: &[(char, char, char)] = &[
    ('f', 'f', '\u{b}'),
    ('f', 'i', '\u{c}'),
    ('f', 'l', '\u{d}'),
    ('\u{b}', 'i', '\u{e}'),
    ('\u{b}', 'l', '\u{f}'),
    ('`', '`', '\\'),
    ('\'', '\'', '"'),
    ('-', '-', '{'),
    ('{', '-', '|'),
    ('!', '`', '<'),
    ('?', '`', '>'),
];

fn font_rules(c: &LCase) -> Vec<Rule> {
    match &c.rules {
        None => CMR10_LIGS.iter().map(|&(l, r, z)| Rule { l: Some(l), r, lig: Some(z), plain: true }).collect(),
        Some(rs) => rs.iter().filter_map(|s| parse_rule(s)).collect(),
    }
}

struct Built {
    orig: Vec<ds::Horizontal>,
    program: tfm::ligkern::CompiledProgram,
}

fn build(c: &LCase) -> Result<Built, &'static str> {
    let (tfm_file, program) = match &c.rules {
        None => cmr10(),
        Some(rules) => {
            let (mut f, _) = cmr10();
            let text = rules.join("\n");
            let Ok((p, e)) = tfm::ligkern::lang::Program::parse_compact(&text) else {
                return Err("rules do not parse");
            };
            f.replace_lig_kern_program(p, e);
            let (p, errs) = tfm::ligkern::CompiledProgram::compile_from_tfm_file(&mut f);
            if !errs.is_empty() {
                return Err("lig/kern program has an infinite loop");
            }
            (f, p)
        }
    };
    let mut tp = boxworks_text::TextPreprocessorImpl::new(boxworks_text::Params::plain_tex_defaults());
    tp.register_font(0, &tfm_file, program.clone());
    tp.register_font(1, &tfm_file, program.clone());
    tp.activate_font(0);
    let mut list: Vec<ds::Horizontal> = vec![];
    for it in &c.items {
        match it {
            Item::Word(w) => tp.add_word(w, &mut list),
            Item::Space => tp.add_space(&mut list),
            Item::Font(n) => tp.activate_font((*n as u32) & 1),
            Item::Node(k) => list.push(match k {
                0 => ds::Penalty(50).into(),
                1 => ds::Kern { width: common::Scaled::ONE, kind: ds::KernKind::Explicit }.into(),
                2 => ds::Math::Before.into(),
                3 => ds::Rule::new().into(),
                4 => ds::Horizontal::Whatsit(Rc::new(DummyWhatsit)),
                _ => ds::HBox::default().into(),
            }),
        }
    }
    Ok(Built { orig: list, program })
}

fn run_impl(c: &LCase, b: &Built) -> Vec<ds::Horizontal> {
    use boxworks::Hyphenator;
    let inner = match &c.patterns {
        None => PLAIN.with(|p| p.borrow_mut().take()).unwrap_or_else(hyphenate::Hyphenator::plain_tex_en_us),
        Some(ps) => {
            let mut h = hyphenate::Hyphenator::default();
            h.load_patterns(&ps.join(" "));
            h
        }
    };
    let reuse = c.patterns.is_none() && c.exceptions.is_empty();
    let mut h = boxworks_hyphenate::Hyphenator {
        lig_kern_program: b.program.clone(),
        hyphenator: inner,
        left_hyphen_min: c.lmin,
        right_hyphen_min: c.rmin,
    };
    if !c.exceptions.is_empty() {
        h.hyphenator.insert_exceptions(&c.exceptions.join(" "));
    }
    let mut list = b.orig.clone();
    h.hyphenate(&mut list);
    if reuse {
        let inner = h.hyphenator;
        PLAIN.with(|p| *p.borrow_mut() = Some(inner));
    }
    list
}

// ---------------------------------------------------------------------------------------------
// Liang positions (models::liang)

struct Lex {
    patterns: std::borrow::Cow<'static, [Pattern]>,
    exceptions: Vec<Exception>,
}

fn plain_lex() -> &'static (Vec<Pattern>, Vec<Exception>) {
    static L: OnceLock<(Vec<Pattern>, Vec<Exception>)> = OnceLock::new();
    L.get_or_init(|| {
        let ps = PLAIN_PATTERNS.split_whitespace().map(|s| Pattern::parse(s).expect("plain pattern parses")).collect();
        let es = PLAIN_EXCEPTIONS.split_whitespace().map(Exception::parse).collect();
        (ps, es)
    })
}

impl Lex {
    fn of(c: &LCase) -> Result<Lex, String> {
        let (patterns, mut exceptions): (std::borrow::Cow<'static, [Pattern]>, Vec<Exception>) = match &c.patterns {
            None => {
                let (p, e) = plain_lex();
                (std::borrow::Cow::Borrowed(&p[..]), e.clone())
            }
            Some(ps) => {
                let mut v: Vec<Pattern> = vec![];
                for s in ps {
                    let p = Pattern::parse(s)?;
                    if v.iter().any(|q| q.same_key(&p)) {
                        return Err("duplicate pattern".into());
                    }
                    v.push(p);
                }
                (std::borrow::Cow::Owned(v), vec![])
            }
        };
        for e in &c.exceptions {
            exceptions.push(Exception::parse(e));
        }
        Ok(Lex { patterns, exceptions })
    }
    /// TeX's permitted positions for a word (given in its original case).
    fn positions(&self, letters: &[char]) -> Vec<usize> {
        let w: Vec<char> = letters.iter().map(|c| c.to_ascii_lowercase()).collect();
        for e in self.exceptions.iter().rev() {
            if e.letters == w {
                return e.positions();
            }
        }
        liang::positions_from_digits(&liang::max_digits(&self.patterns, &w))
    }
}

/// Liang positions of a word that the minimums admit.
fn permitted(w: &WordInfo, lex: &Lex, lmin: i32, rmin: i32) -> Vec<usize> {
    let (l_hyf, r_hyf) = (norm_min(lmin), norm_min(rmin));
    let n = w.letters.len();
    lex.positions(&w.letters).into_iter().filter(|&p| p >= l_hyf && n >= r_hyf && p <= n - r_hyf).collect()
}

/// TeX 1091 (`norm_min`).
fn norm_min(h: i32) -> usize {
    if h <= 0 {
        1
    } else if h >= 64 {
        63
    } else {
        h as usize
    }
}

// ---------------------------------------------------------------------------------------------
// Word discovery after TeX 894-899

fn is_letter(c: char) -> bool {
    // plain TeX: \lccode non-zero exactly for the 52 ASCII letters; \uchyph=1
    c.is_ascii_alphabetic()
}

#[derive(Debug, Clone)]
struct WordInfo {
    /// index of the first letter node and of the last node TeX absorbs (`hb`)
    first: usize,
    last: usize,
    font: u32,
    letters: Vec<char>,
    /// `before[k]` = letters in nodes `first .. first+k`
    before: Vec<usize>,
    /// the node before the first letter is a character or ligature of the same font (`hu[0]`)
    ha_char: bool,
    /// the character TeX uses as right boundary when it is a real one (`hyf_bchar` from a node)
    bchar: Option<char>,
    /// TeX 899 lets the word be hyphenated
    tried: bool,
    cut_at_63: bool,
    prefix_has_char: bool,
}

#[derive(Debug, Clone, Copy, Default, PartialEq, Eq)]
struct Dev {
    /// D23: the node that stops a letterless prefix scan is consumed; if it is a glue, that glue
    /// starts no attempt of its own.
    abort_consumes: bool,
    /// A word with a permitted hyphen is rebuilt from its letters by a lig/kern run that starts at the
    /// left boundary (TeX 903 starts at the boundary only when the node before the word is a character
    /// of another font, or the first letter node / the node before it is a ligature that includes the
    /// boundary; otherwise it starts at the node before the word or at the first letter). Also makes
    /// the rebuilding of `rebuild_all` start at the boundary.
    lb_always: bool,
    /// A word with a permitted hyphen is rebuilt from its letters by a lig/kern run that starts at the
    /// first letter (at the left boundary only if the first letter node is a ligature including the
    /// boundary), never from the node before the word.
    from_first_letter: bool,
    /// A tried word WITHOUT a permitted hyphen is rebuilt from its letters too (TeX 902 returns before
    /// touching the list). Visible when the rebuilt word differs from the nodes that were there: an
    /// implicit kern that belongs to a following font, a ligature with the character after the word
    /// (TeX's own anomaly, but TeX only shows it when a hyphen is found). The rebuilding run starts at
    /// the left boundary if `lb_always` or if the first letter node is a ligature including the boundary.
    rebuild_all: bool,
    /// A ligature of the main list that lies among the nodes a discretionary replaces may carry
    /// `includes_right_boundary = includes_left_boundary` of the true node (field copied from the wrong
    /// source in the synchronisation loop).
    sync_rb_from_lb: bool,
}

/// The list the implementation would produce without any discretionary under `dev`, and the words
/// of that list (positions of the rebuilt words are known by construction).
fn deviating_original(orig: &[ds::Horizontal], program: &tfm::ligkern::CompiledProgram, dev: Dev, lex: &Lex, lmin: i32, rmin: i32) -> (Vec<ds::Horizontal>, Vec<WordInfo>) {
    let mut words = discover(orig, dev);
    if !dev.lb_always && !dev.rebuild_all && !dev.from_first_letter {
        return (orig.to_vec(), words);
    }
    let mut out: Vec<ds::Horizontal> = vec![];
    let mut i = 0; // next original node to copy
    for w in words.iter_mut() {
        let (ofirst, olast) = (w.first, w.last);
        let has_permitted = !permitted(w, lex, lmin, rmin).is_empty();
        let rebuilt = w.tried && if has_permitted { dev.lb_always || dev.from_first_letter } else { dev.rebuild_all };
        if !rebuilt {
            let delta = out.len() as isize - i as isize;
            out.extend_from_slice(&orig[i..=olast]);
            w.first = (ofirst as isize + delta) as usize;
            w.last = (olast as isize + delta) as usize;
            i = olast + 1;
            continue;
        }
        out.extend_from_slice(&orig[i..ofirst]);
        let s: String = w.letters.iter().collect();
        let at_boundary = dev.lb_always || matches!(&orig[ofirst], ds::Horizontal::Ligature(l) if l.includes_left_boundary);
        let run = program.run_with_options(s.chars(), tfm::ligkern::RunOptions { disable_left_boundary: !at_boundary, right_boundary_override: w.bchar });
        let new_first = out.len();
        let mut before = vec![0usize];
        for e in run {
            let (node, k): (ds::Horizontal, usize) = match e {
                tfm::ligkern::RunItem::Char(c) => (ds::Char { char: c, font: w.font }.into(), 1),
                tfm::ligkern::RunItem::Kern(k) => (ds::Kern { width: k, kind: ds::KernKind::Normal }.into(), 0),
                tfm::ligkern::RunItem::Ligature(l) => {
                    let k = l.original.chars().count();
                    (
                        ds::Ligature { char: l.c, font: w.font, original_chars: l.original, includes_left_boundary: l.includes_left_boundary, includes_right_boundary: l.includes_right_boundary }.into(),
                        k,
                    )
                }
            };
            out.push(node);
            before.push(before.last().unwrap() + k);
        }
        i = olast + 1;
        w.first = new_first;
        w.last = out.len().max(new_first + 1) - 1;
        w.before = before;
    }
    out.extend_from_slice(&orig[i..]);
    (out, words)
}

fn discover(list: &[ds::Horizontal], dev: Dev) -> Vec<WordInfo> {
    use ds::Horizontal as H;
    let mut words = vec![];
    let mut consumed: BTreeSet<usize> = BTreeSet::new();
    for g in 0..list.len() {
        if !matches!(list[g], H::Glue(_)) || consumed.contains(&g) {
            continue;
        }
        // TeX 896: skip to the first letter
        let mut s = g + 1;
        let mut prefix_has_char = false;
        let start = loop {
            match list.get(s) {
                None => break None,
                Some(H::Char(c)) => {
                    if is_letter(c.char) {
                        break Some(c.font);
                    }
                    prefix_has_char = true;
                }
                Some(H::Ligature(l)) => match l.original_chars.chars().next() {
                    None => {}
                    Some(c) => {
                        if is_letter(c) {
                            break Some(l.font);
                        }
                        prefix_has_char = true;
                    }
                },
                Some(H::Kern(k)) if k.kind == ds::KernKind::Normal => {}
                Some(H::Whatsit(_)) => {}
                Some(_) => {
                    if dev.abort_consumes {
                        consumed.insert(s);
                    }
                    break None;
                }
            }
            s += 1;
        };
        let Some(hf) = start else { continue };
        let first = s;
        // TeX 897-898: collect the letters
        let mut letters: Vec<char> = vec![];
        let mut before = vec![0usize];
        let mut last = first;
        let mut bchar = None;
        let mut cut = false;
        loop {
            match list.get(s) {
                Some(H::Char(c)) => {
                    if c.font != hf {
                        break;
                    }
                    if !is_letter(c.char) {
                        bchar = Some(c.char);
                        break;
                    }
                    if letters.len() == 63 {
                        bchar = Some(c.char);
                        cut = true;
                        break;
                    }
                    letters.push(c.char);
                    bchar = None;
                }
                Some(H::Ligature(l)) => {
                    if l.font != hf {
                        break;
                    }
                    let cs: Vec<char> = l.original_chars.chars().collect();
                    if let Some(c0) = cs.first() {
                        bchar = Some(*c0);
                    }
                    if !cs.iter().all(|c| is_letter(*c)) {
                        break;
                    }
                    if letters.len() + cs.len() > 63 {
                        cut = true;
                        break;
                    }
                    letters.extend(cs);
                    bchar = None;
                }
                Some(H::Kern(k)) if k.kind == ds::KernKind::Normal => {}
                _ => break,
            }
            last = s;
            s += 1;
            before.push(letters.len());
        }
        // TeX 899: what follows must permit hyphenation
        let mut t = s;
        let tried = loop {
            match list.get(t) {
                None => break true,
                Some(H::Char(_)) | Some(H::Ligature(_)) => {}
                Some(H::Kern(k)) => {
                    if k.kind != ds::KernKind::Normal {
                        break true;
                    }
                }
                Some(H::Whatsit(_)) | Some(H::Glue(_)) | Some(H::Penalty(_)) | Some(H::Insertion(_)) | Some(H::Adjust(_)) | Some(H::Mark(_)) => break true,
                Some(_) => break false,
            }
            t += 1;
        };
        if letters.is_empty() {
            // TeX 898 left the loop at once (a ligature of a letter and a non-letter): hn = 0, TeX 899 gives up
            continue;
        }
        let ha_char = match &list[first - 1] {
            H::Char(c) => c.font == hf,
            H::Ligature(l) => l.font == hf,
            _ => false,
        };
        words.push(WordInfo {
            first,
            last,
            font: hf,
            letters,
            before,
            ha_char,
            bchar,
            tried,
            cut_at_63: cut,
            prefix_has_char,
        });
    }
    words
}

// ---------------------------------------------------------------------------------------------
// The oracle

fn node_eq(a: &ds::Horizontal, b: &ds::Horizontal) -> bool {
    match (a, b) {
        (ds::Horizontal::Whatsit(x), ds::Horizontal::Whatsit(y)) => Rc::ptr_eq(x, y),
        _ => a == b,
    }
}

fn show(n: &ds::Horizontal) -> String {
    match n {
        ds::Horizontal::Whatsit(_) => "whatsit".into(),
        ds::Horizontal::Char(c) => format!("char({:?},f{})", c.char, c.font),
        ds::Horizontal::Ligature(l) => format!(
            "lig({:?},{:?}{}{},f{})",
            l.char,
            l.original_chars,
            if l.includes_left_boundary { ",lb" } else { "" },
            if l.includes_right_boundary { ",rb" } else { "" },
            l.font
        ),
        ds::Horizontal::Kern(k) => format!("kern({},{:?})", k.width, k.kind),
        ds::Horizontal::Glue(_) => "glue".into(),
        ds::Horizontal::Penalty(p) => format!("penalty({})", p.0),
        ds::Horizontal::Discretionary(d) => {
            let f = |v: &[ds::DiscretionaryElem]| v.iter().map(|e| show(&e.clone().into())).collect::<Vec<_>>().join(" ");
            format!("disc{{{}}}{{{}}}{{{}}}", f(&d.pre_break), f(&d.post_break), d.replace_count)
        }
        ds::Horizontal::Math(_) => "math".into(),
        ds::Horizontal::Rule(_) => "rule".into(),
        ds::Horizontal::HBox(_) => "hbox".into(),
        _ => "node".into(),
    }
}

fn show_list(l: &[ds::Horizontal]) -> String {
    l.iter().map(show).collect::<Vec<_>>().join(" ")
}

struct Ins<'a> {
    /// inserted before original node `at`
    at: usize,
    rc: usize,
    d: &'a ds::Discretionary,
}

fn replaced_node_eq(o: &ds::Horizontal, p: &ds::Horizontal, dev: Dev) -> bool {
    if node_eq(o, p) {
        return true;
    }
    if dev.sync_rb_from_lb {
        if let (ds::Horizontal::Ligature(a), ds::Horizontal::Ligature(b)) = (o, p) {
            let mut b2 = b.clone();
            b2.includes_right_boundary = b.includes_left_boundary;
            return *a == b2;
        }
    }
    false
}

fn align<'a>(orig: &[ds::Horizontal], out: &'a [ds::Horizontal], dev: Dev) -> Result<Vec<Ins<'a>>, String> {
    let mut i = 0;
    let mut k = 0;
    let mut v = vec![];
    while k < out.len() {
        if i < orig.len() && node_eq(&out[k], &orig[i]) {
            i += 1;
            k += 1;
            continue;
        }
        let ds::Horizontal::Discretionary(d) = &out[k] else {
            return Err(format!(
                "(i) output node {} = {} is neither the next original node ({}) nor a discretionary",
                k,
                show(&out[k]),
                orig.get(i).map(show).unwrap_or_else(|| "end of list".into())
            ));
        };
        let rc = d.replace_count as usize;
        for t in 0..rc {
            let (o, p) = (out.get(k + 1 + t), orig.get(i + t));
            let ok = matches!((o, p), (Some(o), Some(p)) if replaced_node_eq(o, p, dev));
            if !ok {
                return Err(format!(
                    "(i) node {} after the discretionary at output index {} (replace_count {}) is {} but the next original node is {}",
                    t + 1,
                    k,
                    rc,
                    o.map(show).unwrap_or_else(|| "end of list".into()),
                    p.map(show).unwrap_or_else(|| "end of list".into())
                ));
            }
        }
        v.push(Ins { at: i, rc, d });
        k += 1 + rc;
        i += rc;
    }
    if i != orig.len() {
        return Err(format!("(i) original nodes from index {} ({}) on are missing from the output", i, show(&orig[i])));
    }
    Ok(v)
}

fn elem_chars(e: &ds::DiscretionaryElem, font: u32) -> Result<String, String> {
    match e {
        ds::DiscretionaryElem::Char(c) => {
            if c.font != font {
                return Err(format!("character {:?} in font {} inside a discretionary of a font-{} word", c.char, c.font, font));
            }
            Ok(c.char.to_string())
        }
        ds::DiscretionaryElem::Ligature(l) => {
            if l.font != font {
                return Err(format!("ligature {:?} in font {} inside a discretionary of a font-{} word", l.char, l.font, font));
            }
            Ok(l.original_chars.to_string())
        }
        ds::DiscretionaryElem::Kern(_) => Ok(String::new()),
        _ => Err("box or rule inside an inserted discretionary".into()),
    }
}

fn alpha(s: &str) -> String {
    s.chars().filter(|c| is_letter(*c)).collect()
}

#[derive(Default, Debug)]
struct Report {
    words_tried: usize,
    words_untried_899: usize,
    blocked_by_box_rule_math: usize,
    allowed: usize,
    discs: usize,
    dropped_inside_span: usize,
    disc_inside_ligature: usize,
    disc_next_to_kern: usize,
    disc_replaces_many: usize,
    disc_with_post: usize,
    pre_has_ligature: usize,
    post_has_ligature: usize,
    word_after_letterless_prefix_with_positions: usize,
    word_ge_63: usize,
    upper: usize,
    bchar_word: usize,
    ha_char_word: usize,
    exact_words: usize,
}

#[allow(clippy::too_many_arguments)]
fn oracle_lists(orig: &[ds::Horizontal], out: &[ds::Horizontal], words: &[WordInfo], lex: &Lex, lmin: i32, rmin: i32, dev: Dev, simple: Option<&[Rule]>) -> Result<Report, String> {
    let mut rep = Report::default();
    let ins = align(orig, out, dev)?;
    let (l_hyf, r_hyf) = (norm_min(lmin), norm_min(rmin));

    // (ii) and attribution of each inserted discretionary to a tried word
    let mut found: Vec<Vec<(usize, usize, usize)>> = vec![vec![]; words.len()]; // (position, span start, span end) in letters
    for x in &ins {
        let Some((wi, w)) = words.iter().enumerate().find(|(_, w)| w.tried && x.at + (w.ha_char as usize) >= w.first && x.at <= w.last + 1) else {
            return Err(format!(
                "(iii) discretionary {} inserted before original node {} which is in no word TeX would try",
                show(&ds::Horizontal::Discretionary(x.d.clone())),
                x.at
            ));
        };
        let ctx = |m: String| format!("{} [discretionary {} before original node {}, word {:?}]", m, show(&ds::Horizontal::Discretionary(x.d.clone())), x.at, w.letters.iter().collect::<String>());
        let mut pre = String::new();
        for e in &x.d.pre_break {
            pre.push_str(&elem_chars(e, w.font).map_err(|m| ctx(format!("(ii) {m}")))?);
        }
        let mut post = String::new();
        for e in &x.d.post_break {
            post.push_str(&elem_chars(e, w.font).map_err(|m| ctx(format!("(ii) {m}")))?);
        }
        if !pre.ends_with('-') {
            return Err(ctx(format!("(ii) the pre-break characters {:?} do not end with the hyphen character", pre)));
        }
        pre.pop();
        if x.at + x.rc > w.last + 1 {
            return Err(ctx(format!("(iii) replaces {} nodes, beyond the last node {} of the word", x.rc, w.last)));
        }
        let mut replaced = String::new();
        for n in &orig[x.at..x.at + x.rc] {
            match n {
                ds::Horizontal::Char(c) => replaced.push(c.char),
                ds::Horizontal::Ligature(l) => replaced.push_str(&l.original_chars),
                ds::Horizontal::Kern(k) if k.kind == ds::KernKind::Normal => {}
                other => return Err(ctx(format!("(ii) replaces the node {}", show(other)))),
            }
        }
        let lhs = format!("{}{}", alpha(&pre), alpha(&post));
        if lhs != alpha(&replaced) {
            return Err(ctx(format!("(ii) pre-break letters {:?} + post-break letters {:?} differ from the letters {:?} of the replaced nodes", alpha(&pre), alpha(&post), alpha(&replaced))));
        }
        // TeX 911/913: the kern found for a pair is appended by the same `reconstitute` call as the
        // character before it, so neither a discretionary nor the end of the nodes it replaces ever
        // comes between a character of the word and the implicit kern after it, and the replaced nodes
        // never begin with a kern (calibrated on TeX's lists: 218 Alice boxes have such kerns).
        let after = x.at + x.rc;
        if after > w.first && after <= w.last && matches!(&orig[after], ds::Horizontal::Kern(k) if k.kind == ds::KernKind::Normal) {
            return Err(ctx(format!("(ii) the {} separated from the implicit kern that follows it (original node {})", if x.rc == 0 { "discretionary stands between a character and the kern; the character is" } else { "replaced nodes end before a kern; the last of them is" }, after)));
        }
        // (a word rebuilt from the left boundary under FLAG_LB can begin with the boundary's kern)
        if x.rc > 0 && !dev.lb_always && matches!(&orig[x.at], ds::Horizontal::Kern(_)) {
            return Err(ctx("(ii) the replaced nodes begin with a kern".into()));
        }
        let k0 = x.at.max(w.first) - w.first;
        let k1 = (x.at + x.rc).max(w.first) - w.first;
        let start = w.before[k0.min(w.before.len() - 1)];
        let end = w.before[k1.min(w.before.len() - 1)];
        let pos = start + alpha(&pre).chars().count();
        found[wi].push((pos, start, end));
        // classes
        rep.discs += 1;
        let inside_lig = orig[x.at..x.at + x.rc].iter().any(|n| matches!(n, ds::Horizontal::Ligature(l) if l.original_chars.chars().count() >= 2)) && pos > start && pos < end;
        if inside_lig {
            rep.disc_inside_ligature += 1;
        }
        let kern_adjacent = orig[x.at..x.at + x.rc].iter().any(|n| matches!(n, ds::Horizontal::Kern(_)))
            || (x.at > 0 && matches!(orig[x.at - 1], ds::Horizontal::Kern(_)) && x.at > w.first)
            || matches!(orig.get(x.at + x.rc), Some(ds::Horizontal::Kern(_)) if x.at + x.rc <= w.last);
        if kern_adjacent {
            rep.disc_next_to_kern += 1;
        }
        if x.rc >= 2 {
            rep.disc_replaces_many += 1;
        }
        if !x.d.post_break.is_empty() {
            rep.disc_with_post += 1;
        }
        if x.d.pre_break.iter().any(|e| matches!(e, ds::DiscretionaryElem::Ligature(_))) {
            rep.pre_has_ligature += 1;
        }
        if x.d.post_break.iter().any(|e| matches!(e, ds::DiscretionaryElem::Ligature(_))) {
            rep.post_has_ligature += 1;
        }
    }

    // (iii) soundness and (iv) completeness, word by word
    for (wi, w) in words.iter().enumerate() {
        if !w.tried {
            rep.words_untried_899 += 1;
            // which node blocked it: walk as TeX 899 does
            let mut t = w.last + 1;
            while matches!(orig.get(t), Some(ds::Horizontal::Char(_)) | Some(ds::Horizontal::Ligature(_)) | Some(ds::Horizontal::Kern(_))) {
                t += 1;
            }
            if matches!(orig.get(t), Some(ds::Horizontal::Math(_)) | Some(ds::Horizontal::Rule(_)) | Some(ds::Horizontal::HBox(_))) && !permitted(w, lex, lmin, rmin).is_empty() {
                rep.blocked_by_box_rule_math += 1;
            }
            continue;
        }
        rep.words_tried += 1;
        let word: String = w.letters.iter().collect();
        let allowed: Vec<usize> = permitted(w, lex, lmin, rmin);
        rep.allowed += allowed.len();
        if w.cut_at_63 {
            rep.word_ge_63 += 1;
        }
        if w.letters.iter().any(|c| c.is_ascii_uppercase()) {
            rep.upper += 1;
        }
        if w.bchar.is_some() {
            rep.bchar_word += 1;
        }
        if w.ha_char {
            rep.ha_char_word += 1;
        }
        if w.prefix_has_char && !allowed.is_empty() {
            rep.word_after_letterless_prefix_with_positions += 1;
        }
        let got = &found[wi];
        for (k, &(p, _, _)) in got.iter().enumerate() {
            if !allowed.contains(&p) {
                return Err(format!(
                    "(iii) discretionary at letter position {} of {:?}: permitted positions (Liang, lmin {} rmin {}) are {:?}",
                    p, word, l_hyf, r_hyf, allowed
                ));
            }
            if k > 0 && got[k - 1].0 >= p {
                return Err(format!("(iii) two discretionaries at or out of order around letter position {} of {:?}", p, word));
            }
        }
        for &p in &allowed {
            if got.iter().any(|g| g.0 == p) {
                continue;
            }
            // TeX 913-916: dropped only when strictly inside the letters replaced by an earlier discretionary
            if got.iter().any(|&(q, s, e)| q < p && s < p && p < e) {
                rep.dropped_inside_span += 1;
                continue;
            }
            return Err(format!(
                "(iv) no discretionary at permitted letter position {} of {:?} (permitted {:?}, found at {:?}; [position, first, last letter replaced])",
                p, word, allowed, got
            ));
        }
        if let Some(rules) = simple {
            let want = expected_simple(w, orig, &allowed, rules);
            rep.exact_words += 1;
            if want != *got {
                return Err(format!(
                    "(iv, exact) word {:?}, permitted {:?}: TeX 913-916 gives discretionaries [position, first, last letter replaced] {:?}, found {:?}",
                    word, allowed, want, got
                ));
            }
        }
    }
    Ok(rep)
}

/// Fonts for which TeX 913-916 can be replayed on letter counts alone: every rule is a kern or a
/// ligature replacing both characters, no rule involves a boundary, and no rule has the hyphen
/// character on its right (so a hyphen never changes what the characters before it become).
fn simple_font(rules: &[Rule]) -> bool {
    // everything a run over letters can put left of the cursor
    let mut reach: BTreeSet<char> = ('a'..='z').chain('A'..='Z').collect();
    loop {
        let before = reach.len();
        for r in rules {
            if let (Some(l), Some(z)) = (r.l, r.lig) {
                if reach.contains(&l) {
                    reach.insert(z);
                }
            }
        }
        if reach.len() == before {
            break;
        }
    }
    rules.iter().all(|r| r.plain && r.l.is_some() && r.r != '|' && (r.r != '-' || !reach.contains(&r.l.unwrap())))
}

/// TeX 913-916 for a simple font, on letter counts. The main list's cut prefixes (one `reconstitute`
/// call each) are read off the unhyphenated nodes: a character or ligature node plus the kern after
/// it. Within a cut prefix the first permitted hyphen wins; the discretionary starts at the prefix
/// start (or, for a hyphen exactly at the end of a kernless prefix, at the hyphen, with empty lists
/// apart from the hyphen). The post-break branch is a fresh lig/kern run from the hyphen on; both
/// branches advance cut prefix by cut prefix until their letter counts agree (TeX 916); hyphens passed
/// meanwhile are dropped; a hyphen exactly at the meeting point gets its own discretionary (TeX 914
/// `until not odd(hyf[j-1])`).
fn expected_simple(w: &WordInfo, orig: &[ds::Horizontal], allowed: &[usize], rules: &[Rule]) -> Vec<(usize, usize, usize)> {
    let lig = |l: char, r: char| rules.iter().find(|x| x.l == Some(l) && x.r == r).and_then(|x| x.lig);
    let mut bounds = vec![0usize];
    let mut kern_after: Vec<bool> = vec![];
    for n in &orig[w.first..=w.last] {
        match n {
            ds::Horizontal::Char(_) => {
                bounds.push(bounds.last().unwrap() + 1);
                kern_after.push(false);
            }
            ds::Horizontal::Ligature(l) => {
                bounds.push(bounds.last().unwrap() + l.original_chars.chars().count());
                kern_after.push(false);
            }
            ds::Horizontal::Kern(_) => {
                if let Some(k) = kern_after.last_mut() {
                    *k = true;
                }
            }
            _ => {}
        }
    }
    let n = w.letters.len();
    let next_post = |q: usize| -> usize {
        let mut cur = w.letters[q];
        let mut k = 1;
        while q + k < n {
            match lig(cur, w.letters[q + k]) {
                Some(z) => {
                    cur = z;
                    k += 1;
                }
                None => break,
            }
        }
        q + k
    };
    let mut hs: BTreeSet<usize> = allowed.iter().copied().collect();
    let mut res = vec![];
    let mut k = 0;
    while k + 1 < bounds.len() {
        let (s, e) = (bounds[k], bounds[k + 1]);
        let kern = kern_after[k];
        let h = hs.iter().copied().find(|&p| (s < p && p < e) || (p == e && kern));
        match h {
            Some(h) => {
                hs.remove(&h);
                let (mut l, mut j, mut kk) = (h, e, k + 1);
                loop {
                    while l < j {
                        l = next_post(l);
                    }
                    if l == j {
                        break;
                    }
                    while j < l {
                        kk += 1;
                        j = bounds[kk];
                    }
                    if l == j {
                        break;
                    }
                }
                res.push((h, s, j));
                if hs.remove(&j) {
                    res.push((j, j, j));
                }
                k = kk;
            }
            None => {
                if hs.remove(&e) {
                    res.push((e, e, e));
                }
                k += 1;
            }
        }
    }
    res
}

/// Words whose reconstitution TeX itself gets "wrong" (only words with a permitted hyphen: TeX 902
/// leaves every other word alone). Decided from the rule table of the case only.
///  (a) TeX 903 uses the character after the word as right boundary; if a ligature rule applies between
///      the end of the word and that character the rebuilt word differs from the original nodes even
///      where no break is taken (pinned by the unit tests right_boundary_char_override_3..6).
///  (b) TeX 897 absorbs every implicit kern after the letters into the word and TeX 903 discards it; a
///      kern that the next font's left boundary put there is not produced again by the word's own run.
///  (c) TeX 896 lets `ha` be the node before the first letter, implicit kerns included. If that node
///      is an implicit kern and the first letter node is a ligature that includes the left boundary,
///      TeX 903 (`found2`) keeps the kern and rebuilds the word from the boundary, which produces the
///      boundary's kern a second time.
fn tex_anomaly(orig: &[ds::Horizontal], words: &[WordInfo], rules: &[Rule], lex: &Lex, lmin: i32, rmin: i32) -> Option<&'static str> {
    for w in words {
        if !w.tried || permitted(w, lex, lmin, rmin).is_empty() {
            continue;
        }
        if w.first > 0 {
            if let (ds::Horizontal::Kern(k), ds::Horizontal::Ligature(l)) = (&orig[w.first - 1], &orig[w.first]) {
                if k.kind == ds::KernKind::Normal && l.includes_left_boundary {
                    return Some("TeX anomaly: implicit kern before a word that starts with a left-boundary ligature is produced twice");
                }
            }
        }
        if matches!(orig[w.last], ds::Horizontal::Kern(_)) {
            let next_char = match orig.get(w.last + 1) {
                Some(ds::Horizontal::Char(c)) if c.font != w.font => Some(c.char),
                Some(ds::Horizontal::Ligature(l)) if l.font != w.font => l.original_chars.chars().next().or(Some(l.char)),
                _ => None,
            };
            if let Some(c) = next_char {
                if rules.iter().any(|r| r.l.is_none() && (r.r == c || r.lig.is_some())) {
                    return Some("TeX anomaly: the kern after the word may belong to the next font's left boundary");
                }
            }
        }
        let Some(b) = w.bchar else { continue };
        // characters that can stand left of the boundary when the end of the word is reached: its
        // letters and everything ligature rules can make of them (closure over the rule table)
        let mut reach: BTreeSet<char> = w.letters.iter().copied().collect();
        loop {
            let before = reach.len();
            for r in rules {
                if let Some(z) = r.lig {
                    if r.l.map_or(true, |l| reach.contains(&l)) {
                        reach.insert(z);
                    }
                }
            }
            if reach.len() == before {
                break;
            }
        }
        if rules.iter().any(|r| r.lig.is_some() && r.r == b && matches!(r.l, Some(l) if reach.contains(&l))) {
            return Some("TeX anomaly: ligature between word end and following character");
        }
    }
    None
}

fn apply_report(case: &mut Case, r: &Report) -> bool {
    case.class_if(r.words_tried > 0, "word_tried");
    case.class_if(r.words_tried >= 3, "words_tried>=3");
    case.class_if(r.words_untried_899 > 0, "word_blocked_by_899");
    case.class_if(r.blocked_by_box_rule_math > 0, "hyphenable_word_blocked_by_math_rule_or_box");
    case.class_if(r.allowed > 0, "has_permitted_position");
    case.class_if(r.discs > 0, "disc_inserted");
    case.class_if(r.discs >= 3, "discs>=3");
    case.class_if(r.dropped_inside_span > 0, "position_dropped_inside_replaced_letters");
    case.class_if(r.disc_inside_ligature > 0, "disc_inside_ligature");
    case.class_if(r.disc_next_to_kern > 0, "disc_next_to_kern");
    case.class_if(r.disc_replaces_many > 0, "disc_replaces>=2_nodes");
    case.class_if(r.disc_with_post > 0, "disc_with_post_break");
    case.class_if(r.pre_has_ligature > 0, "ligature_in_pre_break");
    case.class_if(r.post_has_ligature > 0, "ligature_in_post_break");
    case.class_if(r.word_after_letterless_prefix_with_positions > 0, "hyphenable_word_after_nonletter_prefix");
    case.class_if(r.word_ge_63 > 0, "word_cut_at_63_letters");
    case.class_if(r.upper > 0, "upper_case_word");
    case.class_if(r.bchar_word > 0, "word_followed_by_char_of_its_font");
    case.class_if(r.ha_char_word > 0, "word_preceded_by_char_of_its_font");
    case.class_if(r.exact_words > 0, "exact_span_model_applied");
    r.disc_inside_ligature > 0 || r.disc_next_to_kern > 0
}

fn oracle_inner(ctx: &Known, c: &LCase, case: &mut Case) -> Verdict {
    let lex = match Lex::of(c) {
        Ok(l) => l,
        Err(_) => return Verdict::Skip("pattern set outside the domain"),
    };
    let b = match build(c) {
        Ok(b) => b,
        Err(m) => return Verdict::Skip(m),
    };
    let rules = font_rules(c);
    let words = discover(&b.orig, Dev::default());
    if let Some(why) = tex_anomaly(&b.orig, &words, &rules, &lex, c.lmin, c.rmin) {
        case.class("skipped:tex_itself_rebuilds_the_word_differently");
        return Verdict::Skip(why);
    }
    let out = match panics::catch(|| run_impl(c, &b)) {
        Ok(o) => o,
        Err(p) => {
            let sig = p.signature();
            if ctx.known(&sig) {
                case.class("known:panic");
                return Verdict::Known(sig);
            }
            return Verdict::Fail(format!("hyphenate panicked at {}: {}\n  signature: {}\n  case: {}\n  before: {}", p.site(), p.message, sig, render_case(c), show_list(&b.orig)));
        }
    };
    case.note = Some(format!("{} => {}", render_case(c), show_list(&out)));
    if std::env::var("VP_C14_SHOW").is_ok() {
        eprintln!("{}\n  before: {}\n  after:  {}", render_case(c), show_list(&b.orig), show_list(&out));
    }
    let simple = if simple_font(&rules) { Some(&rules[..]) } else { None };
    match oracle_lists(&b.orig, &out, &words, &lex, c.lmin, c.rmin, Dev::default(), simple) {
        Ok(r) => {
            let nt = apply_report(case, &r);
            Verdict::pass(nt)
        }
        Err(m) => {
            // listed deviations, smallest subsets first; each must explain the output completely
            let listed: Vec<&str> = [FLAG_D23, FLAG_LB, FLAG_RB, FLAG_REBUILD, FLAG_START].into_iter().filter(|f| ctx.known(f)).collect();
            let mut subsets: Vec<Vec<&str>> = (1u32..(1 << listed.len())).map(|m| listed.iter().enumerate().filter(|(i, _)| m >> i & 1 == 1).map(|(_, f)| *f).collect()).collect();
            subsets.sort_by_key(|v| v.len());
            for sub in subsets {
                let dev = Dev { abort_consumes: sub.contains(&FLAG_D23), lb_always: sub.contains(&FLAG_LB), from_first_letter: sub.contains(&FLAG_START), sync_rb_from_lb: sub.contains(&FLAG_RB), rebuild_all: sub.contains(&FLAG_REBUILD) };
                let (o2, w2) = deviating_original(&b.orig, &b.program, dev, &lex, c.lmin, c.rmin);
                if let Ok(r) = oracle_lists(&o2, &out, &w2, &lex, c.lmin, c.rmin, dev, simple) {
                    apply_report(case, &r);
                    case.class_if(sub.len() > 1, "known:several_flags_together");
                    return Verdict::Known(sub[0].into());
                }
            }
            Verdict::Fail(format!("{m}\n  case: {}\n  before: {}\n  after:  {}", render_case(c), show_list(&b.orig), show_list(&out)))
        }
    }
}

// ---------------------------------------------------------------------------------------------
// Calibration 1: the unit tests of boxworks-hyphenate

#[derive(Debug, Clone, Serialize, Deserialize)]
pub struct Golden {
    pub name: String,
    pub case: LCase,
    /// TeX's list after the first two nodes (`x`, glue), in the box language
    pub want: String,
}

fn str_field(block: &str, key: &str) -> Option<String> {
    let i = block.find(key)?;
    let rest = &block[i + key.len()..];
    let rest = rest.trim_start();
    if let Some(r) = rest.strip_prefix("r#\"") {
        let e = r.find("\"#")?;
        return Some(r[..e].to_string());
    }
    let rest = rest.strip_prefix("Some(").unwrap_or(rest);
    let r = rest.strip_prefix('"')?;
    let e = r.find('"')?;
    Some(r[..e].to_string())
}

fn unit_goldens() -> Vec<Golden> {
    let Some(start) = UNIT_TESTS_SRC.find("hyphenation_tests![") else { return vec![] };
    let src = &UNIT_TESTS_SRC[start..];
    let mut out = vec![];
    let mut rest = src;
    while let Some(i) = rest.find("TestCase {") {
        let head = &rest[..i];
        let name = head.trim_end().trim_end_matches(',').rsplit(|c: char| !(c.is_alphanumeric() || c == '_')).next().unwrap_or("").to_string();
        let body = &rest[i..];
        // the block ends at the first line that is exactly "}," at TestCase indentation
        let end = body.find("\n            },").unwrap_or(body.len());
        let block = &body[..end];
        let input = str_field(block, "input:").unwrap_or_default();
        let program = str_field(block, "lig_kern_program:").unwrap_or_default();
        let want = str_field(block, "want:").unwrap_or_default();
        let patterns = if block.contains("hyphenation_patterns:") { str_field(block, "hyphenation_patterns:") } else { None };
        let lmin = block.find("left_hyphen_min: Some(").map(|k| {
            let r = &block[k + "left_hyphen_min: Some(".len()..];
            r[..r.find(')').unwrap()].trim().parse::<i32>().unwrap()
        });
        let unhyph: String = input.chars().filter(|c| *c != '-').collect();
        let exc = patterns.unwrap_or_else(|| input.clone());
        out.push(Golden {
            name,
            case: LCase {
                rules: Some(program.lines().map(|l| l.trim().to_string()).filter(|l| !l.is_empty()).collect()),
                patterns: None,
                exceptions: exc.split_whitespace().map(|s| s.to_string()).collect(),
                lmin: lmin.unwrap_or(1),
                rmin: 1,
                items: vec![Item::Word("x".into()), Item::Space, Item::Word(unhyph)],
            },
            want,
        });
        rest = &body[end..];
    }
    out
}

fn golden_inner(g: &Golden, case: &mut Case) -> Verdict {
    let c = &g.case;
    let lex = match Lex::of(c) {
        Ok(l) => l,
        Err(m) => return Verdict::Fail(format!("golden {}: {m}", g.name)),
    };
    let b = match build(c) {
        Ok(b) => b,
        Err(m) => return Verdict::Fail(format!("golden {}: {m}", g.name)),
    };
    let tail = match boxworks::lang::parse_horizontal_list(&g.want) {
        Ok(v) => v,
        Err(_) => return Verdict::Fail(format!("golden {}: expected list does not parse", g.name)),
    };
    let mut tex: Vec<ds::Horizontal> = b.orig[..2].to_vec();
    tex.extend(tail);
    let rules = font_rules(c);
    let words = discover(&b.orig, Dev::default());
    let anomaly = tex_anomaly(&b.orig, &words, &rules, &lex, c.lmin, c.rmin).is_some();
    case.class_if(anomaly, "tex_bchar_ligature_anomaly");
    // 1. the oracle must accept TeX's own list
    let simple = if simple_font(&rules) { Some(&rules[..]) } else { None };
    case.class_if(simple.is_some(), "simple_font");
    let r = oracle_lists(&b.orig, &tex, &words, &lex, c.lmin, c.rmin, Dev::default(), simple);
    match (&r, anomaly) {
        (Err(m), false) => {
            return Verdict::Fail(format!("CALIBRATION: oracle rejects TeX's list of unit test {}: {m}\n  before: {}\n  TeX:    {}", g.name, show_list(&b.orig), show_list(&tex)));
        }
        (Ok(_), true) => case.class("anomaly_predicted_but_lists_agree"),
        _ => {}
    }
    // 2. the implementation against TeX's list (what the unit test itself asserts)
    let out = run_impl(c, &b);
    if out.len() != tex.len() || !out.iter().zip(tex.iter()).all(|(a, b)| node_eq(a, b)) {
        return Verdict::Fail(format!("unit test {}: implementation differs from TeX's list\n  impl: {}\n  TeX:  {}", g.name, show_list(&out), show_list(&tex)));
    }
    case.note = Some(format!("{}: {}", g.name, show_list(&tex)));
    match r {
        Ok(r) => {
            let nt = apply_report(case, &r);
            Verdict::pass(nt)
        }
        Err(_) => Verdict::pass(false),
    }
}

// ---------------------------------------------------------------------------------------------
// Watchdog: the code under test contains open-ended loops (synchronisation, TeX 916). Every case
// is evaluated on a helper thread; a case that does not come back within `HANG_LIMIT_S` is reported
// as a violation instead of hanging the check. The helper is persistent (one per worker) so the
// per-thread caches survive; after a hang it is abandoned.

const HANG_LIMIT_S: u64 = 20;
static HUNG: std::sync::atomic::AtomicBool = std::sync::atomic::AtomicBool::new(false);

#[derive(Clone)]
struct Known {
    sigs: Vec<String>,
}

impl Known {
    fn of(ctx: &Ctx) -> Known {
        Known { sigs: ctx.findings.iter().map(|f| f.sig.clone()).collect() }
    }
    fn known(&self, sig: &str) -> bool {
        self.sigs.iter().any(|s| s == sig)
    }
}

#[derive(Clone)]
enum Job {
    List(LCase),
    Golden(Golden),
}

struct Reply {
    verdict: Verdict,
    classes: Vec<&'static str>,
    note: Option<String>,
}

struct Helper {
    tx: std::sync::mpsc::Sender<Job>,
    rx: std::sync::mpsc::Receiver<Reply>,
}

thread_local! {
    static HELPER: RefCell<Option<Helper>> = const { RefCell::new(None) };
}

fn spawn_helper(known: Known) -> Helper {
    let (tx, jrx) = std::sync::mpsc::channel::<Job>();
    let (rtx, rx) = std::sync::mpsc::channel::<Reply>();
    std::thread::Builder::new()
        .stack_size(256 << 20)
        .spawn(move || {
            for job in jrx {
                let mut case = Case::default();
                let r = panics::catch(|| match &job {
                    Job::List(c) => oracle_inner(&known, c, &mut case),
                    Job::Golden(g) => golden_inner(g, &mut case),
                });
                let verdict = match r {
                    Ok(v) => v,
                    Err(p) => Verdict::Fail(format!("panic at {}: {}", p.site(), p.message)),
                };
                if rtx.send(Reply { verdict, classes: std::mem::take(&mut case.classes), note: case.note.take() }).is_err() {
                    break;
                }
            }
        })
        .expect("spawn helper");
    Helper { tx, rx }
}

fn guarded(known: &Known, job: Job, what: String, case: &mut Case) -> Verdict {
    if HUNG.load(std::sync::atomic::Ordering::SeqCst) && !case.replay {
        // a hang was already reported; let the run (and the shrinker) finish at once
        return Verdict::pass(false);
    }
    HELPER.with(|h| {
        let mut h = h.borrow_mut();
        if h.is_none() {
            *h = Some(spawn_helper(known.clone()));
        }
        let hh = h.as_ref().unwrap();
        if hh.tx.send(job).is_err() {
            *h = None;
            return Verdict::Fail("helper thread is gone".into());
        }
        match hh.rx.recv_timeout(std::time::Duration::from_secs(HANG_LIMIT_S)) {
            Ok(r) => {
                case.classes = r.classes;
                case.note = r.note;
                r.verdict
            }
            Err(std::sync::mpsc::RecvTimeoutError::Timeout) => {
                *h = None; // the helper is abandoned (it keeps spinning until the process exits)
                HUNG.store(true, std::sync::atomic::Ordering::SeqCst);
                Verdict::Fail(format!("no result within {HANG_LIMIT_S} s (normal cases take well under 10 ms): hyphenate does not seem to terminate\n  case: {what}"))
            }
            Err(std::sync::mpsc::RecvTimeoutError::Disconnected) => {
                *h = None;
                Verdict::Fail(format!("helper thread died\n  case: {what}"))
            }
        }
    })
}

fn oracle(known: &Known, c: &LCase, case: &mut Case) -> Verdict {
    guarded(known, Job::List(c.clone()), render_case(c), case)
}

fn golden_oracle(known: &Known, g: &Golden, case: &mut Case) -> Verdict {
    guarded(known, Job::Golden(g.clone()), format!("unit test {}", g.name), case)
}

// ---------------------------------------------------------------------------------------------
// Calibration 2: TeX's hyphenated lists of Alice in Wonderland

#[derive(Debug, Clone, Serialize, Deserialize)]
pub struct BoxPair {
    pub index: usize,
    pub before: String,
    pub after: String,
}

fn split_boxes(text: &str) -> Vec<String> {
    let mut v = vec![];
    let mut cur = String::new();
    for line in text.lines() {
        if line.starts_with("# hbox ") && !cur.trim().is_empty() {
            v.push(std::mem::take(&mut cur));
        }
        if line.starts_with('#') {
            continue;
        }
        cur.push_str(line);
        cur.push('\n');
    }
    if !cur.trim().is_empty() {
        v.push(cur);
    }
    v
}

fn alice_pairs() -> Vec<BoxPair> {
    let (Ok(a), Ok(b)) = (std::fs::read_to_string(ALICE_PLAIN), std::fs::read_to_string(ALICE_HYPH)) else {
        return vec![];
    };
    let (a, b) = (split_boxes(&a), split_boxes(&b));
    if a.len() != b.len() {
        return vec![];
    }
    a.into_iter().zip(b).enumerate().map(|(index, (before, after))| BoxPair { index, before, after }).collect()
}

fn alice_oracle(p: &BoxPair, case: &mut Case) -> Verdict {
    let parse = |s: &str| -> Option<Vec<ds::Horizontal>> {
        match boxworks::lang::parse_horizontal_list(s) {
            Ok(mut v) if v.len() == 1 => match v.remove(0) {
                ds::Horizontal::HBox(h) => Some(h.list),
                _ => None,
            },
            _ => None,
        }
    };
    let (Some(orig), Some(tex)) = (parse(&p.before), parse(&p.after)) else {
        return Verdict::Fail(format!("alice box {} does not parse", p.index));
    };
    let (ps, es) = plain_lex();
    let lex = Lex { patterns: std::borrow::Cow::Borrowed(&ps[..]), exceptions: es.clone() };
    let rules: Vec<Rule> = CMR10_LIGS.iter().map(|&(l, r, z)| Rule { l: Some(l), r, lig: Some(z), plain: true }).collect();
    let words = discover(&orig, Dev::default());
    match oracle_lists(&orig, &tex, &words, &lex, 2, 3, Dev::default(), Some(&rules)) {
        Ok(r) => {
            let nt = apply_report(case, &r);
            case.note = Some(format!("alice box {}: {} discretionaries in {} words", p.index, r.discs, r.words_tried));
            Verdict::pass(nt)
        }
        Err(m) => Verdict::Fail(format!("CALIBRATION: oracle rejects TeX's hyphenated list of alice box {}: {m}\n  before: {}\n  TeX:    {}", p.index, show_list(&orig), show_list(&tex))),
    }
}

// ---------------------------------------------------------------------------------------------
// Hand-made cases

fn text_items(text: &str) -> Vec<Item> {
    let mut v = vec![];
    for (i, w) in text.split(' ').enumerate() {
        if i > 0 {
            v.push(Item::Space);
        }
        if !w.is_empty() {
            v.push(Item::Word(w.to_string()));
        }
    }
    v
}

fn sv(v: &[&str]) -> Vec<String> {
    v.iter().map(|s| s.to_string()).collect()
}

fn fixed_cases() -> Vec<LCase> {
    let cm = |text: &str, pats: Option<&[&str]>, exc: &[&str], l: i32, r: i32| LCase {
        rules: None,
        patterns: pats.map(sv),
        exceptions: sv(exc),
        lmin: l,
        rmin: r,
        items: text_items(text),
    };
    let sy = |text: &str, rules: &[&str], pats: &[&str], l: i32, r: i32| LCase {
        rules: Some(sv(rules)),
        patterns: Some(sv(pats)),
        exceptions: vec![],
        lmin: l,
        rmin: r,
        items: text_items(text),
    };
    vec![
        // DESIGN.md section 4 examples
        cm("x afficb", Some(&["f1f", "f1i"]), &[], 1, 1),
        cm("x afficb", Some(&["f1i"]), &[], 1, 1),
        cm("x afficb", Some(&["f1f", "i1c"]), &[], 1, 1),
        cm("x afffb", Some(&["f1f"]), &[], 1, 1),
        sy("x abcd", &["bc -> b[100]c"], &["a1b", "b1c", "c1d"], 1, 1),
        // D23 shapes
        cm("x Contents", None, &[], 2, 3),
        cm("x 3.0 Contents", None, &[], 2, 3),
        cm("x 3.0 4.0 Contents", None, &[], 2, 3),
        cm("x  Contents", None, &[], 2, 3),
        cm("x (Contents)", None, &[], 2, 3),
        cm("x ``Contents''", None, &[], 2, 3),
        cm("x 3.0Contents", None, &[], 2, 3),
        // explicit hyphens, digits, long words
        cm("a well-known representation of hyphenation", None, &[], 2, 3),
        cm("x supercalifragilisticexpialidocioussupercalifragilisticexpialidocious difficult", None, &[], 2, 3),
        cm("x difficult waffle office baffling", None, &["dif-fi-cult", "waf-f-le", "of-f-i-ce", "baf-fl-ing"], 1, 1),
        cm("x AVOWAL Toyota baby, voyage.", None, &["a-v-o-w-a-l", "t-o-y-o-t-a", "ba-by", "v-o-y-a-g-e"], 1, 1),
        // left boundary shapes in a synthetic font
        sy("x ab", &["|a -> |[100]a"], &["a1b"], 1, 1),
        sy("x (ab", &["|a -> |[100]a"], &["a1b"], 1, 1),
        sy("x ab", &["|a -> |x^a"], &["a1b"], 1, 1),
        sy("x ab", &["|a -> |x^_"], &["a1b"], 1, 1),
        sy("x abcd", &["ab -> _x^_", "cd -> _z^_", "bc -> _y^_", "z| -> _w^|"], &["a1b"], 1, 1),
        // the node before the word is a boundary ligature without original characters (TeX 903 frees it
        // and starts again from the boundary)
        sy("x ab", &["|a -> |x^a", "xa -> x^y_"], &["a1b"], 1, 1),
        // no permitted hyphen: TeX 902 leaves the list alone
        LCase {
            rules: Some(sv(&["|b -> |[100]b"])),
            patterns: Some(vec![]),
            exceptions: vec![],
            lmin: 1,
            rmin: 1,
            items: vec![Item::Word("x".into()), Item::Space, Item::Word("aa".into()), Item::Font(1), Item::Word("b".into())],
        },
        sy("x aa, b", &["a, -> a^x,"], &[], 1, 1),
        sy("x a- b", &["a- -> _x^_"], &[], 1, 1),
    ]
}

// ---------------------------------------------------------------------------------------------
// Generators

const CORES: &[&str] = &[
    "difficult", "affine", "waffle", "office", "shuffling", "baffled", "efficient", "coffee", "fluffier", "afflict", "fjord", "offload",
    "sufficient", "raffia", "fifty", "flagstaff", "cliffs", "stiffly", "fish", "flow", "fff", "ffi", "fifl", "avowal", "wavy", "toyota", "away",
    "yoyo", "voyage", "baby", "type", "povo", "key", "paw", "fawn", "wax", "hyphenation", "representation", "antidisestablishmentarianism",
    "supercalifragilisticexpialidocious", "university", "computer", "algorithm", "discretionary", "typographical", "contents", "wonderland",
    "adventures", "table", "a", "an", "the", "of", "record", "present", "associate", "declination", "obligatory", "philanthropic", "project",
];
const PREFIXES: &[&str] = &["", "", "", "", "", "(", "``", "`", "[", "3", "---", "!`", "(``", "1."];
const SUFFIXES: &[&str] = &["", "", "", "", ",", ".", ";", ":", "!", "?", ")", "''", "'", ".)", "...", "1", "--", "-", "'s", ",''"];
const LETTERLESS: &[&str] = &["3.0", "1999", "---", "&", "(1)", "$5", "*", "42,", "...", "--", "1.", "``", "3", "-"];
const CM_PATTERN_POOL: &[&str] = &[
    "f1f", "f1i", "f1l", "1fi", "ff1i", "f2f1l", "1a", "a1", "e1", "i1c", "1b", "o1", "y1", "1v", "a1v", "w1a", "2ff1", "1f", "l1", "1t", ".a1", "t1.",
    "f1fi", "ff2i", "1o", "a2v", "v1o", "1y", "i1", "1l", "u1", "1c", "4f1f", "f3f", "1w", "t1y",
];

#[derive(Debug, Clone)]
struct RawToken {
    kind: u8,
    core: Vec<u16>,
    letters: Vec<u8>,
    prefix: u16,
    suffix: u16,
    casing: u8,
    split: u8,
    before: u8,
    hyph_mask: u64,
    exc: bool,
}

fn raw_token() -> impl Strategy<Value = RawToken> {
    (
        (any::<u8>(), prop::collection::vec(any::<u16>(), 1..9), prop::collection::vec(any::<u8>(), 1..14), any::<u16>(), any::<u16>()),
        (any::<u8>(), any::<u8>(), any::<u8>(), any::<u64>(), any::<bool>()),
    )
        .prop_map(|((kind, core, letters, prefix, suffix), (casing, split, before, hyph_mask, exc))| RawToken { kind, core, letters, prefix, suffix, casing, split, before, hyph_mask, exc })
}

fn pick<'a>(pool: &[&'a str], i: u16) -> &'a str {
    pool[pick_idx(i, pool.len())]
}

fn apply_case(s: &str, casing: u8) -> String {
    match casing % 8 {
        0 => {
            let mut c = s.chars();
            match c.next() {
                Some(f) => f.to_ascii_uppercase().to_string() + c.as_str(),
                None => String::new(),
            }
        }
        1 => s.to_ascii_uppercase(),
        _ => s.to_string(),
    }
}

/// Turns one raw token into items (and perhaps an exception) for cmr10 text.
fn cm_token(t: &RawToken, items: &mut Vec<Item>, exceptions: &mut Vec<String>, allow_nodes: bool) {
    const ALPHA: &[u8] = b"fffiillaeeoutnsrvwybcdg";
    match t.before % 32 {
        0 => items.push(Item::Font(1)),
        1 => items.push(Item::Font(0)),
        2 if allow_nodes => items.push(Item::Node(t.split % 6)),
        3 => items.push(Item::Space),
        _ => {}
    }
    let core: String = match t.kind % 16 {
        0 | 1 => {
            items.push(Item::Word(pick(LETTERLESS, t.core[0]).to_string()));
            return;
        }
        2..=4 => t.letters.iter().map(|b| ALPHA[(*b as usize) % ALPHA.len()] as char).collect(),
        5 => t.core.iter().map(|i| pick(CORES, *i)).collect::<Vec<_>>().join(""),
        6 => format!("{}-{}", pick(CORES, t.core[0]), pick(CORES, *t.core.last().unwrap())),
        7 => format!("{}{}{}", pick(CORES, t.core[0]), (t.split % 10), pick(CORES, *t.core.last().unwrap())),
        _ => pick(CORES, t.core[0]).to_string(),
    };
    if t.exc {
        // an exception for the first run of letters of the core, hyphens from the mask
        let w: String = core.chars().take_while(|c| c.is_ascii_alphabetic()).collect();
        if w.len() >= 2 && w.len() <= 63 {
            let mut e = String::new();
            for (i, c) in w.chars().enumerate() {
                if i > 0 && (t.hyph_mask >> (i % 64)) & 1 == 1 {
                    e.push('-');
                }
                e.push(c);
            }
            exceptions.push(e);
        }
    }
    let word = format!("{}{}{}", pick(PREFIXES, t.prefix), apply_case(&core, t.casing), pick(SUFFIXES, t.suffix));
    // a font switch in the middle of the token (TeX: ab{\it cd})
    if t.split % 16 == 0 && word.len() >= 2 {
        let k = 1 + (t.split as usize / 16) % (word.len() - 1);
        if word.is_char_boundary(k) {
            items.push(Item::Word(word[..k].to_string()));
            items.push(Item::Font(((t.split / 16) % 2) as u8 ^ 1));
            items.push(Item::Word(word[k..].to_string()));
            return;
        }
    }
    items.push(Item::Word(word));
    // a node directly after the word (TeX 899 decides whether the word may be hyphenated)
    if allow_nodes && t.hyph_mask >> 60 == 0 {
        items.push(Item::Node(((t.hyph_mask >> 56) % 6) as u8));
    }
}

/// No two `Word` items are adjacent without a space, font switch or node between them: TeX joins
/// such a pair into one word when it reconstitutes (the `shelf{}ful` effect), which is outside (i).
/// A font switch to the font already active is no separator either.
fn normalise_items(items: Vec<Item>) -> Vec<Item> {
    let mut out: Vec<Item> = vec![];
    let mut font = 0u8;
    for it in items {
        match &it {
            Item::Font(n) => {
                let n = n & 1;
                if n == font {
                    continue;
                }
                font = n;
                out.push(Item::Font(n));
            }
            Item::Word(w) => {
                if w.is_empty() {
                    continue;
                }
                if matches!(out.last(), Some(Item::Word(_))) {
                    out.push(Item::Space);
                }
                out.push(it);
            }
            _ => out.push(it),
        }
    }
    out
}

fn mins() -> impl Strategy<Value = (i32, i32)> {
    let one = prop_oneof![
        8 => 1..=2i32,
        8 => 1..=5i32,
        1 => prop_oneof![Just(0), Just(-1), Just(6), Just(63), Just(64), Just(70)],
    ];
    (one.clone(), one)
}

fn cm_strategy() -> impl Strategy<Value = LCase> {
    (
        prop::collection::vec(raw_token(), 1..9),
        mins(),
        any::<u8>(),
        prop::collection::vec((any::<u16>(), 0..6u8), 0..7),
        any::<bool>(),
    )
        .prop_map(|(toks, (lmin, rmin), pat_kind, pats, lead_space)| {
            let mut items = vec![];
            if lead_space {
                items.push(Item::Space);
            } else {
                items.push(Item::Word("x".into()));
            }
            let mut exceptions = vec![];
            let allow_nodes = pat_kind % 4 == 0;
            for t in &toks {
                items.push(Item::Space);
                cm_token(t, &mut items, &mut exceptions, allow_nodes);
            }
            let patterns = if pat_kind % 3 == 0 {
                let mut v: Vec<String> = vec![];
                for (i, d) in &pats {
                    // re-digit the pool pattern: every non-zero digit becomes 1 + (d + old) % 5
                    let p: String = pick(CM_PATTERN_POOL, *i)
                        .chars()
                        .map(|c| match c.to_digit(10) {
                            Some(x) if *d > 0 => char::from(b'0' + ((x as u8 + d - 1) % 5) + 1),
                            _ => c,
                        })
                        .collect();
                    let key: String = p.chars().filter(|c| !c.is_ascii_digit()).collect();
                    if !v.iter().any(|q| q.chars().filter(|c| !c.is_ascii_digit()).collect::<String>() == key) {
                        v.push(p);
                    }
                }
                Some(v)
            } else {
                None
            };
            LCase { rules: None, patterns, exceptions, lmin, rmin, items: normalise_items(items) }
        })
}

// --- synthetic fonts

const SY_LETTERS: &[char] = &['a', 'b', 'c', 'd', 'e', 'a', 'b', 'c', 'A', 'B'];
const SY_LEFT: &[char] = &['a', 'b', 'c', 'd', 'e', 'a', 'b', 'c', 'x', 'y', 'z', 'w', '|', '|', '-', '-', ',', '(', 'A'];
const SY_RIGHT: &[char] = &['a', 'b', 'c', 'd', 'e', 'a', 'b', 'c', 'x', 'y', '-', '-', '-', '|', '|', ',', '.', 'B'];
const SY_INS: &[char] = &['x', 'y', 'z', 'w', 'x', 'y', 'z', 'w', '0', '1', 'a', '-'];
const SY_PREFIXES: &[&str] = &["", "", "", "", "(", "((", "3", "-", ",", "|"];
const SY_SUFFIXES: &[&str] = &["", "", "", ",", ".", ",.", "-", "3", ")", "|", "-a"];
const SY_LETTERLESS: &[&str] = &["3.0", "--", "(", ",", "3", "-", "|", ".(."];

#[derive(Debug, Clone)]
struct RawRule {
    mode: u8,
    a: u16,
    b: u16,
    z: u16,
    op: u8,
    k: u8,
}

fn raw_rule() -> impl Strategy<Value = RawRule> {
    (any::<u8>(), any::<u16>(), any::<u16>(), any::<u16>(), 0..16u8, any::<u8>()).prop_map(|(mode, a, b, z, op, k)| RawRule { mode, a, b, z, op, k })
}

fn rule_text(l: char, r: char, z: char, op: u8, k: u8) -> String {
    let kern = [100, 200, -300, 50000, 7][(k % 5) as usize];
    let body = match op {
        0..=3 => format!("{l}[{kern}]{r}"),
        4..=6 => format!("_{z}^_"),
        7 => format!("{l}^{z}{r}"),
        8 => format!("{l}{z}^{r}"),
        9 => format!("{l}{z}{r}^"),
        10 => format!("{l}^{z}_"),
        11 => format!("{l}{z}^_"),
        12 => format!("_{z}^{r}"),
        13 => format!("_{z}{r}^"),
        _ => format!("_{z}^_"),
    };
    format!("{l}{r} -> {body}")
}

fn sy_strategy() -> impl Strategy<Value = LCase> {
    (
        prop::collection::vec(raw_rule(), 0..12),
        prop::collection::vec(raw_token(), 1..6),
        mins(),
        prop::collection::vec((any::<u16>(), any::<u16>(), 0..8u8, 1..6u8), 0..7),
        any::<u8>(),
        1..6usize,
    )
        .prop_map(|(rules, toks, (lmin, rmin), pats, misc, nletters)| {
            let letters: Vec<char> = if misc % 16 == 5 { SY_LETTERS.to_vec() } else { SY_LETTERS[..nletters].to_vec() };
            // the words first: the rules are aimed at their letter pairs
            let mut cores: Vec<Option<String>> = vec![];
            for t in &toks {
                if t.kind % 16 < 2 {
                    cores.push(None);
                    continue;
                }
                let n = if t.kind % 16 == 2 { 60 + t.letters.len() } else { (t.letters.len() + 1).min(2 + (t.kind as usize / 16) % 9) };
                let core: String = (0..n).map(|i| letters[(t.letters[i % t.letters.len()] as usize + i / t.letters.len()) % letters.len()]).collect();
                cores.push(Some(core));
            }
            let words: Vec<Vec<char>> = cores.iter().flatten().map(|s| s.chars().collect()).collect();
            let mut rs: Vec<String> = vec![];
            let mut inserted: Vec<char> = vec![];
            for r in &rules {
                let z = SY_INS[pick_idx(r.z, SY_INS.len())];
                let w: Option<&Vec<char>> = if words.is_empty() { None } else { Some(&words[pick_idx(r.a, words.len())]) };
                let (l, rc) = match (r.mode % 16, w) {
                    // an adjacent letter pair of a word
                    (0..=6, Some(w)) if w.len() >= 2 => {
                        let i = pick_idx(r.b, w.len() - 1);
                        (w[i], w[i + 1])
                    }
                    // a character inserted by an earlier rule followed by a letter of a word / hyphen / boundary
                    (7..=9, Some(w)) if !inserted.is_empty() => {
                        let x = inserted[pick_idx(r.a, inserted.len())];
                        let pool: Vec<char> = w.iter().copied().chain(['-', '|']).collect();
                        (x, pool[pick_idx(r.b, pool.len())])
                    }
                    // left boundary and the first letter of a word
                    (10, Some(w)) => ('|', w[0]),
                    // a letter (or inserted character) and the hyphen character
                    (11 | 12, Some(w)) => {
                        let pool: Vec<char> = w.iter().copied().chain(inserted.iter().copied()).collect();
                        (pool[pick_idx(r.b, pool.len())], '-')
                    }
                    // the last letter of a word and the right boundary / a following punctuation mark
                    (13, Some(w)) => (*w.last().unwrap(), ['|', '|', ',', '-'][(r.b % 4) as usize]),
                    // hyphen character on the left (pre-break material ends with it)
                    (14, _) => ('-', ['|', '|', 'a', ','][(r.b % 4) as usize]),
                    _ => (SY_LEFT[pick_idx(r.a, SY_LEFT.len())], SY_RIGHT[pick_idx(r.b, SY_RIGHT.len())]),
                };
                let key = format!("{l}{rc}");
                if key == "||" || rs.iter().any(|q| q.starts_with(&key)) {
                    continue;
                }
                if r.op >= 4 {
                    inserted.push(z);
                }
                rs.push(rule_text(l, rc, z, r.op, r.k));
            }
            let mut items = vec![];
            if misc % 8 == 0 {
                items.push(Item::Space);
            } else {
                items.push(Item::Word("x".into()));
            }
            let mut exceptions = vec![];
            let allow_nodes = misc % 4 == 1;
            for (t, core) in toks.iter().zip(cores) {
                items.push(Item::Space);
                match t.before % 32 {
                    0 => items.push(Item::Font(1)),
                    1 => items.push(Item::Font(0)),
                    2 if allow_nodes => items.push(Item::Node(t.split % 6)),
                    3 => items.push(Item::Space),
                    _ => {}
                }
                let Some(mut core) = core else {
                    items.push(Item::Word(pick(SY_LETTERLESS, t.core[0]).to_string()));
                    continue;
                };
                if t.kind % 16 == 3 && core.len() >= 2 {
                    core.insert(1 + (t.split as usize) % (core.len() - 1), if t.split % 2 == 0 { '-' } else { '3' });
                }
                if t.exc {
                    let w: String = core.chars().take_while(|c| c.is_ascii_alphabetic()).collect();
                    if w.len() >= 2 && w.len() <= 63 {
                        let mut e = String::new();
                        for (i, c) in w.chars().enumerate() {
                            if i > 0 && (t.hyph_mask >> (i % 64)) & 1 == 1 {
                                e.push('-');
                            }
                            e.push(c.to_ascii_lowercase());
                        }
                        exceptions.push(e);
                    }
                }
                let word = format!("{}{}{}", pick(SY_PREFIXES, t.prefix), core, pick(SY_SUFFIXES, t.suffix));
                if t.split % 16 == 0 && word.len() >= 2 {
                    let k = 1 + (t.split as usize / 16) % (word.len() - 1);
                    items.push(Item::Word(word[..k].to_string()));
                    items.push(Item::Font(((t.split / 16) % 2) ^ 1));
                    items.push(Item::Word(word[k..].to_string()));
                } else {
                    items.push(Item::Word(word));
                    if allow_nodes && t.hyph_mask >> 60 == 0 {
                        items.push(Item::Node(((t.hyph_mask >> 56) % 6) as u8));
                    }
                }
            }
            let lower: Vec<char> = {
                let mut v: Vec<char> = letters.iter().map(|c| c.to_ascii_lowercase()).collect();
                v.sort();
                v.dedup();
                v
            };
            let mut v: Vec<String> = vec![];
            for (a, b, shape, d) in &pats {
                let a = lower[pick_idx(*a, lower.len())];
                let b = lower[pick_idx(*b, lower.len())];
                let d2 = 1 + (d % 5);
                let p = match shape {
                    0 | 1 => format!("{a}{d}{b}"),
                    2 => format!("{d}{a}"),
                    3 => format!("{a}{d}"),
                    4 => format!("{a}{d}{b}{d2}"),
                    5 => format!(".{a}{d}"),
                    6 => format!("{d}{a}."),
                    _ => format!("{a}{d2}{b}{d}{a}"),
                };
                let key: String = p.chars().filter(|c| !c.is_ascii_digit()).collect();
                if !v.iter().any(|q| q.chars().filter(|c| !c.is_ascii_digit()).collect::<String>() == key) {
                    v.push(p);
                }
            }
            LCase { rules: Some(rs), patterns: Some(v), exceptions, lmin, rmin, items: normalise_items(items) }
        })
}

// ---------------------------------------------------------------------------------------------
// Entry point

pub fn run(ctx: &Ctx) {
    ctx.rule("case = text (words with ligature/kern-rich and long cores, punctuation, digits, explicit hyphens, apostrophes, letterless tokens such as 3.0, words of 64+ letters, upper case; font switches between two copies of one metric file, rarely a directly pushed penalty/kern/math/rule/whatsit/box node) typeset by TextPreprocessorImpl in cmr10 or in cmr10's metrics with a generated lig/kern program (all 8 ligature forms and kerns, aimed at the letter pairs of the text, at characters inserted by other rules, at the hyphen character and at both boundaries) x pattern set (plain TeX's, or a small generated one with digits 0-5) x exceptions (hyphenated variants of the words in the text) x left/right hyphen minimums (1..5, rarely 0, -1, 6, 63, 64, 70); non-trivial = at least one inserted discretionary falls strictly inside the letters of a ligature node of the unhyphenated list, or has an implicit kern among or next to the nodes it replaces; distinct = by full case text. Class histograms record the other shapes (post-break material, ligatures inside pre/post-break, several nodes replaced, positions dropped inside replaced letters, words after a non-letter prefix, words cut at 63 letters, words blocked by TeX 899)");
    ctx.assume("letters are the 52 ASCII letters (plain TeX's \\lccode table), \\uchyph=1, and the hyphen character of every font is '-': the implementation hard-codes all three, and TeX's golden lists (alice_golden) agree");
    ctx.assume("lists are what TextPreprocessorImpl makes of the items; two add_word calls are never adjacent without a space, a font switch or a node between them (TeX re-ligatures across such a seam when it reconstitutes, the shelf{}ful effect), enforced by construction; directly pushed nodes (a quarter of the cases) go beyond 'produced from text' but stay inside TeX 894-899; the end of the list permits hyphenation like the penalty+glue that ends every TeX paragraph");
    ctx.assume("words TeX itself rebuilds differently are skipped and counted (only when they have a permitted hyphen - TeX 902 leaves every other word alone): (a) a ligature rule applies between the end of the word and the character after it, which TeX 903 uses as right boundary (pinned by the unit tests right_boundary_char_override_3..6, where the oracle indeed rejects TeX's list); (b) the implicit kern after the word may stem from the left boundary of a following font. Both are decided from the rule table of the case (cmr10: its 11 ligature rules), conservatively. Kerns of width 0 (dropped by TeX 911 `if w<>0`) are never generated");
    ctx.assume("generated lig/kern programs with an infinite loop (compile reports it) are skipped and counted");
    ctx.assume("(ii) compares letters (original characters of character and ligature nodes); every character inside an inserted discretionary must be in the word's font; exactly one trailing hyphen character is removed from the original characters of the pre-break list (it may be followed by a boundary ligature without original characters)");
    ctx.assume("(iv) completeness as calibrated on TeX's lists: a permitted position may lack a discretionary only if it lies strictly inside the letters replaced by a discretionary at an earlier position (TeX 913-916; unit test synchronization_2 drops a hyphen BETWEEN two ligature nodes, so 'inside one ligature node' would be too strict). For fonts whose rules are only kerns and both-characters-replaced ligatures, without boundary rules and without reachable rules for the hyphen character (cmr10 is one), TeX 913-916 is replayed on letter counts and positions AND replaced letter ranges must agree exactly (977 Alice boxes and 9 unit tests calibrate this)");
    ctx.assume("structure beyond the property text, calibrated on TeX's lists: a discretionary or the end of its replaced nodes never separates a character from the implicit kern after it");
    ctx.assume("every case runs on a helper thread; no answer within 20 s (normal: < 10 ms) is reported as a violation (suspected non-termination of the TeX 916 loop), not as a hang of the check");
    ctx.assume("known-finding flags switch on named deviations of the reference (word discovery consumes the node that stops a letterless prefix; words rebuilt from their letters starting at the left boundary / from the first letter / even without a permitted hyphen - the rebuilt nodes are computed with the repository's lig/kern run, only inside the deviation path; right-boundary field of ligatures among replaced nodes); the deviating reference must accept the output completely, smallest flag subsets first");

    let known = Known::of(ctx);
    // debugging aid (sensitivity experiments): VP_C14_ONLY=<sub-check> runs only that sub-check
    let only = std::env::var("VP_C14_ONLY").ok();
    let wanted = |name: &str| only.as_deref().map_or(true, |o| o == name) || !ctx.is_generate();

    let goldens = unit_goldens();
    if !wanted("unit_goldens") {
    } else if goldens.len() < 33 {
        ctx.fail_external("unit_goldens", &goldens.len(), &format!("expected the 33 unit tests of boxworks-hyphenate, found {}", goldens.len()));
        return;
    } else {
        run_list(ctx, "unit_goldens", goldens, |g: &Golden, case| golden_oracle(&known, g, case));
    }

    let pairs = if wanted("alice_golden") { alice_pairs() } else { vec![] };
    if !wanted("alice_golden") {
    } else if pairs.is_empty() {
        ctx.assume("alice_golden skipped: the boxworks-bin golden files were not found or do not pair up");
    } else {
        run_list(ctx, "alice_golden", pairs, |p: &BoxPair, case| alice_oracle(p, case));
    }
    if wanted("fixed") {
        run_list(ctx, "fixed", fixed_cases(), |c: &LCase, case| oracle(&known, c, case));
    }
    if wanted("cmr10") {
        let n = ctx.tier.pick(80_000u64, 1_500_000u64);
        run_generated(ctx, "cmr10", n, cm_strategy, |c: &LCase, case| oracle(&known, c, case));
    }
    if wanted("synth") {
        let n = ctx.tier.pick(160_000u64, 3_000_000u64);
        run_generated(ctx, "synth", n, sy_strategy, |c: &LCase, case| oracle(&known, c, case));
    }
}
