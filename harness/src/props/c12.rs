//! C12 Typesetting a paragraph conserves its content and honours the geometry.

use crate::engine::*;
use crate::models::tex_arith as ta;
use boxworks::ds::{self, Horizontal as H};
use boxworks::{LineBreaker as _, TextPreprocessor as _};
use boxworks_knuthplass as kp;
use common::{Glue, GlueOrder, Scaled};
use proptest::prelude::*;
use serde::{Deserialize, Serialize};

const CMR10: &str = "/repo/crates/tfm/corpus/computer-modern/cmr10.tfm";

struct Font {
    tfm: tfm::File,
    program: tfm::ligkern::CompiledProgram,
    space: i64,
    stretch: i64,
    shrink: i64,
    extra: i64,
}

fn load_font() -> Font {
    let bytes = std::fs::read(CMR10).unwrap_or_else(|e| {
        eprintln!("cannot read {CMR10}: {e}");
        std::process::exit(2)
    });
    let mut tfm_file = tfm::File::deserialize(&bytes).0.expect("cmr10 parses");
    let program = tfm::ligkern::CompiledProgram::compile_from_tfm_file(&mut tfm_file).0;
    let p = |n| tfm_file.named_param_scaled(n).unwrap().0 as i64;
    let (space, stretch, shrink, extra) = (p(tfm::NamedParameter::Space), p(tfm::NamedParameter::Stretch), p(tfm::NamedParameter::Shrink), p(tfm::NamedParameter::ExtraSpace));
    Font { tfm: tfm_file, program, space, stretch, shrink, extra }
}

thread_local! {
    static FONT: Font = load_font();
}

struct NoHyphenation;
impl boxworks::Hyphenator for NoHyphenation {
    fn hyphenate(&self, _list: &mut Vec<H>) {}
}

#[derive(Clone, Debug, Serialize, Deserialize)]
pub struct GlueSpec {
    pub width: i32,
    pub stretch: i32,
    pub stretch_order: u8,
    pub shrink: i32,
    pub shrink_order: u8,
}

impl GlueSpec {
    fn to_glue(&self) -> Glue {
        let o = |k: u8| [GlueOrder::Normal, GlueOrder::Fil, GlueOrder::Fill, GlueOrder::Filll][(k % 4) as usize];
        Glue { width: Scaled(self.width), stretch: Scaled(self.stretch), stretch_order: o(self.stretch_order), shrink: Scaled(self.shrink), shrink_order: o(self.shrink_order) }
    }
    fn zero() -> GlueSpec {
        GlueSpec { width: 0, stretch: 0, stretch_order: 0, shrink: 0, shrink_order: 0 }
    }
}

#[derive(Clone, Debug, Serialize, Deserialize)]
pub struct BreakParams {
    pub widths: Vec<i32>,
    pub indents: Vec<i32>,
    pub club: i32,
    pub widow: i32,
    pub broken: i32,
    pub interline: i32,
    pub left_skip: GlueSpec,
    pub right_skip: GlueSpec,
    pub par_fill_skip: GlueSpec,
    pub pre_tolerance: i32,
    pub tolerance: i32,
    pub emergency_stretch: i32,
    pub looseness: i32,
    pub hyphen_penalty: i32,
    pub ex_hyphen_penalty: i32,
    pub line_penalty: i32,
}

impl BreakParams {
    fn to_params(&self) -> kp::Params {
        let mut p = kp::Params::plain_tex_defaults();
        p.club_penalty = self.club;
        p.final_widow_penalty = self.widow;
        p.broken_penalty = self.broken;
        p.inter_line_penalty = self.interline;
        p.left_skip = self.left_skip.to_glue();
        p.right_skip = self.right_skip.to_glue();
        p.par_fill_skip = self.par_fill_skip.to_glue();
        p.pre_tolerance = self.pre_tolerance;
        p.tolerance = self.tolerance;
        p.emergency_stretch = Scaled(self.emergency_stretch);
        p.looseness = self.looseness;
        p.hyphen_penalty = self.hyphen_penalty;
        p.ex_hyphen_penalty = self.ex_hyphen_penalty;
        p.line_penalty = self.line_penalty;
        p
    }
}

#[derive(Clone, Debug, Serialize, Deserialize)]
pub struct TextCase {
    pub words: Vec<String>,
    pub leading_space: bool,
    pub space_skip: Option<GlueSpec>,
    pub xspace_skip: Option<GlueSpec>,
    /// 0 plain (\nonfrenchspacing), 1 \frenchspacing (all 1000), 2 custom
    pub sf_table: u8,
    pub custom_sf: Vec<(u8, i32)>,
    pub hyphenate: bool,
    pub bp: BreakParams,
}

#[derive(Clone, Copy, Default)]
pub struct Deviations {
    /// \spaceskip is used unmodified when the space factor is not 1000 (D10)
    pub space_skip_not_modified: bool,
    /// discardable items after a break are not pruned (D9)
    pub no_pruning: bool,
}

fn sf_codes(c: &TextCase) -> boxworks_text::SpaceFactorCodes {
    let mut t = boxworks_text::SpaceFactorCodes::plain_tex_defaults();
    match c.sf_table % 3 {
        0 => {}
        1 => {
            for ch in ['.', '?', '!', ':', ';', ','] {
                t.0[ch as usize] = 1000;
            }
        }
        _ => {
            for (ch, v) in &c.custom_sf {
                t.0[*ch as usize % 128] = *v;
            }
        }
    }
    t
}

/// TeX 1034, 1041-1044
fn model_spaces(c: &TextCase, f: &Font, dev: Deviations) -> Vec<Glue> {
    let codes = sf_codes(c);
    let mut sf: i64 = 1000;
    let mut out = vec![];
    let space_skip = c.space_skip.as_ref().map(|g| g.to_glue()).unwrap_or(Glue::ZERO);
    let xspace_skip = c.xspace_skip.as_ref().map(|g| g.to_glue()).unwrap_or(Glue::ZERO);
    let font_glue = Glue { width: Scaled(f.space as i32), stretch: Scaled(f.stretch as i32), stretch_order: GlueOrder::Normal, shrink: Scaled(f.shrink as i32), shrink_order: GlueOrder::Normal };
    let mut space = |sf: i64| -> Glue {
        if sf == 1000 {
            if !space_skip.is_zero() {
                space_skip
            } else {
                font_glue
            }
        } else if sf >= 2000 && !xspace_skip.is_zero() {
            xspace_skip
        } else {
            let from_skip = !space_skip.is_zero();
            let mut g = if from_skip { space_skip } else { font_glue };
            if from_skip && dev.space_skip_not_modified {
                return g;
            }
            if sf >= 2000 {
                g.width = Scaled((g.width.0 as i64 + f.extra) as i32);
            }
            g.stretch = Scaled(ta::xn_over_d(g.stretch.0 as i64, sf, 1000).map(|x| x.0).unwrap_or(0) as i32);
            g.shrink = Scaled(ta::xn_over_d(g.shrink.0 as i64, 1000, sf).map(|x| x.0).unwrap_or(0) as i32);
            g
        }
    };
    for (i, w) in c.words.iter().enumerate() {
        if i > 0 || c.leading_space {
            out.push(space(sf));
        }
        for ch in w.chars() {
            let s = codes.0.get(ch as usize).copied().unwrap_or(1000) as i64;
            if s == 1000 {
                sf = 1000;
            } else if s < 1000 {
                if s > 0 {
                    sf = s;
                }
            } else if sf < 1000 {
                sf = 1000;
            } else {
                sf = s;
            }
        }
    }
    out
}

fn discardable(h: &H) -> bool {
    match h {
        H::Glue(_) | H::Penalty(_) | H::Math(_) => true,
        H::Kern(k) => k.kind == ds::KernKind::Explicit,
        _ => false,
    }
}

#[derive(Debug, PartialEq)]
enum VItem {
    Line { list: Vec<H>, width: Scaled, shift: Scaled },
    Penalty(i32),
}

/// TeX 877-890 with the pruning of 879.
fn model_post_line_break(h: &[H], bps: &[usize], p: &kp::Params, widths: &[Scaled], indents: &[Scaled], dev: Deviations) -> Vec<VItem> {
    let mut out = vec![];
    let mut start = 0usize;
    let mut pending_post: Vec<ds::DiscretionaryElem> = vec![];
    let n = bps.len();
    for (li, &bp) in bps.iter().enumerate() {
        let mut line: Vec<H> = vec![];
        if !p.left_skip.is_zero() {
            line.push(H::Glue(ds::Glue { value: p.left_skip, kind: ds::GlueKind::Normal }));
        }
        for e in pending_post.drain(..) {
            line.push(e.into());
        }
        let bp_c = bp.min(h.len());
        if start < bp_c {
            line.extend_from_slice(&h[start..bp_c]);
        }
        let mut next_start = bp + 1;
        let mut disc_break = false;
        if let Some(node) = h.get(bp) {
            match node {
                H::Discretionary(d) => {
                    line.push(H::Discretionary(ds::Discretionary::default()));
                    for e in &d.pre_break {
                        line.push(e.clone().into());
                    }
                    pending_post = d.post_break.clone();
                    next_start += d.replace_count as usize;
                    disc_break = true;
                }
                H::Kern(k) => {
                    let mut k = k.clone();
                    k.width = Scaled::ZERO;
                    line.push(H::Kern(k));
                }
                H::Glue(_) => {}
                other => line.push(other.clone()),
            }
        }
        line.push(H::Glue(ds::Glue { value: p.right_skip, kind: ds::GlueKind::Normal }));
        if li + 1 < n && pending_post.is_empty() && !dev.no_pruning {
            let limit = bps[li + 1].min(h.len());
            while next_start < limit && discardable(&h[next_start]) {
                next_start += 1;
            }
        }
        start = next_start;
        let width = *widths.get(li).unwrap_or(widths.last().unwrap());
        let shift = indents.get(li).copied().unwrap_or(indents.last().copied().unwrap_or(Scaled::ZERO));
        out.push(VItem::Line { list: line, width, shift });
        if li + 1 != n {
            let mut pen = p.inter_line_penalty;
            if li == 0 {
                pen += p.club_penalty;
            }
            if li + 2 == n {
                pen += p.final_widow_penalty;
            }
            if disc_break {
                pen += p.broken_penalty;
            }
            if pen != 0 {
                out.push(VItem::Penalty(pen));
            }
        }
    }
    out
}

fn observed_items(v: &[ds::Vertical]) -> Result<Vec<VItem>, String> {
    let mut out = vec![];
    for e in v {
        match e {
            ds::Vertical::HBox(b) => out.push(VItem::Line { list: b.list.clone(), width: b.width, shift: b.shift_amount }),
            ds::Vertical::Penalty(p) => out.push(VItem::Penalty(p.0)),
            ds::Vertical::Glue(_) => {}
            other => return Err(format!("unexpected item in the vertical list: {:?}", other)),
        }
    }
    Ok(out)
}

fn show_list(l: &[H]) -> String {
    let mut s = String::new();
    for h in l {
        match h {
            H::Char(c) => s.push(c.char),
            H::Ligature(l) => s.push_str(&format!("<{}={}>", l.char, l.original_chars.as_ref() as &str)),
            H::Glue(g) => s.push_str(&format!("[glue {}]", g.value)),
            H::Kern(k) => s.push_str(&format!("[kern {} {:?}]", k.width, k.kind)),
            H::Penalty(p) => s.push_str(&format!("[pen {}]", p.0)),
            H::Discretionary(d) => s.push_str(&format!("[disc pre{} post{} r{}]", d.pre_break.len(), d.post_break.len(), d.replace_count)),
            other => s.push_str(&format!("[{:?}]", other)),
        }
    }
    s
}

fn compare_vlists(expected: &[VItem], got: &[VItem]) -> Result<(), String> {
    for (i, (e, g)) in expected.iter().zip(got.iter()).enumerate() {
        if e != g {
            return Err(match (e, g) {
                (VItem::Line { list: le, width: we, shift: se }, VItem::Line { list: lg, width: wg, shift: sg }) => {
                    if we != wg || se != sg {
                        format!("item {i}: line box has width {} shift {}, expected width {} shift {}", wg, sg, we, se)
                    } else {
                        format!("item {i}: line contents differ\n  expected: {}\n  got:      {}", show_list(le), show_list(lg))
                    }
                }
                _ => format!("item {i}: expected {:?}, got {:?}", short(e), short(g)),
            });
        }
    }
    if expected.len() != got.len() {
        return Err(format!("{} items expected (lines and penalties), {} produced", expected.len(), got.len()));
    }
    Ok(())
}

fn short(v: &VItem) -> String {
    match v {
        VItem::Line { list, .. } => format!("line {}", show_list(list)),
        VItem::Penalty(p) => format!("penalty {}", p),
    }
}

/// Break `h0` (a paragraph's horizontal list before TeX 816) and compare with the model.
/// Returns (number of lines, a break at a discretionary happened, a discardable run of length >= 2 stood at a break).
fn check_breaking(h0: &[H], bp: &BreakParams, hyphenator: &dyn boxworks::Hyphenator, f: &Font, dev_known: &[(&'static str, Deviations)]) -> Result<(usize, bool, bool, Option<&'static str>), String> {
    let params = bp.to_params();
    let widths: Vec<Scaled> = bp.widths.iter().map(|w| Scaled(*w)).collect();
    let indents: Vec<Scaled> = bp.indents.iter().map(|w| Scaled(*w)).collect();
    let mut font_repo = boxworks_text::TfmFontRepo::default();
    font_repo.register_font(0, f.tfm.clone());
    // the real thing
    let mut vlist: Vec<ds::Vertical> = vec![];
    let mut h_list: Vec<H> = h0.to_vec();
    kp::LineBreaker { params: &params, line_widths: &widths, line_indents: &indents, debug_logger: None, hyphenator }.break_line(&font_repo, &mut vlist, &mut h_list);
    // recompute the breakpoints on a clone prepared as TeX 816 prepares it
    let mut clone: Vec<H> = h0.to_vec();
    if matches!(clone.last(), Some(H::Glue(_))) {
        clone.pop();
    }
    clone.push(H::Penalty(ds::Penalty::INFINITE));
    clone.push(H::Glue(ds::Glue { kind: ds::GlueKind::Normal, value: params.par_fill_skip }));
    let mut dummy: Vec<ds::Vertical> = vec![];
    let bps = kp::LineBreaker { params: &params, line_widths: &widths, line_indents: &indents, debug_logger: None, hyphenator }.break_line_all_attempts(&font_repo, hyphenator, &mut dummy, &mut clone);
    if clone != h_list {
        return Err(format!("the list left behind by break_line differs from the prepared (and possibly hyphenated) list\n  break_line: {}\n  prepared:   {}", show_list(&h_list), show_list(&clone)));
    }
    let n = h_list.len();
    if n < 2 || h_list[n - 2] != H::Penalty(ds::Penalty::INFINITE) || !matches!(&h_list[n - 1], H::Glue(g) if g.value == params.par_fill_skip) {
        return Err(format!("the broken list does not end with \\penalty10000 \\parfillskip: {}", show_list(&h_list)));
    }
    // breakpoints are strictly increasing, the last one is the end of the list
    for w in bps.windows(2) {
        if w[0] >= w[1] {
            return Err(format!("breakpoints are not increasing: {:?}", bps));
        }
    }
    let got = observed_items(&vlist)?;
    let disc_break = bps.iter().any(|b| matches!(h_list.get(*b), Some(H::Discretionary(_))));
    let mut run2 = false;
    for b in &bps {
        if let Some(node) = h_list.get(*b) {
            if discardable(node) && h_list.get(*b + 1).map(discardable).unwrap_or(false) && *b + 2 < n {
                run2 = true;
            }
        }
    }
    let expected = model_post_line_break(&h_list, &bps, &params, &widths, &indents, Deviations::default());
    match compare_vlists(&expected, &got) {
        Ok(()) => {}
        Err(e) => {
            for (name, dev) in dev_known {
                let e2 = model_post_line_break(&h_list, &bps, &params, &widths, &indents, *dev);
                if compare_vlists(&e2, &got).is_ok() {
                    return Ok((bps.len(), disc_break, run2, Some(name)));
                }
            }
            return Err(format!("{}\n  list: {}\n  breakpoints: {:?}", e, show_list(&h_list), bps));
        }
    }
    // no line but the first begins with discardable material
    let mut first = true;
    for it in &got {
        if let VItem::Line { list, .. } = it {
            if !first {
                let mut k = 0;
                if !params.left_skip.is_zero() {
                    k = 1;
                }
                if let Some(x) = list.get(k) {
                    // an otherwise empty line holds just the item it was broken at (e.g. the second of
                    // two forced breaks in a row) and the right skip: that is TeX's output too
                    if discardable(x) && k + 2 < list.len() {
                        return Err(format!("a line begins with discardable material: {}", show_list(list)));
                    }
                }
            }
            first = false;
        }
    }
    Ok((bps.len(), disc_break, run2, None))
}

fn text_oracle(ctx: &Ctx, c: &TextCase, case: &mut Case) -> Verdict {
    FONT.with(|f| {
        let text = format!("{}{}", if c.leading_space { " " } else { "" }, c.words.join(" "));
        case.note = Some(format!("text={:?} widths={:?} spaceskip={:?} xspaceskip={:?} sf_table={} hyphenate={}", text, c.bp.widths, c.space_skip, c.xspace_skip, c.sf_table, c.hyphenate));
        let params = boxworks_text::Params {
            space_factor_codes: sf_codes(c),
            space_skip: c.space_skip.as_ref().map(|g| g.to_glue()).unwrap_or(Glue::ZERO),
            extra_space_skip: c.xspace_skip.as_ref().map(|g| g.to_glue()).unwrap_or(Glue::ZERO),
        };
        let mut tp = boxworks_text::TextPreprocessorImpl::new(params);
        tp.register_font(0, &f.tfm, f.program.clone());
        tp.activate_font(0);
        let mut h0: Vec<H> = vec![];
        tp.add_text(&text, &mut h0);
        // (1) the list spells the words
        let mut segs: Vec<String> = vec![String::new()];
        let mut glues: Vec<Glue> = vec![];
        for h in &h0 {
            match h {
                H::Char(ch) => segs.last_mut().unwrap().push(ch.char),
                H::Ligature(l) => segs.last_mut().unwrap().push_str(l.original_chars.as_ref()),
                H::Glue(g) => {
                    glues.push(g.value);
                    segs.push(String::new());
                }
                H::Kern(_) | H::Discretionary(_) => {}
                other => return Verdict::Fail(format!("unexpected node from the text preprocessor: {:?}", other)),
            }
        }
        let mut want_segs: Vec<String> = c.words.clone();
        if c.leading_space {
            want_segs.insert(0, String::new());
        }
        if want_segs.is_empty() {
            want_segs.push(String::new());
        }
        if segs != want_segs {
            return Verdict::Fail(format!("the horizontal list does not spell the input words\n  text: {:?}\n  list: {}\n  spelled: {:?}", text, show_list(&h0), segs));
        }
        // (2) inter-word glue follows the space-factor rules
        let want_glue = model_spaces(c, f, Deviations::default());
        let mut known: Option<&'static str> = None;
        if glues != want_glue {
            let d = Deviations { space_skip_not_modified: true, ..Default::default() };
            if ctx.known("flag:space_skip_not_modified") && glues == model_spaces(c, f, d) {
                known = Some("flag:space_skip_not_modified");
            } else {
                let i = glues.iter().zip(want_glue.iter()).position(|(a, b)| a != b).unwrap_or(0);
                return Verdict::Fail(format!("inter-word glue #{} is {}, TeX's space-factor rules give {}\n  text: {:?} spaceskip={:?} xspaceskip={:?}", i, glues.get(i).map(|g| g.to_string()).unwrap_or_default(), want_glue.get(i).map(|g| g.to_string()).unwrap_or_default(), text, c.space_skip, c.xspace_skip));
            }
        }
        let sf_nontrivial = glues.iter().any(|g| *g != glues[0]);
        case.class_if(sf_nontrivial, "space factor changes a glue");
        case.class_if(c.space_skip.is_some(), "spaceskip set");
        case.class_if(c.xspace_skip.is_some(), "xspaceskip set");
        if c.words.is_empty() {
            return Verdict::pass(false);
        }
        // (3)-(5) line breaking
        let mut devs: Vec<(&'static str, Deviations)> = vec![];
        if ctx.known("flag:no_pruning_after_break") {
            devs.push(("flag:no_pruning_after_break", Deviations { no_pruning: true, ..Default::default() }));
        }
        let hy = boxworks_hyphenate::Hyphenator::plain_tex_en_us(f.program.clone());
        let r = if c.hyphenate { check_breaking(&h0, &c.bp, &hy, f, &devs) } else { check_breaking(&h0, &c.bp, &NoHyphenation, f, &devs) };
        match r {
            Ok((lines, disc, run2, k)) => {
                case.class_if(lines >= 3, "lines>=3");
                case.class_if(disc, "break at a discretionary");
                case.class_if(run2, "discardable run>=2 at a break");
                if let Some(k) = k.or(known) {
                    return Verdict::Known(k.to_string());
                }
                Verdict::pass(lines >= 3 && (disc || run2 || sf_nontrivial))
            }
            Err(e) => Verdict::Fail(format!("{}\n  text: {:?}", e, text)),
        }
    })
}

// ---- hand-built lists

#[derive(Clone, Debug, Serialize, Deserialize)]
pub enum Item {
    Word(String),
    Glue(GlueSpec),
    Penalty(i32),
    Kern(i32, bool),
    /// pre-break, post-break, replace count
    Disc(String, String, u8),
}

#[derive(Clone, Debug, Serialize, Deserialize)]
pub struct ListCase {
    pub items: Vec<Item>,
    pub bp: BreakParams,
}

fn list_oracle(ctx: &Ctx, c: &ListCase, case: &mut Case) -> Verdict {
    FONT.with(|f| {
        let ch = |c: char| ds::Char { char: c, font: 0 };
        let mut h0: Vec<H> = vec![];
        for it in &c.items {
            match it {
                Item::Word(w) => {
                    for x in w.chars() {
                        h0.push(H::Char(ch(x)));
                    }
                }
                Item::Glue(g) => h0.push(H::Glue(ds::Glue { value: g.to_glue(), kind: ds::GlueKind::Normal })),
                Item::Penalty(p) => h0.push(H::Penalty(ds::Penalty(*p))),
                Item::Kern(w, explicit) => h0.push(H::Kern(ds::Kern { width: Scaled(*w), kind: if *explicit { ds::KernKind::Explicit } else { ds::KernKind::Normal } })),
                Item::Disc(pre, post, r) => {
                    let d = ds::Discretionary { pre_break: pre.chars().map(|x| ch(x).into()).collect(), post_break: post.chars().map(|x| ch(x).into()).collect(), replace_count: 0 };
                    h0.push(H::Discretionary(d));
                    let _ = r;
                }
            }
        }
        // replace counts: cover following characters / kerns only
        for i in 0..h0.len() {
            let want = match (&c.items_replace(i), &h0[i]) {
                (Some(r), H::Discretionary(_)) => *r,
                _ => continue,
            };
            let mut k = 0u32;
            while k < want as u32 && matches!(h0.get(i + 1 + k as usize), Some(H::Char(_)) | Some(H::Kern(ds::Kern { kind: ds::KernKind::Normal, .. }))) {
                k += 1;
            }
            if let H::Discretionary(d) = &mut h0[i] {
                d.replace_count = k;
            }
        }
        case.note = Some(format!("list={} widths={:?}", show_list(&h0), c.bp.widths));
        let mut devs: Vec<(&'static str, Deviations)> = vec![];
        if ctx.known("flag:no_pruning_after_break") {
            devs.push(("flag:no_pruning_after_break", Deviations { no_pruning: true, ..Default::default() }));
        }
        match check_breaking(&h0, &c.bp, &NoHyphenation, f, &devs) {
            Ok((lines, disc, run2, k)) => {
                case.class_if(lines >= 3, "lines>=3");
                case.class_if(disc, "break at a discretionary");
                case.class_if(run2, "discardable run>=2 at a break");
                if let Some(k) = k {
                    return Verdict::Known(k.to_string());
                }
                Verdict::pass(lines >= 3 && (disc || run2))
            }
            Err(e) => Verdict::Fail(e),
        }
    })
}

impl ListCase {
    /// requested replace count of the discretionary that became node `i` of the flattened list
    fn items_replace(&self, node_index: usize) -> Option<u8> {
        let mut i = 0usize;
        for it in &self.items {
            match it {
                Item::Word(w) => i += w.chars().count(),
                Item::Disc(_, _, r) => {
                    if i == node_index {
                        return Some(*r % 3);
                    }
                    i += 1;
                }
                _ => i += 1,
            }
        }
        None
    }
}

// ---- strategies

fn pt(x: i32) -> i32 {
    x * 65536
}

fn glue_strategy() -> impl Strategy<Value = GlueSpec> {
    (0i32..8, 0i32..6, prop_oneof![9 => Just(0u8), 1 => 1u8..4], 0i32..4).prop_map(|(w, st, so, sh)| GlueSpec { width: pt(w) + 13107, stretch: pt(st) / 2, stretch_order: so, shrink: pt(sh) / 3, shrink_order: 0 })
}

fn skip_strategy() -> impl Strategy<Value = GlueSpec> {
    prop_oneof![
        3 => Just(GlueSpec::zero()),
        1 => (0i32..20, 0i32..30).prop_map(|(w, s)| GlueSpec { width: pt(w), stretch: pt(s), stretch_order: 0, shrink: 0, shrink_order: 0 }),
        1 => (0i32..10).prop_map(|w| GlueSpec { width: pt(w), stretch: pt(1), stretch_order: 1, shrink: 0, shrink_order: 0 }),
    ]
}

fn bp_strategy() -> impl Strategy<Value = BreakParams> {
    (
        proptest::collection::vec(60i32..320, 1..4),
        proptest::collection::vec(0i32..30, 0..4),
        (prop_oneof![Just(0i32), Just(150), Just(-50), Just(10000)], prop_oneof![Just(0i32), Just(150), Just(7)], prop_oneof![Just(0i32), Just(100), Just(33)], prop_oneof![Just(0i32), Just(5), Just(-5)]),
        (skip_strategy(), skip_strategy()),
        prop_oneof![4 => Just(GlueSpec { width: 0, stretch: 65536, stretch_order: 1, shrink: 0, shrink_order: 0 }), 1 => Just(GlueSpec::zero()), 1 => Just(GlueSpec { width: pt(20), stretch: pt(100), stretch_order: 0, shrink: 0, shrink_order: 0 })],
        (prop_oneof![Just(-1i32), Just(100), Just(10000)], prop_oneof![Just(200i32), Just(1000), Just(9999), Just(10000)], prop_oneof![3 => Just(0i32), 1 => Just(pt(20))], prop_oneof![6 => Just(0i32), 1 => Just(1), 1 => Just(-1)]),
        (prop_oneof![Just(50i32), Just(0), Just(500)], prop_oneof![Just(50i32), Just(0)], prop_oneof![Just(10i32), Just(0), Just(200)]),
    )
        .prop_map(|(widths, indents, (club, widow, broken, interline), (left_skip, right_skip), par_fill_skip, (pre_tolerance, tolerance, emergency_stretch, looseness), (hyphen_penalty, ex_hyphen_penalty, line_penalty))| BreakParams {
            widths: widths.into_iter().map(pt).collect(),
            indents: indents.into_iter().map(pt).collect(),
            club,
            widow,
            broken,
            interline,
            left_skip,
            right_skip,
            par_fill_skip,
            pre_tolerance,
            tolerance,
            emergency_stretch,
            looseness,
            hyphen_penalty,
            ex_hyphen_penalty,
            line_penalty,
        })
}

fn word_strategy() -> impl Strategy<Value = String> {
    let pool = vec![
        "difficult", "office", "fjord", "AV", "To", "Wolf", "e.g.", "end.", "A.", "NASA.", "what?", "yes!", "so:", "and;", "but,", "(see)", "don't", "x-ray", "one--two", "efficient", "waffle", "fluff", "affine", "The", "quick", "brown", "hyphenation", "Contents", "3.0", "typesetting", "a", "I", "wonderful", "representation", "characteristically", "'quoted'", "[x]", "Mr.", "etc.)", "fi", "ffl",
    ];
    prop_oneof![
        5 => proptest::sample::select(pool).prop_map(|s| s.to_string()),
        2 => "[aefilotAVTWy.,;:!?)'-]{1,10}",
        1 => "[a-z]{1,14}",
    ]
}

fn text_case_strategy() -> impl Strategy<Value = TextCase> {
    (
        proptest::collection::vec(word_strategy(), 0..45),
        proptest::bool::weighted(0.1),
        proptest::option::weighted(0.35, glue_strategy()),
        proptest::option::weighted(0.3, glue_strategy()),
        0u8..3,
        proptest::collection::vec((prop_oneof![Just(b'.'), Just(b','), Just(b'a'), Just(b'e'), Just(b'A'), Just(b')'), Just(b'!')], prop_oneof![Just(0i32), Just(1), Just(999), Just(1000), Just(1001), Just(1999), Just(2000), Just(3000), Just(32767)]), 0..5),
        proptest::bool::weighted(0.6),
        bp_strategy(),
    )
        .prop_map(|(words, leading_space, space_skip, xspace_skip, sf_table, custom_sf, hyphenate, bp)| TextCase { words, leading_space, space_skip, xspace_skip, sf_table, custom_sf, hyphenate, bp })
}

fn item_strategy() -> impl Strategy<Value = Item> {
    prop_oneof![
        8 => "[a-z]{1,8}".prop_map(Item::Word),
        8 => glue_strategy().prop_map(Item::Glue),
        3 => prop_oneof![Just(-10000i32), Just(-50), Just(0), Just(50), Just(9999), Just(10000)].prop_map(Item::Penalty),
        2 => (0i32..5, any::<bool>()).prop_map(|(w, e)| Item::Kern(w * 30000, e)),
        2 => ("[a-z-]{0,2}", "[a-z]{0,2}", 0u8..3).prop_map(|(a, b, r)| Item::Disc(a, b, r)),
    ]
}

fn list_case_strategy() -> impl Strategy<Value = ListCase> {
    (proptest::collection::vec(item_strategy(), 1..70), bp_strategy()).prop_map(|(items, bp)| ListCase { items, bp })
}

pub fn run(ctx: &Ctx) {
    ctx.rule("text cases: 0-45 words (ligature/kern sequences, space-factor punctuation, capitals before periods, explicit hyphens, long hyphenatable words, letterless tokens) set in cmr10 through TextPreprocessorImpl with \\spaceskip/\\xspaceskip zero or not and three space-factor tables, then broken with 1-3 line widths, 0-3 indents, club/widow/broken/interline penalties, left/right/parfill skips, tolerances, emergency stretch, looseness, hyphenation on or off; list cases: hand-built lists of words, glue, penalties, explicit and implicit kerns and discretionaries with pre/post/replace parts, biased to consecutive discardables. Oracle: the list spells the words; every inter-word glue equals TeX's space-factor machine; the list left by break_line is the prepared (hyphenated) list ending in \\penalty10000 \\parfillskip; with the breakpoints recomputed by break_line_all_attempts on a clone, the line boxes and penalties must equal a transcription of TeX's post_line_break (877-890 incl. the pruning of 879) item for item, with the requested width and shift; no later line begins with a discardable. non-trivial = >=3 lines and (a break at a discretionary, a discardable run >=2 at a break, or a space factor that changes a glue); distinct by case");
    ctx.assume("cmr10 from the repository's corpus, registered as boxworks-bin does; baseline-skip glue between lines is ignored (not in the property)");
    ctx.assume("breakpoint choice itself is decided by C04, glue setting of the line boxes by C15");
    let n = ctx.tier.pick(40_000u64, 600_000u64);
    run_generated(ctx, "text_paragraphs", n, text_case_strategy, |c: &TextCase, case| text_oracle(ctx, c, case));
    let n = ctx.tier.pick(80_000u64, 1_200_000u64);
    run_generated(ctx, "hand_built_lists", n, list_case_strategy, |c: &ListCase, case| list_oracle(ctx, c, case));
}
