//! C12 Typesetting a paragraph conserves its content and honours the geometry.

use crate::engine::*;
use crate::models::tex_arith as ta;
use boxworks::ds::{self, Horizontal as H};
use boxworks::{LineBreaker as _, TextPreprocessor as _};
use boxworks_knuthplass as kp;
use common::{Glue, GlueOrder, Scaled};
use proptest::prelude::*;
use serde::{Deserialize, Serialize};

const CMR10: &str = "/repo/crates/tfm/corpus/computer-modern/cmr10.tfm";
/// A second text font with other space parameters (2.9pt plus 1.73999pt minus 0.7pt, extra space 0.7pt) that has
/// all the ASCII letters and punctuation of cmr10.
const SECOND: &str = "/repo/crates/tfm/corpus/ctan/6vcr8r.tfm";

struct Font {
    tfm: tfm::File,
    program: tfm::ligkern::CompiledProgram,
    space: i64,
    stretch: i64,
    shrink: i64,
    extra: i64,
}

fn load_font(path: &str) -> Font {
    let bytes = std::fs::read(path).unwrap_or_else(|e| {
        eprintln!("cannot read {path}: {e}");
        std::process::exit(2)
    });
    let mut tfm_file = tfm::File::deserialize(&bytes).0.expect("corpus font parses");
    let program = tfm::ligkern::CompiledProgram::compile_from_tfm_file(&mut tfm_file).0;
    let p = |n| tfm_file.named_param_scaled(n).unwrap().0 as i64;
    let (space, stretch, shrink, extra) = (p(tfm::NamedParameter::Space), p(tfm::NamedParameter::Stretch), p(tfm::NamedParameter::Shrink), p(tfm::NamedParameter::ExtraSpace));
    Font { tfm: tfm_file, program, space, stretch, shrink, extra }
}

thread_local! {
    /// corpus fonts: 0 = cmr10, 1 = the second font
    static FONTS: [Font; 2] = [load_font(CMR10), load_font(SECOND)];
}

/// Which corpus font is registered under which font id, and which id is active: `(corpus font per id, active id)`.
/// 0 is the set-up of boxworks-bin (one font, id 0); the others register two fonts, so that a font id or a
/// parameter look-up hard-wired to 0 becomes visible.
fn font_plan(setup: u8) -> (&'static [usize], u32) {
    match setup % 4 {
        0 => (&[0], 0),
        1 => (&[1, 0], 1),
        2 => (&[0, 1], 1),
        _ => (&[1, 0], 0),
    }
}

struct NoHyphenation;
impl boxworks::Hyphenator for NoHyphenation {
    fn hyphenate(&self, _list: &mut Vec<H>) {}
}

#[derive(Clone, Debug, Serialize, Deserialize)]
pub struct GlueSpec {
    pub width: i32,
    pub stretch: i32,
    pub stretch_order: u8,
    pub shrink: i32,
    pub shrink_order: u8,
}

impl GlueSpec {
    fn to_glue(&self) -> Glue {
        let o = |k: u8| [GlueOrder::Normal, GlueOrder::Fil, GlueOrder::Fill, GlueOrder::Filll][(k % 4) as usize];
        Glue { width: Scaled(self.width), stretch: Scaled(self.stretch), stretch_order: o(self.stretch_order), shrink: Scaled(self.shrink), shrink_order: o(self.shrink_order) }
    }
    fn zero() -> GlueSpec {
        GlueSpec { width: 0, stretch: 0, stretch_order: 0, shrink: 0, shrink_order: 0 }
    }
}

/// TeX compares glue parameters with the `zero_glue` pointer (TeX 887, 1041, 1043); a parameter points to `zero_glue`
/// exactly when its three amounts are zero, whatever the orders (`trap_zero_glue`, TeX 1229).
fn is_zero_glue(g: &Glue) -> bool {
    g.width.0 == 0 && g.stretch.0 == 0 && g.shrink.0 == 0
}

#[derive(Clone, Debug, Serialize, Deserialize)]
pub struct BreakParams {
    pub widths: Vec<i32>,
    pub indents: Vec<i32>,
    pub club: i32,
    pub widow: i32,
    pub broken: i32,
    pub interline: i32,
    pub left_skip: GlueSpec,
    pub right_skip: GlueSpec,
    pub par_fill_skip: GlueSpec,
    pub pre_tolerance: i32,
    pub tolerance: i32,
    pub emergency_stretch: i32,
    pub looseness: i32,
    pub hyphen_penalty: i32,
    pub ex_hyphen_penalty: i32,
    pub line_penalty: i32,
    /// What the vertical list holds before the paragraph is appended: 0 nothing, 1 a penalty, 2 a box followed by a
    /// penalty, glue and a kern, 3 the lines of a paragraph broken before with the same parameters.
    #[serde(default)]
    pub pre_vlist: u8,
}

impl BreakParams {
    fn to_params(&self) -> kp::Params {
        let mut p = kp::Params::plain_tex_defaults();
        p.club_penalty = self.club;
        p.final_widow_penalty = self.widow;
        p.broken_penalty = self.broken;
        p.inter_line_penalty = self.interline;
        p.left_skip = self.left_skip.to_glue();
        p.right_skip = self.right_skip.to_glue();
        p.par_fill_skip = self.par_fill_skip.to_glue();
        p.pre_tolerance = self.pre_tolerance;
        p.tolerance = self.tolerance;
        p.emergency_stretch = Scaled(self.emergency_stretch);
        p.looseness = self.looseness;
        p.hyphen_penalty = self.hyphen_penalty;
        p.ex_hyphen_penalty = self.ex_hyphen_penalty;
        p.line_penalty = self.line_penalty;
        p
    }
}

/// Runs of blanks as a TeX source holds them between two words of one paragraph: blanks, tabs (category 10 in
/// plain TeX) and at most one end of line. TeX's scanner (344-348) turns every such run into one space token.
const BLANKS: [&str; 9] = [" ", "  ", "\t", "\n", " \n ", "\t ", "   ", " \t", "\n  "];

fn blank(i: u8) -> &'static str {
    BLANKS[i as usize % BLANKS.len()]
}

#[derive(Clone, Debug, Serialize, Deserialize)]
pub struct TextCase {
    pub words: Vec<String>,
    pub leading_space: bool,
    pub space_skip: Option<GlueSpec>,
    pub xspace_skip: Option<GlueSpec>,
    /// 0 plain (\nonfrenchspacing), 1 \frenchspacing (all 1000), 2 custom
    pub sf_table: u8,
    pub custom_sf: Vec<(u8, i32)>,
    pub hyphenate: bool,
    pub bp: BreakParams,
    /// run of blanks after word i (index into BLANKS, used cyclically; empty: single blanks)
    #[serde(default)]
    pub seps: Vec<u8>,
    /// the leading run of blanks if `leading_space`
    #[serde(default)]
    pub lead: u8,
    /// 0: the text ends with its last word; k > 0: it ends with the run BLANKS[k-1]
    #[serde(default)]
    pub trail: u8,
    /// a text set before with the same preprocessor (its list is thrown away)
    #[serde(default)]
    pub primer: Option<String>,
    /// see `font_plan`
    #[serde(default)]
    pub font_setup: u8,
}

impl TextCase {
    fn text(&self) -> String {
        let mut t = String::new();
        if self.leading_space {
            t.push_str(blank(self.lead));
        }
        for (i, w) in self.words.iter().enumerate() {
            if i > 0 {
                t.push_str(if self.seps.is_empty() { " " } else { blank(self.seps[(i - 1) % self.seps.len()]) });
            }
            t.push_str(w);
        }
        if self.trail > 0 {
            t.push_str(blank(self.trail - 1));
        }
        t
    }
}

#[derive(Clone, Copy, Default)]
pub struct Deviations {
    /// \spaceskip is used unmodified when the space factor is not 1000 (D10)
    pub space_skip_not_modified: bool,
    /// discardable items after a break are not pruned (D9)
    pub no_pruning: bool,
}

fn sf_codes(c: &TextCase) -> boxworks_text::SpaceFactorCodes {
    let mut t = boxworks_text::SpaceFactorCodes::plain_tex_defaults();
    match c.sf_table % 3 {
        0 => {}
        1 => {
            for ch in ['.', '?', '!', ':', ';', ','] {
                t.0[ch as usize] = 1000;
            }
        }
        _ => {
            for (ch, v) in &c.custom_sf {
                t.0[*ch as usize % 128] = *v;
            }
        }
    }
    t
}

/// The value of TeX's `xn_over_d` (TeX 107) also when it sets `arith_error`: the procedure then returns the
/// intermediate `u` = floor(|x|*n / 2^15) with the sign of x. TeX 1044 uses the result without looking at `arith_error`.
fn tex_xn_over_d(x: i64, n: i64, d: i64) -> i64 {
    match ta::xn_over_d(x, n, d) {
        Some((q, _)) => q,
        None => {
            let a = x.abs();
            let t = (a % 0o100000) * n;
            let u = (a / 0o100000) * n + (t / 0o100000);
            if x >= 0 {
                u
            } else {
                -u
            }
        }
    }
}

#[derive(Default)]
struct SpaceModel {
    /// glue of the leading run of blanks (if any) and of the run after every word but the last
    glues: Vec<Glue>,
    /// the glue that a run of blanks after the last word stands for
    trailing: Option<Glue>,
    /// a glue was taken from \xspaceskip
    used_xspace: bool,
    /// \spaceskip was modified by a space factor below 1000
    modified_space_skip_small: bool,
    /// TeX 1044 set arith_error
    overflow: bool,
}

/// TeX 1034, 1041-1044
fn model_spaces(c: &TextCase, f: &Font, dev: Deviations) -> SpaceModel {
    let codes = sf_codes(c);
    let mut sf: i64 = 1000;
    let mut m = SpaceModel::default();
    let space_skip = c.space_skip.as_ref().map(|g| g.to_glue()).unwrap_or(Glue::ZERO);
    let xspace_skip = c.xspace_skip.as_ref().map(|g| g.to_glue()).unwrap_or(Glue::ZERO);
    let font_glue = Glue { width: Scaled(f.space as i32), stretch: Scaled(f.stretch as i32), stretch_order: GlueOrder::Normal, shrink: Scaled(f.shrink as i32), shrink_order: GlueOrder::Normal };
    let space = |sf: i64, m: &mut SpaceModel| -> Glue {
        if sf == 1000 {
            if !is_zero_glue(&space_skip) {
                space_skip
            } else {
                font_glue
            }
        } else if sf >= 2000 && !is_zero_glue(&xspace_skip) {
            m.used_xspace = true;
            xspace_skip
        } else {
            let from_skip = !is_zero_glue(&space_skip);
            let mut g = if from_skip { space_skip } else { font_glue };
            if from_skip && dev.space_skip_not_modified {
                return g;
            }
            if from_skip && sf < 1000 {
                m.modified_space_skip_small = true;
            }
            if sf >= 2000 {
                g.width = Scaled((g.width.0 as i64 + f.extra) as i32);
            }
            if ta::xn_over_d(g.stretch.0 as i64, sf, 1000).is_none() || ta::xn_over_d(g.shrink.0 as i64, 1000, sf).is_none() {
                m.overflow = true;
            }
            g.stretch = Scaled(tex_xn_over_d(g.stretch.0 as i64, sf, 1000) as i32);
            g.shrink = Scaled(tex_xn_over_d(g.shrink.0 as i64, 1000, sf) as i32);
            g
        }
    };
    for (i, w) in c.words.iter().enumerate() {
        if i > 0 || c.leading_space {
            let g = space(sf, &mut m);
            m.glues.push(g);
        }
        for ch in w.chars() {
            let s = codes.0.get(ch as usize).copied().unwrap_or(1000) as i64;
            if s == 1000 {
                sf = 1000;
            } else if s < 1000 {
                if s > 0 {
                    sf = s;
                }
            } else if sf < 1000 {
                sf = 1000;
            } else {
                sf = s;
            }
        }
    }
    let mut scratch = SpaceModel::default();
    m.trailing = Some(space(sf, &mut scratch));
    m
}

fn discardable(h: &H) -> bool {
    match h {
        H::Glue(_) | H::Penalty(_) | H::Math(_) => true,
        H::Kern(k) => k.kind == ds::KernKind::Explicit,
        _ => false,
    }
}

/// A line as TeX builds it.
#[derive(Debug)]
struct ELine {
    list: Vec<H>,
    /// positions of the glue items inserted by the line breaker (\leftskip, \rightskip, \parfillskip); only the
    /// glue value of these is compared
    inserted: Vec<usize>,
    /// position of what TeX leaves of the item the line was broken at (the penalty, the kern with its width set to
    /// zero, the emptied discretionary). The statement counts it as dropped, TeX keeps it: both are accepted.
    remnant: Option<usize>,
    /// number of items at the start of the line (after \leftskip) that are the post-break list of the
    /// discretionary at which the line before was broken
    post_len: usize,
    width: Scaled,
    /// None: neither the documentation nor TeX's \parshape says what the indent of this line is
    shift: Option<Scaled>,
}

#[derive(Debug)]
enum EItem {
    Line(ELine),
    Penalty(i32),
}

#[derive(Debug, PartialEq)]
enum VItem {
    Line { list: Vec<H>, width: Scaled, shift: Scaled },
    Penalty(i32),
}

/// TeX 877-890 with the pruning of 879.
fn model_post_line_break(h: &[H], bps: &[usize], p: &kp::Params, widths: &[Scaled], indents: &[Scaled], dev: Deviations) -> Vec<EItem> {
    let mut out = vec![];
    let mut start = 0usize;
    let mut pending_post: Vec<ds::DiscretionaryElem> = vec![];
    let n = bps.len();
    for (li, &bp) in bps.iter().enumerate() {
        let mut line: Vec<H> = vec![];
        let mut inserted = vec![];
        let mut remnant = None;
        if !is_zero_glue(&p.left_skip) {
            inserted.push(line.len());
            line.push(H::Glue(ds::Glue { value: p.left_skip, kind: ds::GlueKind::Normal }));
        }
        let post_len = pending_post.len();
        for e in pending_post.drain(..) {
            line.push(e.into());
        }
        let bp_c = bp.min(h.len());
        if start < bp_c {
            let at = line.len();
            line.extend_from_slice(&h[start..bp_c]);
            // the last item of the list that was broken is the \parfillskip glue
            if li + 1 == n && bp_c == h.len() && matches!(h.last(), Some(H::Glue(_))) {
                inserted.push(at + (bp_c - start) - 1);
            }
        }
        let mut next_start = bp + 1;
        let mut disc_break = false;
        if let Some(node) = h.get(bp) {
            match node {
                H::Discretionary(d) => {
                    remnant = Some(line.len());
                    line.push(H::Discretionary(ds::Discretionary::default()));
                    for e in &d.pre_break {
                        line.push(e.clone().into());
                    }
                    pending_post = d.post_break.clone();
                    next_start += d.replace_count as usize;
                    disc_break = true;
                }
                H::Kern(k) => {
                    let mut k = k.clone();
                    k.width = Scaled::ZERO;
                    remnant = Some(line.len());
                    line.push(H::Kern(k));
                }
                H::Glue(_) => {}
                other => {
                    remnant = Some(line.len());
                    line.push(other.clone())
                }
            }
        }
        inserted.push(line.len());
        line.push(H::Glue(ds::Glue { value: p.right_skip, kind: ds::GlueKind::Normal }));
        if li + 1 < n && pending_post.is_empty() && !dev.no_pruning {
            let limit = bps[li + 1].min(h.len());
            while next_start < limit && discardable(&h[next_start]) {
                next_start += 1;
            }
        }
        start = next_start;
        // Lines beyond the sequences: the last width is repeated, as the last line of a \parshape is (TeX 847-850).
        // The indent of such a line is determined if the indents pair up with the widths (again \parshape) or if
        // there are none (no indentation was asked for); otherwise nothing says what it is.
        let width = *widths.get(li).unwrap_or(widths.last().unwrap());
        let shift = match indents.get(li) {
            Some(s) => Some(*s),
            None if indents.is_empty() => Some(Scaled::ZERO),
            None if indents.len() == widths.len() => indents.last().copied(),
            None => None,
        };
        out.push(EItem::Line(ELine { list: line, inserted, remnant, post_len, width, shift }));
        if li + 1 != n {
            let mut pen = p.inter_line_penalty;
            if li == 0 {
                pen += p.club_penalty;
            }
            if li + 2 == n {
                pen += p.final_widow_penalty;
            }
            if disc_break {
                pen += p.broken_penalty;
            }
            if pen != 0 {
                out.push(EItem::Penalty(pen));
            }
        }
    }
    out
}

/// Lines and penalties of a vertical list. Glue (\baselineskip, \parskip) and kerns between the lines, marks and
/// insertions are not the property's business.
fn observed_items(v: &[ds::Vertical]) -> Result<Vec<VItem>, String> {
    let mut out = vec![];
    for e in v {
        match e {
            ds::Vertical::HBox(b) => out.push(VItem::Line { list: b.list.clone(), width: b.width, shift: b.shift_amount }),
            ds::Vertical::Penalty(p) => out.push(VItem::Penalty(p.0)),
            ds::Vertical::Glue(_) | ds::Vertical::Kern(_) | ds::Vertical::Mark(_) | ds::Vertical::Insertion(_) | ds::Vertical::Whatsit(_) => {}
            other => return Err(format!("unexpected item in the vertical list: {:?}", other)),
        }
    }
    Ok(out)
}

fn show_elems(l: &[ds::DiscretionaryElem]) -> String {
    let v: Vec<H> = l.iter().map(|e| e.clone().into()).collect();
    show_list(&v)
}

fn show_list(l: &[H]) -> String {
    let mut s = String::new();
    for h in l {
        match h {
            H::Char(c) if c.font == 0 => s.push(c.char),
            H::Char(c) => s.push_str(&format!("{}/{}", c.char, c.font)),
            H::Ligature(l) => s.push_str(&format!("<{}={}>", l.char, l.original_chars.as_ref() as &str)),
            H::Glue(g) => s.push_str(&format!("[glue {}]", g.value)),
            H::Kern(k) => s.push_str(&format!("[kern {} {:?}]", k.width, k.kind)),
            H::Penalty(p) => s.push_str(&format!("[pen {}]", p.0)),
            H::Discretionary(d) if d.pre_break.is_empty() && d.post_break.is_empty() => s.push_str(&format!("[disc r{}]", d.replace_count)),
            H::Discretionary(d) => s.push_str(&format!("[disc pre{{{}}} post{{{}}} r{}]", show_elems(&d.pre_break), show_elems(&d.post_break), d.replace_count)),
            H::Rule(r) => s.push_str(&format!("[rule {}]", r.width)),
            H::HBox(b) => s.push_str(&format!("[hbox {} {{{}}}]", b.width, show_list(&b.list))),
            other => s.push_str(&format!("[{:?}]", other)),
        }
    }
    s
}

/// `want` (without the item at `skip`) against `got`; of the inserted skips only the glue value counts.
fn same_list(want: &[H], inserted: &[usize], skip: Option<usize>, got: &[H]) -> bool {
    let n = want.len() - if skip.is_some() { 1 } else { 0 };
    if got.len() != n {
        return false;
    }
    let mut j = 0;
    for (i, w) in want.iter().enumerate() {
        if Some(i) == skip {
            continue;
        }
        let g = &got[j];
        j += 1;
        let same = match (w, g) {
            (H::Glue(a), H::Glue(b)) if inserted.contains(&i) => a.value == b.value,
            _ => w == g,
        };
        if !same {
            return false;
        }
    }
    true
}

fn compare_vlists(expected: &[EItem], got: &[VItem]) -> Result<(), String> {
    for (i, (e, g)) in expected.iter().zip(got.iter()).enumerate() {
        match (e, g) {
            (EItem::Line(e), VItem::Line { list, width, shift }) => {
                if e.width != *width || e.shift.map(|s| s != *shift).unwrap_or(false) {
                    return Err(format!("item {i}: line box has width {} shift {}, expected width {} shift {}", width, shift, e.width, e.shift.unwrap_or(*shift)));
                }
                if !same_list(&e.list, &e.inserted, None, list) && !(e.remnant.is_some() && same_list(&e.list, &e.inserted, e.remnant, list)) {
                    return Err(format!("item {i}: line contents differ\n  expected: {}\n  got:      {}", show_list(&e.list), show_list(list)));
                }
            }
            (EItem::Penalty(a), VItem::Penalty(b)) if a == b => {}
            _ => return Err(format!("item {i}: expected {}, got {}", short_e(e), short(g))),
        }
    }
    if expected.len() != got.len() {
        return Err(format!("{} items expected (lines and penalties), {} produced", expected.len(), got.len()));
    }
    Ok(())
}

fn short(v: &VItem) -> String {
    match v {
        VItem::Line { list, .. } => format!("line {}", show_list(list)),
        VItem::Penalty(p) => format!("penalty {}", p),
    }
}

fn short_e(v: &EItem) -> String {
    match v {
        EItem::Line(l) => format!("line {}", show_list(&l.list)),
        EItem::Penalty(p) => format!("penalty {}", p),
    }
}

#[derive(Default)]
struct BreakStats {
    lines: usize,
    disc_break: bool,
    run2: bool,
    known: Option<String>,
    disc_post: bool,
    disc_replace: bool,
    disc_then_discardable: bool,
    kern_break: bool,
    penalty_break: bool,
    beyond_widths: bool,
    indent_undetermined: bool,
    more_indents_than_widths: bool,
    list_as_prepared: bool,
    pre_vlist: bool,
    empty_last_line: bool,
}

impl BreakStats {
    fn classes(&self, case: &mut Case) {
        case.class_if(self.lines >= 3, "lines>=3");
        case.class_if(self.lines == 2, "lines=2 (club and widow penalty on one break)");
        case.class_if(self.lines == 1, "lines=1");
        case.class_if(self.disc_break, "break at a discretionary");
        case.class_if(self.run2, "discardable run>=2 at a break");
        case.class_if(self.disc_post, "break at a discretionary with post-break material");
        case.class_if(self.disc_replace, "break at a discretionary that replaces nodes");
        case.class_if(self.disc_then_discardable, "break at a discretionary followed by discardables");
        case.class_if(self.kern_break, "break at a kern");
        case.class_if(self.penalty_break, "break at a penalty");
        case.class_if(self.beyond_widths, "more lines than widths");
        case.class_if(self.indent_undetermined, "line whose indent is not determined (not compared)");
        case.class_if(self.more_indents_than_widths, "more indents than widths");
        case.class_if(!self.list_as_prepared, "break_line leaves another list than the prepared one");
        case.class_if(self.pre_vlist, "appended to a non-empty vertical list");
        case.class_if(self.empty_last_line, "last line holds only the skips");
    }
}

/// What the vertical list holds before the paragraph is appended.
fn pre_vlist(kind: u8, params: &kp::Params, widths: &[Scaled], indents: &[Scaled], font_repo: &boxworks_text::TfmFontRepo) -> Vec<ds::Vertical> {
    let ch = |c: char| H::Char(ds::Char { char: c, font: 0 });
    match kind % 4 {
        0 => vec![],
        1 => vec![ds::Vertical::Penalty(ds::Penalty(12345))],
        2 => {
            let b = ds::HBox::pack(font_repo, vec![ch('g'), ch('y')], ds::PackWidth::Additional(Scaled::ZERO));
            vec![ds::Vertical::HBox(b), ds::Vertical::Penalty(ds::Penalty(-3)), ds::Vertical::Glue(ds::Glue { value: Glue { width: Scaled(65536), ..Glue::ZERO }, kind: ds::GlueKind::Normal }), ds::Vertical::Kern(ds::Kern { width: Scaled(131072), kind: ds::KernKind::Explicit })]
        }
        _ => {
            let g = H::Glue(ds::Glue { value: Glue { width: Scaled(3 * 65536), stretch: Scaled(65536), ..Glue::ZERO }, kind: ds::GlueKind::Normal });
            let mut h = vec![ch('p'), ch('q'), g.clone(), ch('g'), ch('y'), H::Penalty(ds::Penalty(-10000)), ch('j'), g, ch('b')];
            let mut v = vec![];
            kp::LineBreaker { params, line_widths: widths, line_indents: indents, debug_logger: None, hyphenator: &NoHyphenation }.break_line(font_repo, &mut v, &mut h);
            v
        }
    }
}

/// Break `h0` (a paragraph's horizontal list before TeX 816) and compare with the model.
fn check_breaking(ctx: &Ctx, h0: &[H], bp: &BreakParams, hyphenator: &dyn boxworks::Hyphenator, fonts: &[&Font], dev_known: &[(&'static str, Deviations)]) -> Result<BreakStats, Verdict> {
    let params = bp.to_params();
    let widths: Vec<Scaled> = bp.widths.iter().map(|w| Scaled(*w)).collect();
    let indents: Vec<Scaled> = bp.indents.iter().map(|w| Scaled(*w)).collect();
    let mut font_repo = boxworks_text::TfmFontRepo::default();
    for (id, f) in fonts.iter().enumerate() {
        font_repo.register_font(id as u32, f.tfm.clone());
    }
    let panicked = |what: &str, info: panics::PanicInfo| -> Verdict {
        if ctx.known(&info.signature()) {
            Verdict::Known(info.signature())
        } else {
            Verdict::Fail(format!("{} panicked at {}: {}\n  list: {}", what, info.site(), info.message, show_list(h0)))
        }
    };
    // the real thing, appended to what the vertical list holds already
    let prefix = panics::catch(|| pre_vlist(bp.pre_vlist, &params, &widths, &indents, &font_repo)).map_err(|i| panicked("break_line (of the paragraph set before)", i))?;
    let mut vlist: Vec<ds::Vertical> = prefix.clone();
    let mut h_list: Vec<H> = h0.to_vec();
    panics::catch(|| kp::LineBreaker { params: &params, line_widths: &widths, line_indents: &indents, debug_logger: None, hyphenator }.break_line(&font_repo, &mut vlist, &mut h_list)).map_err(|i| panicked("break_line", i))?;
    // the list that is broken, prepared as TeX 816 prepares it, and its breakpoints
    let mut clone: Vec<H> = h0.to_vec();
    if matches!(clone.last(), Some(H::Glue(_))) {
        clone.pop();
    }
    clone.push(H::Penalty(ds::Penalty::INFINITE));
    clone.push(H::Glue(ds::Glue { kind: ds::GlueKind::Normal, value: params.par_fill_skip }));
    let mut dummy: Vec<ds::Vertical> = vec![];
    let bps = panics::catch(|| kp::LineBreaker { params: &params, line_widths: &widths, line_indents: &indents, debug_logger: None, hyphenator }.break_line_all_attempts(&font_repo, hyphenator, &mut dummy, &mut clone)).map_err(|i| panicked("break_line_all_attempts", i))?;
    let fail = |m: String| Verdict::Fail(m);
    // What break_line leaves in the caller's list is nobody's promise (TeX consumes the list); `clone`, now
    // hyphenated if a second pass ran, is the list that was broken.
    let mut st = BreakStats { list_as_prepared: clone == h_list, pre_vlist: !prefix.is_empty(), ..Default::default() };
    let h_list = clone;
    let n = h_list.len();
    // breakpoints are strictly increasing, the last one is the end of the list: the paragraph has at least one line
    // and nothing behind the last break is left over
    for w in bps.windows(2) {
        if w[0] >= w[1] {
            return Err(fail(format!("breakpoints are not increasing: {:?}", bps)));
        }
    }
    if bps.last() != Some(&n) {
        return Err(fail(format!("the last breakpoint is not the end of the list ({} items): {:?}\n  list: {}", n, bps, show_list(&h_list))));
    }
    // what the vertical list held before is still there
    if vlist.len() < prefix.len() || vlist[..prefix.len()] != prefix[..] {
        return Err(fail(format!("the items that the vertical list held before the paragraph was appended have changed\n  before: {:?}\n  after: {:?}", prefix, &vlist[..prefix.len().min(vlist.len())])));
    }
    let got = observed_items(&vlist[prefix.len()..]).map_err(fail)?;
    st.lines = bps.len();
    for (i, b) in bps.iter().enumerate() {
        let Some(node) = h_list.get(*b) else { continue };
        let after = |k: usize| h_list.get(*b + k).map(discardable).unwrap_or(false) && *b + k + 1 < n;
        match node {
            H::Discretionary(d) => {
                st.disc_break = true;
                st.disc_post |= !d.post_break.is_empty();
                st.disc_replace |= d.replace_count > 0;
                let next = *b + 1 + d.replace_count as usize;
                st.disc_then_discardable |= d.post_break.is_empty() && after(1 + d.replace_count as usize) && bps.get(i + 1).map(|nb| *nb > next).unwrap_or(false);
            }
            H::Kern(_) => st.kern_break = true,
            H::Penalty(_) => st.penalty_break = true,
            _ => {}
        }
        if discardable(node) && after(1) {
            st.run2 = true;
        }
    }
    st.beyond_widths = bps.len() > widths.len();
    st.more_indents_than_widths = indents.len() > widths.len();
    let expected = model_post_line_break(&h_list, &bps, &params, &widths, &indents, Deviations::default());
    st.indent_undetermined = expected.iter().any(|e| matches!(e, EItem::Line(l) if l.shift.is_none()));
    st.empty_last_line = matches!(expected.last(), Some(EItem::Line(l)) if l.list.len() == 1 + if is_zero_glue(&params.left_skip) { 0 } else { 1 });
    match compare_vlists(&expected, &got) {
        Ok(()) => {}
        Err(e) => {
            for (name, dev) in dev_known {
                let e2 = model_post_line_break(&h_list, &bps, &params, &widths, &indents, *dev);
                if compare_vlists(&e2, &got).is_ok() {
                    st.known = Some(name.to_string());
                    return Ok(st);
                }
            }
            return Err(fail(format!("{}\n  list: {}\n  breakpoints: {:?}", e, show_list(&h_list), bps)));
        }
    }
    // no line but the first begins with discardable material (the pre-break and post-break lists of a
    // discretionary are not discardable whatever they hold: TeX 877, 882 prune nothing behind a post-break list)
    let got_lines = got.iter().filter_map(|it| if let VItem::Line { list, .. } = it { Some(list) } else { None });
    let want_lines = expected.iter().filter_map(|it| if let EItem::Line(l) = it { Some(l) } else { None });
    for (li, (list, want)) in got_lines.zip(want_lines).enumerate() {
        if li == 0 || want.post_len > 0 {
            continue;
        }
        let k = if is_zero_glue(&params.left_skip) { 0 } else { 1 };
        // a line that holds nothing before its own break item begins with the remnant of that item or, where the
        // remnant is dropped, with the pre-break list
        if want.remnant == Some(k) {
            continue;
        }
        if let Some(x) = list.get(k) {
            // an otherwise empty line holds just the item it was broken at (e.g. the second of
            // two forced breaks in a row) and the right skip: that is TeX's output too
            if discardable(x) && k + 2 < list.len() {
                return Err(fail(format!("a line begins with discardable material: {}", show_list(list))));
            }
        }
    }
    Ok(st)
}

fn text_oracle(ctx: &Ctx, c: &TextCase, case: &mut Case) -> Verdict {
    FONTS.with(|fs| {
        let text = c.text();
        let (plan, active) = font_plan(c.font_setup);
        let fonts: Vec<&Font> = plan.iter().map(|i| &fs[*i]).collect();
        let f = fonts[active as usize];
        case.note = Some(format!("text={:?} primer={:?} fonts={:?} active={} widths={:?} spaceskip={:?} xspaceskip={:?} sf_table={} hyphenate={}", text, c.primer, plan, active, c.bp.widths, c.space_skip, c.xspace_skip, c.sf_table, c.hyphenate));
        let params = boxworks_text::Params {
            space_factor_codes: sf_codes(c),
            space_skip: c.space_skip.as_ref().map(|g| g.to_glue()).unwrap_or(Glue::ZERO),
            extra_space_skip: c.xspace_skip.as_ref().map(|g| g.to_glue()).unwrap_or(Glue::ZERO),
        };
        let mut tp = boxworks_text::TextPreprocessorImpl::new(params);
        for (id, f) in fonts.iter().enumerate() {
            tp.register_font(id as u32, &f.tfm, f.program.clone());
        }
        tp.activate_font(active);
        let mut h0: Vec<H> = vec![];
        let r = panics::catch(|| {
            // one preprocessor serves all the paragraphs of a document (boxworks-bin): every paragraph starts
            // with the space factor 1000 whatever the one before ended with (TeX 1091: push_nest; space_factor:=1000)
            if let Some(p) = &c.primer {
                let mut scratch: Vec<H> = vec![];
                tp.add_text(p, &mut scratch);
            }
            tp.add_text(&text, &mut h0);
        });
        if let Err(info) = r {
            if ctx.known(&info.signature()) {
                return Verdict::Known(info.signature());
            }
            return Verdict::Fail(format!("add_text panicked at {}: {}\n  text: {:?} primer={:?} spaceskip={:?} xspaceskip={:?} sf_table={} custom_sf={:?}", info.site(), info.message, text, c.primer, c.space_skip, c.xspace_skip, c.sf_table, c.custom_sf));
        }
        // (1) the list spells the words
        let mut segs: Vec<String> = vec![String::new()];
        let mut glues: Vec<Glue> = vec![];
        let mut hyphen_last = false; // the node before is a character or ligature that ends with a hyphen
        let mut discs = 0;
        for h in &h0 {
            let mut hyphen = false;
            match h {
                H::Char(ch) => {
                    if ch.font != active {
                        return Verdict::Fail(format!("character {:?} is set in font {}, the active font is {}\n  text: {:?}", ch.char, ch.font, active, text));
                    }
                    segs.last_mut().unwrap().push(ch.char);
                    hyphen = ch.char == '-';
                }
                H::Ligature(l) => {
                    if l.font != active {
                        return Verdict::Fail(format!("ligature {:?} is set in font {}, the active font is {}\n  text: {:?}", l.char, l.font, active, text));
                    }
                    segs.last_mut().unwrap().push_str(l.original_chars.as_ref());
                    hyphen = l.original_chars.ends_with('-');
                }
                H::Glue(g) => {
                    glues.push(g.value);
                    segs.push(String::new());
                }
                // TeX 1040: a font kern is a normal kern (an explicit one would be a breakpoint and discardable)
                H::Kern(k) => {
                    if k.kind != ds::KernKind::Normal {
                        return Verdict::Fail(format!("the text preprocessor made a kern of kind {:?}; TeX's font kerns are normal kerns\n  text: {:?}\n  list: {}", k.kind, text, show_list(&h0)));
                    }
                }
                // TeX 1035, 1039: the only discretionary made from characters is the empty one after the hyphen
                // character; one that holds material would print it a second time when the break is taken
                H::Discretionary(d) => {
                    if *d != ds::Discretionary::default() {
                        return Verdict::Fail(format!("the text preprocessor made a discretionary that is not empty: material would be duplicated or lost at a break\n  text: {:?}\n  list: {}", text, show_list(&h0)));
                    }
                    if !hyphen_last {
                        return Verdict::Fail(format!("the text preprocessor made a discretionary that does not follow a hyphen\n  text: {:?}\n  list: {}", text, show_list(&h0)));
                    }
                    discs += 1;
                }
                other => return Verdict::Fail(format!("unexpected node from the text preprocessor: {:?}", other)),
            }
            hyphen_last = hyphen;
        }
        let model = model_spaces(c, f, Deviations::default());
        let has_trailing_blank = c.trail > 0 || (c.words.is_empty() && c.leading_space);
        // A run of blanks at the end of the text: TeX appends a glue that the end of the paragraph removes again
        // (TeX 816); with or without it the paragraph is the same.
        let trailing_glue = has_trailing_blank && segs.len() >= 2 && segs.last().map(|s| s.is_empty()).unwrap_or(false) && glues.len() == model.glues.len() + 1;
        if trailing_glue {
            segs.pop();
        }
        let mut want_segs: Vec<String> = c.words.clone();
        if c.leading_space {
            want_segs.insert(0, String::new());
        }
        if want_segs.is_empty() {
            want_segs.push(String::new());
        }
        if segs != want_segs {
            return Verdict::Fail(format!("the horizontal list does not spell the input words\n  text: {:?}\n  list: {}\n  spelled: {:?}", text, show_list(&h0), segs));
        }
        // (2) inter-word glue follows the space-factor rules
        let mut want_glue = model.glues.clone();
        if trailing_glue {
            want_glue.extend(model.trailing);
        }
        let mut known: Option<&'static str> = None;
        if glues != want_glue {
            let d = Deviations { space_skip_not_modified: true, ..Default::default() };
            let mut dev_glue = model_spaces(c, f, d).glues;
            if trailing_glue {
                dev_glue.extend(model.trailing);
            }
            if ctx.known("flag:space_skip_not_modified") && glues == dev_glue {
                known = Some("flag:space_skip_not_modified");
            } else {
                let i = glues.iter().zip(want_glue.iter()).position(|(a, b)| a != b).unwrap_or(0);
                return Verdict::Fail(format!(
                    "inter-word glue #{} is {}, TeX's space-factor rules give {}\n  text: {:?} primer={:?} font: {}sp plus {}sp minus {}sp, extra space {}sp spaceskip={:?} xspaceskip={:?} sf_table={} custom_sf={:?}",
                    i,
                    glues.get(i).map(|g| g.to_string()).unwrap_or_default(),
                    want_glue.get(i).map(|g| g.to_string()).unwrap_or_default(),
                    text,
                    c.primer,
                    f.space,
                    f.stretch,
                    f.shrink,
                    f.extra,
                    c.space_skip,
                    c.xspace_skip,
                    c.sf_table,
                    c.custom_sf
                ));
            }
        }
        let sf_nontrivial = glues.iter().any(|g| *g != glues[0]);
        case.class_if(sf_nontrivial, "space factor changes a glue");
        case.class_if(c.space_skip.is_some(), "spaceskip set");
        case.class_if(c.xspace_skip.is_some(), "xspaceskip set");
        case.class_if(model.used_xspace, "glue taken from xspaceskip (sf>=2000)");
        case.class_if(model.modified_space_skip_small, "spaceskip modified by sf<1000");
        case.class_if(model.overflow, "TeX 1044 overflows (arith_error ignored)");
        let shape = |g: &Option<GlueSpec>| g.as_ref().map(|g| (g.width == 0 && (g.stretch != 0 || g.shrink != 0), g.width < 0 || g.stretch < 0 || g.shrink < 0, g.width == 0 && g.stretch == 0 && g.shrink == 0)).unwrap_or((false, false, false));
        let (s1, s2) = (shape(&c.space_skip), shape(&c.xspace_skip));
        case.class_if(s1.0 || s2.0, "skip with zero width but stretch or shrink");
        case.class_if(s1.1 || s2.1, "skip with a negative component");
        case.class_if(s1.2 || s2.2, "skip given but zero (possibly with an infinite order)");
        case.class_if(c.leading_space && !c.words.is_empty(), "leading blanks");
        case.class_if(text.contains("  ") || text.contains('\t') || text.contains('\n'), "runs of blanks, tabs, ends of line");
        case.class_if(has_trailing_blank, "trailing blanks");
        case.class_if(trailing_glue, "trailing blanks gave a glue");
        case.class_if(c.primer.is_some(), "preprocessor reused (primer paragraph)");
        case.class_if(c.primer.is_some() && c.leading_space && !c.words.is_empty(), "preprocessor reused, paragraph starts with a glue");
        case.class_if(plan.len() > 1, "two fonts registered");
        case.class_if(active != 0, "active font id 1");
        case.class_if(plan[active as usize] == 1, "text set in the second font");
        case.class_if(discs > 0, "explicit hyphen with discretionary");
        if c.words.is_empty() {
            return Verdict::pass(false);
        }
        // (3)-(5) line breaking
        let mut devs: Vec<(&'static str, Deviations)> = vec![];
        if ctx.known("flag:no_pruning_after_break") {
            devs.push(("flag:no_pruning_after_break", Deviations { no_pruning: true, ..Default::default() }));
        }
        let hy = boxworks_hyphenate::Hyphenator::plain_tex_en_us(f.program.clone());
        let r = if c.hyphenate { check_breaking(ctx, &h0, &c.bp, &hy, &fonts, &devs) } else { check_breaking(ctx, &h0, &c.bp, &NoHyphenation, &fonts, &devs) };
        match r {
            Ok(st) => {
                st.classes(case);
                if let Some(k) = st.known.clone().or(known.map(|k| k.to_string())) {
                    return Verdict::Known(k);
                }
                Verdict::pass(st.lines >= 3 && (st.disc_break || st.run2 || sf_nontrivial))
            }
            Err(Verdict::Fail(e)) => Verdict::Fail(format!("{}\n  text: {:?}", e, text)),
            Err(v) => v,
        }
    })
}

// ---- hand-built lists

/// Element of a pre-break or post-break list.
#[derive(Clone, Debug, Serialize, Deserialize)]
pub enum DElem {
    /// character, font id
    Char(char, u8),
    /// width, kind (0 normal, 1 explicit, 2 accent, 3 math)
    Kern(i32, u8),
    /// width
    Rule(i32),
    /// ligature character, original characters
    Lig(char, String),
}

#[derive(Clone, Debug, Serialize, Deserialize)]
pub enum Item {
    Word(String),
    Glue(GlueSpec),
    Penalty(i32),
    Kern(i32, bool),
    /// pre-break, post-break, replace count
    Disc(String, String, u8),
    /// width, kind (0 normal, 1 explicit, 2 accent, 3 math)
    KernK(i32, u8),
    /// width, height, depth
    Rule(i32, i32, i32),
    /// an hbox of natural width around these characters
    Box(String),
    /// a word in font id 1
    Word1(String),
    /// ligature character, original characters
    Lig(char, String),
    /// pre-break, post-break, replace count; the count covers characters, ligatures, kerns of every kind, rules, boxes
    DiscX(Vec<DElem>, Vec<DElem>, u8),
}

fn kern_kind(k: u8) -> ds::KernKind {
    [ds::KernKind::Normal, ds::KernKind::Explicit, ds::KernKind::Accent, ds::KernKind::Math][k as usize % 4]
}

fn lig(c: char, orig: &str, font: u32) -> ds::Ligature {
    ds::Ligature { char: c, font, original_chars: orig.into(), includes_left_boundary: false, includes_right_boundary: false }
}

#[derive(Clone, Debug, Serialize, Deserialize)]
pub struct ListCase {
    pub items: Vec<Item>,
    pub bp: BreakParams,
}

fn list_oracle(ctx: &Ctx, c: &ListCase, case: &mut Case) -> Verdict {
    FONTS.with(|fs| {
        let fonts: Vec<&Font> = vec![&fs[0], &fs[1]];
        let mut font_repo = boxworks_text::TfmFontRepo::default();
        for (id, f) in fonts.iter().enumerate() {
            font_repo.register_font(id as u32, f.tfm.clone());
        }
        let ch = |c: char| ds::Char { char: c, font: 0 };
        let mut h0: Vec<H> = vec![];
        // (node, requested replace count of the discretionary there, whether it may cover every kind of node that a
        // replace list can hold (TeX 1121) or, as in the first version of this check, characters and normal kerns only)
        let mut wants: Vec<(usize, u8, bool)> = vec![];
        let mut kinds = [false; 4];
        let (mut rule_or_box, mut font1, mut rich_disc, mut lig_item) = (false, false, false, false);
        for it in &c.items {
            match it {
                Item::Word(w) => {
                    for x in w.chars() {
                        h0.push(H::Char(ch(x)));
                    }
                }
                Item::Word1(w) => {
                    font1 = true;
                    for x in w.chars() {
                        h0.push(H::Char(ds::Char { char: x, font: 1 }));
                    }
                }
                Item::Lig(l, orig) => {
                    lig_item = true;
                    h0.push(H::Ligature(lig(*l, orig, 0)))
                }
                Item::Glue(g) => h0.push(H::Glue(ds::Glue { value: g.to_glue(), kind: ds::GlueKind::Normal })),
                Item::Penalty(p) => h0.push(H::Penalty(ds::Penalty(*p))),
                Item::Kern(w, explicit) => h0.push(H::Kern(ds::Kern { width: Scaled(*w), kind: if *explicit { ds::KernKind::Explicit } else { ds::KernKind::Normal } })),
                Item::KernK(w, k) => {
                    kinds[*k as usize % 4] = true;
                    h0.push(H::Kern(ds::Kern { width: Scaled(*w), kind: kern_kind(*k) }))
                }
                Item::Rule(w, h, d) => {
                    rule_or_box = true;
                    h0.push(H::Rule(ds::Rule { width: Scaled(*w), height: Scaled(*h), depth: Scaled(*d) }))
                }
                Item::Box(w) => {
                    rule_or_box = true;
                    h0.push(H::HBox(ds::HBox::pack(&font_repo, w.chars().map(|x| H::Char(ch(x))).collect(), ds::PackWidth::Additional(Scaled::ZERO))))
                }
                Item::Disc(pre, post, r) => {
                    let d = ds::Discretionary { pre_break: pre.chars().map(|x| ch(x).into()).collect(), post_break: post.chars().map(|x| ch(x).into()).collect(), replace_count: 0 };
                    wants.push((h0.len(), *r % 3, false));
                    h0.push(H::Discretionary(d));
                }
                Item::DiscX(pre, post, r) => {
                    rich_disc |= pre.iter().chain(post.iter()).any(|e| !matches!(e, DElem::Char(..)));
                    let conv = |l: &Vec<DElem>| -> Vec<ds::DiscretionaryElem> {
                        l.iter()
                            .map(|e| match e {
                                DElem::Char(x, f) => ds::DiscretionaryElem::Char(ds::Char { char: *x, font: (*f % 2) as u32 }),
                                DElem::Kern(w, k) => ds::DiscretionaryElem::Kern(ds::Kern { width: Scaled(*w), kind: kern_kind(*k) }),
                                DElem::Rule(w) => ds::DiscretionaryElem::Rule(ds::Rule { width: Scaled(*w), height: Scaled(65536), depth: Scaled::ZERO }),
                                DElem::Lig(l, orig) => ds::DiscretionaryElem::Ligature(lig(*l, orig, 0)),
                            })
                            .collect()
                    };
                    wants.push((h0.len(), *r % 4, true));
                    h0.push(H::Discretionary(ds::Discretionary { pre_break: conv(pre), post_break: conv(post), replace_count: 0 }));
                }
            }
        }
        // replace counts cover following non-discardable material only
        for (i, want, wide) in wants {
            let mut k = 0u32;
            while k < want as u32
                && match h0.get(i + 1 + k as usize) {
                    Some(H::Char(_)) | Some(H::Kern(ds::Kern { kind: ds::KernKind::Normal, .. })) => true,
                    Some(H::Kern(_)) | Some(H::Ligature(_)) | Some(H::Rule(_)) | Some(H::HBox(_)) => wide,
                    _ => false,
                }
            {
                k += 1;
            }
            if let H::Discretionary(d) = &mut h0[i] {
                d.replace_count = k;
            }
        }
        case.note = Some(format!("list={} widths={:?}", show_list(&h0), c.bp.widths));
        let mut devs: Vec<(&'static str, Deviations)> = vec![];
        if ctx.known("flag:no_pruning_after_break") {
            devs.push(("flag:no_pruning_after_break", Deviations { no_pruning: true, ..Default::default() }));
        }
        match check_breaking(ctx, &h0, &c.bp, &NoHyphenation, &fonts, &devs) {
            Ok(st) => {
                st.classes(case);
                case.class_if(kinds[0] || kinds[1], "kern item normal/explicit (new form)");
                case.class_if(kinds[2], "accent kern");
                case.class_if(kinds[3], "math kern");
                case.class_if(rule_or_box, "rule or box item");
                case.class_if(font1, "characters of font 1");
                case.class_if(lig_item, "ligature item");
                case.class_if(rich_disc, "discretionary with kerns, rules, ligatures");
                if let Some(k) = st.known {
                    return Verdict::Known(k);
                }
                Verdict::pass(st.lines >= 3 && (st.disc_break || st.run2))
            }
            Err(v) => v,
        }
    })
}

// ---- strategies

fn pt(x: i32) -> i32 {
    x * 65536
}

const MAX_DIMEN: i32 = (1 << 30) - 1;

fn glue_strategy() -> impl Strategy<Value = GlueSpec> {
    (0i32..8, 0i32..6, prop_oneof![9 => Just(0u8), 1 => 1u8..4], 0i32..4).prop_map(|(w, st, so, sh)| GlueSpec { width: pt(w) + 13107, stretch: pt(st) / 2, stretch_order: so, shrink: pt(sh) / 3, shrink_order: 0 })
}

/// \spaceskip and \xspaceskip: the everyday values of `glue_strategy`, the shapes around TeX's "is it zero_glue"
/// test and the signs, and amounts that make TeX 1044 overflow.
fn space_skip_strategy() -> impl Strategy<Value = GlueSpec> {
    let sel = |v: Vec<i32>| proptest::sample::select(v);
    prop_oneof![
        5 => glue_strategy(),
        3 => (sel(vec![0, 0, 0, pt(2) + 13107, -pt(1) - 13107, pt(5)]), sel(vec![0, 0, 65536, -65536, 40000, pt(3)]), prop_oneof![3 => Just(0u8), 1 => 1u8..4], sel(vec![0, 0, 65536, -65536, 30000]))
            .prop_map(|(width, stretch, stretch_order, shrink)| GlueSpec { width, stretch, stretch_order, shrink, shrink_order: 0 }),
        3 => (sel(vec![0, pt(20), -pt(20), MAX_DIMEN]), sel(vec![0, pt(17), pt(600), -pt(600), MAX_DIMEN, -MAX_DIMEN]), prop_oneof![4 => Just(0u8), 1 => 1u8..4], sel(vec![0, pt(17), -pt(17), pt(600), MAX_DIMEN, -MAX_DIMEN]))
            .prop_map(|(width, stretch, stretch_order, shrink)| GlueSpec { width, stretch, stretch_order, shrink, shrink_order: 0 }),
    ]
}

fn skip_strategy() -> impl Strategy<Value = GlueSpec> {
    prop_oneof![
        12 => Just(GlueSpec::zero()),
        4 => (0i32..20, 0i32..30).prop_map(|(w, s)| GlueSpec { width: pt(w), stretch: pt(s), stretch_order: 0, shrink: 0, shrink_order: 0 }),
        4 => (0i32..10).prop_map(|w| GlueSpec { width: pt(w), stretch: pt(1), stretch_order: 1, shrink: 0, shrink_order: 0 }),
        1 => (0i32..10, 0i32..4, 0i32..4).prop_map(|(w, st, sh)| GlueSpec { width: pt(w), stretch: pt(st), stretch_order: 0, shrink: pt(sh), shrink_order: 0 }),
        1 => (1i32..10, 0i32..20).prop_map(|(w, s)| GlueSpec { width: -pt(w), stretch: pt(s), stretch_order: 0, shrink: 0, shrink_order: 0 }),
        1 => (1u8..4, 0u8..4).prop_map(|(a, b)| GlueSpec { width: 0, stretch: 0, stretch_order: a, shrink: 0, shrink_order: b }),
    ]
}

fn bp_strategy() -> impl Strategy<Value = BreakParams> {
    (
        proptest::collection::vec(60i32..320, 1..4),
        // indents: none, one per width (the \parshape form, whose last pair serves the lines beyond it) or any number
        (proptest::collection::vec(0i32..30, 3), prop_oneof![3 => Just(0usize), 4 => Just(usize::MAX), 3 => 0usize..4]),
        (prop_oneof![Just(0i32), Just(150), Just(-50), Just(10000)], prop_oneof![Just(0i32), Just(150), Just(7)], prop_oneof![Just(0i32), Just(100), Just(33)], prop_oneof![Just(0i32), Just(5), Just(-5)]),
        (skip_strategy(), skip_strategy()),
        prop_oneof![4 => Just(GlueSpec { width: 0, stretch: 65536, stretch_order: 1, shrink: 0, shrink_order: 0 }), 1 => Just(GlueSpec::zero()), 1 => Just(GlueSpec { width: pt(20), stretch: pt(100), stretch_order: 0, shrink: 0, shrink_order: 0 })],
        (prop_oneof![Just(-1i32), Just(100), Just(10000)], prop_oneof![Just(200i32), Just(1000), Just(9999), Just(10000)], prop_oneof![3 => Just(0i32), 1 => Just(pt(20))], prop_oneof![6 => Just(0i32), 1 => Just(1), 1 => Just(-1)]),
        (prop_oneof![Just(50i32), Just(0), Just(500)], prop_oneof![Just(50i32), Just(0)], prop_oneof![Just(10i32), Just(0), Just(200)]),
        prop_oneof![7 => Just(0u8), 3 => 1u8..4],
    )
        .prop_map(|(widths, (indents, n_indents), (club, widow, broken, interline), (left_skip, right_skip), par_fill_skip, (pre_tolerance, tolerance, emergency_stretch, looseness), (hyphen_penalty, ex_hyphen_penalty, line_penalty), pre_vlist)| BreakParams {
            indents: indents.into_iter().take(if n_indents == usize::MAX { widths.len() } else { n_indents }).map(pt).collect(),
            widths: widths.into_iter().map(pt).collect(),
            club,
            widow,
            broken,
            interline,
            left_skip,
            right_skip,
            par_fill_skip,
            pre_tolerance,
            tolerance,
            emergency_stretch,
            looseness,
            hyphen_penalty,
            ex_hyphen_penalty,
            line_penalty,
            pre_vlist,
        })
}

fn word_strategy() -> impl Strategy<Value = String> {
    let pool = vec![
        "difficult", "office", "fjord", "AV", "To", "Wolf", "e.g.", "end.", "A.", "NASA.", "what?", "yes!", "so:", "and;", "but,", "(see)", "don't", "x-ray", "one--two", "efficient", "waffle", "fluff", "affine", "The", "quick", "brown", "hyphenation", "Contents", "3.0", "typesetting", "a", "I", "wonderful", "representation", "characteristically", "'quoted'", "[x]", "Mr.", "etc.)", "fi", "ffl",
        "``so''", "?`que", "!`si", "em---dash", "-", "well-",
    ];
    prop_oneof![
        5 => proptest::sample::select(pool).prop_map(|s| s.to_string()),
        2 => "[aefilotAVTWy.,;:!?)'-]{1,10}",
        1 => "[a-z]{1,14}",
    ]
}

/// TeX adds up the glue of a line in 32 bits and so does HBox::pack: the paragraph ends where the sum of the
/// inter-word glue amounts given by TeX's rules would pass 20000pt, in width, stretch or shrink (reachable only with
/// amounts near max_dimen, or with the space factor 1 that multiplies the shrink by 1000).
fn bound_glue_totals(mut c: TextCase) -> TextCase {
    const LIMIT: i64 = 20000 * 65536;
    FONTS.with(|fs| {
        let (plan, active) = font_plan(c.font_setup);
        let f = &fs[plan[active as usize]];
        loop {
            let m = model_spaces(&c, f, Deviations::default());
            let sum = |sel: fn(&Glue) -> i32| m.glues.iter().map(|g| (sel(g) as i64).abs()).sum::<i64>();
            if c.words.len() <= 1 || (sum(|g| g.width.0) <= LIMIT && sum(|g| g.stretch.0) <= LIMIT && sum(|g| g.shrink.0) <= LIMIT) {
                break;
            }
            c.words.pop();
        }
    });
    c
}

fn blank_strategy() -> impl Strategy<Value = u8> {
    prop_oneof![6 => Just(0u8), 4 => 1u8..(BLANKS.len() as u8)]
}

fn text_case_strategy() -> impl Strategy<Value = TextCase> {
    (
        proptest::collection::vec(word_strategy(), 0..45),
        proptest::bool::weighted(0.1),
        proptest::option::weighted(0.35, space_skip_strategy()),
        proptest::option::weighted(0.3, space_skip_strategy()),
        0u8..3,
        proptest::collection::vec((prop_oneof![Just(b'.'), Just(b','), Just(b'a'), Just(b'e'), Just(b'A'), Just(b')'), Just(b'!')], prop_oneof![Just(0i32), Just(1), Just(999), Just(1000), Just(1001), Just(1999), Just(2000), Just(3000), Just(32767)]), 0..5),
        proptest::bool::weighted(0.6),
        bp_strategy(),
        (proptest::collection::vec(blank_strategy(), 0..6), blank_strategy(), prop_oneof![7 => Just(0u8), 3 => 1u8..(BLANKS.len() as u8 + 1)]),
        (proptest::option::weighted(0.3, proptest::sample::select(vec!["end.", "A", "etc.)", "so:", "NASA.", "x,", "what? ", " a!", "(b)", "one. Two"])), prop_oneof![5 => Just(0u8), 5 => 1u8..4]),
    )
        .prop_map(|(words, leading_space, space_skip, xspace_skip, sf_table, custom_sf, hyphenate, bp, (seps, lead, trail), (primer, font_setup))| {
            bound_glue_totals(TextCase { words, leading_space, space_skip, xspace_skip, sf_table, custom_sf, hyphenate, bp, seps, lead, trail, primer: primer.map(|s| s.to_string()), font_setup })
        })
}

fn delem_strategy() -> impl Strategy<Value = DElem> {
    prop_oneof![
        5 => (proptest::char::range('a', 'z'), 0u8..2).prop_map(|(c, f)| DElem::Char(c, f)),
        1 => Just(DElem::Char('-', 0)),
        2 => (-2i32..4, 0u8..4).prop_map(|(w, k)| DElem::Kern(w * 30000, k)),
        1 => (0i32..4).prop_map(|w| DElem::Rule(w * 40000)),
        1 => Just(DElem::Lig('\u{c}', "fi".to_string())),
    ]
}

fn item_strategy() -> impl Strategy<Value = Item> {
    prop_oneof![
        16 => "[a-z]{1,8}".prop_map(Item::Word),
        16 => glue_strategy().prop_map(Item::Glue),
        6 => prop_oneof![Just(-10000i32), Just(-50), Just(0), Just(50), Just(9999), Just(10000)].prop_map(Item::Penalty),
        4 => (0i32..5, any::<bool>()).prop_map(|(w, e)| Item::Kern(w * 30000, e)),
        4 => ("[a-z-]{0,2}", "[a-z]{0,2}", 0u8..3).prop_map(|(a, b, r)| Item::Disc(a, b, r)),
        2 => (-2i32..5, 0u8..4).prop_map(|(w, k)| Item::KernK(w * 30000, k)),
        1 => (0i32..6, 0i32..3, 0i32..2).prop_map(|(w, h, d)| Item::Rule(w * 50000, h * 200000, d * 100000)),
        1 => "[a-z]{0,3}".prop_map(Item::Box),
        1 => "[a-z]{1,6}".prop_map(Item::Word1),
        1 => prop_oneof![Just(Item::Lig('\u{c}', "fi".to_string())), Just(Item::Lig('\u{b}', "ff".to_string())), Just(Item::Lig('\u{7b}', "--".to_string()))],
        3 => (proptest::collection::vec(delem_strategy(), 0..4), proptest::collection::vec(delem_strategy(), 0..4), 0u8..4).prop_map(|(a, b, r)| Item::DiscX(a, b, r)),
    ]
}

fn list_case_strategy() -> impl Strategy<Value = ListCase> {
    (proptest::collection::vec(item_strategy(), 1..70), bp_strategy()).prop_map(|(items, bp)| ListCase { items, bp })
}

pub fn run(ctx: &Ctx) {
    ctx.rule("text cases: 0-45 words (ligature/kern sequences incl. quote and dash ligatures, space-factor punctuation, capitals before periods, explicit hyphens, long hyphenatable words, letterless tokens) separated by runs of blanks, tabs and single ends of line, with or without leading and trailing blanks, set in cmr10 or a second corpus font registered as font 0 or 1 through a TextPreprocessorImpl that is fresh or has set another paragraph before, with \\spaceskip/\\xspaceskip absent, everyday, zero-width, negative or near max_dimen (overflow of TeX 1044) and three space-factor tables, then broken with 1-3 line widths, 0-3 indents, club/widow/broken/interline penalties, left/right/parfill skips (also shrinking, negative, zero with an infinite order), tolerances, emergency stretch, looseness, hyphenation on or off, into an empty vertical list or one that holds items already; list cases: hand-built lists of words in two fonts, ligatures, glue, penalties, kerns of all four kinds, rules, boxes and discretionaries whose pre/post lists hold characters, kerns, rules, ligatures and that replace 0-3 nodes, biased to consecutive discardables. Oracle: the list spells the words in the active font, its discretionaries are empty and follow hyphens, its kerns are font kerns; every inter-word glue equals TeX's space-factor machine (one glue per run of blanks; the glue of trailing blanks may be present or not); the breakpoints recomputed by break_line_all_attempts on a clone prepared as TeX 816 does increase and end at the end of the list; the line boxes and penalties appended by break_line must equal a transcription of TeX's post_line_break (877-890 incl. the pruning of 879) item for item, with the requested width and shift, and the earlier items of the vertical list must be untouched; no later line begins with a discardable. non-trivial = >=3 lines and (a break at a discretionary, a discardable run >=2 at a break, or a space factor that changes a glue); distinct by case");
    ctx.assume("cmr10 and 6vcr8r from the repository's corpus, registered as boxworks-bin does; glue (baseline skip) and kerns between the lines are ignored (not in the property)");
    ctx.assume("breakpoint choice itself is decided by C04, glue setting of the line boxes by C15; the hyphenated list is the implementation's (C14 decides whether it spells the words)");
    ctx.assume("texts hold at most one end of line per run of blanks (two are a paragraph end in TeX) and no form feed or carriage return; an empty list is never broken (TeX 1096 does not call line_break for it)");
    ctx.assume("not demanded because neither the statement nor TeX determines it: what break_line leaves in the caller's list; the GlueKind of the inserted skips; the indent of lines beyond an indent sequence that does not pair up with the widths. The remnant of the break item that TeX keeps in the line (penalty, zero-width kern, emptied discretionary) may be kept or dropped");
    ctx.assume("no Math, Mark, Insertion, Adjust nodes in lists: HBox::pack has todo!() for them");
    ctx.assume("the inter-word glue of a paragraph adds up to less than 20000pt in each component (32-bit sums in TeX and in HBox::pack)");
    let n = ctx.tier.pick(40_000u64, 600_000u64);
    run_generated(ctx, "text_paragraphs", n, text_case_strategy, |c: &TextCase, case| text_oracle(ctx, c, case));
    let n = ctx.tier.pick(80_000u64, 1_200_000u64);
    run_generated(ctx, "hand_built_lists", n, list_case_strategy, |c: &ListCase, case| list_oracle(ctx, c, case));
}
