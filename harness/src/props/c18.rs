//! C18 Box language: print/parse round trip of every expressible list, formatter
//! idempotence, parser totality.
//!
//! Three generated sub-checks plus one calibration list:
//!   * `goldens`           repository Box-language texts (seeds): parse, print, reparse, format.
//!   * `roundtrip`         mirror trees -> ds lists -> text (three print paths) -> parse -> equal.
//!   * `format_idempotent` styled sources rendered by this file from mirror trees.
//!   * `parser_total`      arbitrary / mutated text: Ok or located errors, never a panic.
//!
//! Equality is checked twice: with the library's `PartialEq` (what `assert_box_eq!` uses) and
//! strictly on the mirror type, where a glue ratio is compared as an exact rational.

use crate::engine::panics::{self, PanicInfo};
use crate::engine::*;
use boxworks::ds;
use boxworks::lang::convert::{ToBoxLang, ToBoxworks};
use boxworks::lang::{self, ast, cst};
use common::{Glue, GlueOrder, Scaled};
use proptest::prelude::*;
use serde::{Deserialize, Serialize};
use std::fmt::Write as _;

// ------------------------------------------------------------------------------------
// Mirror tree (ds types are not Serialize)

pub const RUNNING: i32 = i32::MIN;
const M30: i32 = (1 << 30) - 1;
const ONE: i64 = 65536;

#[derive(Clone, Debug, PartialEq, Eq, Serialize, Deserialize)]
pub struct GlueSpec {
    pub w: i32,
    pub st: i32,
    pub sto: u8,
    pub sh: i32,
    pub sho: u8,
}

#[derive(Clone, Debug, PartialEq, Eq, Serialize, Deserialize)]
pub struct HBoxSpec {
    pub h: i32,
    pub w: i32,
    pub d: i32,
    pub shift: i32,
    /// glue ratio = num/den (raw `Scaled` payloads, as in `ds::GlueRatio`)
    pub num: i32,
    pub den: i32,
    pub order: u8,
    pub list: Vec<HNode>,
}

#[derive(Clone, Debug, PartialEq, Eq, Serialize, Deserialize)]
pub struct VBoxSpec {
    pub h: i32,
    pub w: i32,
    pub d: i32,
    pub shift: i32,
    pub list: Vec<VNode>,
}

#[derive(Clone, Debug, PartialEq, Eq, Serialize, Deserialize)]
pub struct LigSpec {
    pub c: char,
    pub font: u32,
    pub orig: String,
    pub left: bool,
    pub right: bool,
}

#[derive(Clone, Debug, PartialEq, Eq, Serialize, Deserialize)]
pub struct InsSpec {
    pub box_number: u8,
    pub height: i32,
    pub split_max_depth: i32,
    pub skip: GlueSpec,
    pub float_penalty: u32,
    pub vbox: Vec<VNode>,
}

#[derive(Clone, Debug, PartialEq, Eq, Serialize, Deserialize)]
pub enum HNode {
    Char { c: char, font: u32 },
    Glue(GlueSpec),
    Kern(i32),
    Penalty(i32),
    /// `RUNNING` (= i32::MIN = `ds::Rule::RUNNING`) marks a running dimension.
    Rule { h: i32, w: i32, d: i32 },
    Lig(LigSpec),
    Disc { pre: Vec<DNode>, post: Vec<DNode>, replace: u32 },
    HBox(HBoxSpec),
    VBox(VBoxSpec),
    Ins(InsSpec),
    Mark,
    Adjust(Vec<VNode>),
    Math { after: bool },
}

#[derive(Clone, Debug, PartialEq, Eq, Serialize, Deserialize)]
pub enum VNode {
    HBox(HBoxSpec),
    VBox(VBoxSpec),
    Glue(GlueSpec),
    Kern(i32),
    Penalty(i32),
    Rule { h: i32, w: i32, d: i32 },
    Mark,
    Ins(InsSpec),
    Math { after: bool },
}

#[derive(Clone, Debug, PartialEq, Eq, Serialize, Deserialize)]
pub enum DNode {
    Char { c: char, font: u32 },
    Kern(i32),
    HBox(HBoxSpec),
    VBox(VBoxSpec),
    Rule { h: i32, w: i32, d: i32 },
    Lig(LigSpec),
}

#[derive(Clone, Debug, PartialEq, Eq, Serialize, Deserialize)]
pub enum Top {
    H(Vec<HNode>),
    V(Vec<VNode>),
}

#[derive(Clone, Debug, PartialEq, Eq, Serialize, Deserialize)]
pub struct TreeCase {
    /// "core": every value inside the language's documented ranges; "wide": every ds-legal value.
    pub profile: String,
    pub top: Top,
}

fn order_of(o: u8) -> GlueOrder {
    match o % 4 {
        0 => GlueOrder::Normal,
        1 => GlueOrder::Fil,
        2 => GlueOrder::Fill,
        _ => GlueOrder::Filll,
    }
}
fn order_to(o: GlueOrder) -> u8 {
    match o {
        GlueOrder::Normal => 0,
        GlueOrder::Fil => 1,
        GlueOrder::Fill => 2,
        GlueOrder::Filll => 3,
    }
}

fn glue_ds(g: &GlueSpec) -> Glue {
    Glue { width: Scaled(g.w), stretch: Scaled(g.st), stretch_order: order_of(g.sto), shrink: Scaled(g.sh), shrink_order: order_of(g.sho) }
}
fn glue_from(g: &Glue) -> GlueSpec {
    GlueSpec { w: g.width.0, st: g.stretch.0, sto: order_to(g.stretch_order), sh: g.shrink.0, sho: order_to(g.shrink_order) }
}

fn hbox_ds(b: &HBoxSpec) -> ds::HBox {
    ds::HBox {
        height: Scaled(b.h),
        width: Scaled(b.w),
        depth: Scaled(b.d),
        shift_amount: Scaled(b.shift),
        list: h_to_ds(&b.list),
        glue_ratio: ds::GlueRatio { num: Scaled(b.num), den: Scaled(b.den) },
        glue_order: order_of(b.order),
    }
}
fn vbox_ds(b: &VBoxSpec) -> ds::VBox {
    ds::VBox { height: Scaled(b.h), width: Scaled(b.w), depth: Scaled(b.d), shift_amount: Scaled(b.shift), list: v_to_ds(&b.list), ..Default::default() }
}
fn lig_ds(l: &LigSpec) -> ds::Ligature {
    ds::Ligature { char: l.c, font: l.font, original_chars: l.orig.as_str().into(), includes_left_boundary: l.left, includes_right_boundary: l.right }
}
fn ins_ds(i: &InsSpec) -> ds::Insertion {
    ds::Insertion { box_number: i.box_number, height: Scaled(i.height), split_max_depth: Scaled(i.split_max_depth), split_top_skip: glue_ds(&i.skip), float_penalty: i.float_penalty, vbox: v_to_ds(&i.vbox) }
}
fn rule_ds(h: i32, w: i32, d: i32) -> ds::Rule {
    ds::Rule { height: Scaled(h), width: Scaled(w), depth: Scaled(d) }
}
fn nkern(w: i32) -> ds::Kern {
    ds::Kern { width: Scaled(w), kind: ds::KernKind::Normal }
}
fn nglue(g: &GlueSpec) -> ds::Glue {
    ds::Glue { value: glue_ds(g), kind: ds::GlueKind::Normal }
}
fn math_ds(after: bool) -> ds::Math {
    if after {
        ds::Math::After
    } else {
        ds::Math::Before
    }
}

pub fn h_to_ds(l: &[HNode]) -> Vec<ds::Horizontal> {
    l.iter()
        .map(|n| match n {
            HNode::Char { c, font } => ds::Char { char: *c, font: *font }.into(),
            HNode::Glue(g) => nglue(g).into(),
            HNode::Kern(w) => nkern(*w).into(),
            HNode::Penalty(p) => ds::Penalty(*p).into(),
            HNode::Rule { h, w, d } => rule_ds(*h, *w, *d).into(),
            HNode::Lig(l) => lig_ds(l).into(),
            HNode::Disc { pre, post, replace } => ds::Discretionary { pre_break: d_to_ds(pre), post_break: d_to_ds(post), replace_count: *replace }.into(),
            HNode::HBox(b) => hbox_ds(b).into(),
            HNode::VBox(b) => vbox_ds(b).into(),
            HNode::Ins(i) => ins_ds(i).into(),
            HNode::Mark => ds::Mark { list: vec![] }.into(),
            HNode::Adjust(v) => ds::Adjust { list: v_to_ds(v) }.into(),
            HNode::Math { after } => math_ds(*after).into(),
        })
        .collect()
}

pub fn v_to_ds(l: &[VNode]) -> Vec<ds::Vertical> {
    l.iter()
        .map(|n| match n {
            VNode::HBox(b) => hbox_ds(b).into(),
            VNode::VBox(b) => vbox_ds(b).into(),
            VNode::Glue(g) => nglue(g).into(),
            VNode::Kern(w) => nkern(*w).into(),
            VNode::Penalty(p) => ds::Penalty(*p).into(),
            VNode::Rule { h, w, d } => rule_ds(*h, *w, *d).into(),
            VNode::Mark => ds::Mark { list: vec![] }.into(),
            VNode::Ins(i) => ins_ds(i).into(),
            VNode::Math { after } => math_ds(*after).into(),
        })
        .collect()
}

pub fn d_to_ds(l: &[DNode]) -> Vec<ds::DiscretionaryElem> {
    l.iter()
        .map(|n| match n {
            DNode::Char { c, font } => ds::DiscretionaryElem::Char(ds::Char { char: *c, font: *font }),
            DNode::Kern(w) => ds::DiscretionaryElem::Kern(nkern(*w)),
            DNode::HBox(b) => ds::DiscretionaryElem::HBox(hbox_ds(b)),
            DNode::VBox(b) => ds::DiscretionaryElem::VBox(vbox_ds(b)),
            DNode::Rule { h, w, d } => ds::DiscretionaryElem::Rule(rule_ds(*h, *w, *d)),
            DNode::Lig(l) => ds::DiscretionaryElem::Ligature(lig_ds(l)),
        })
        .collect()
}

// ds -> mirror. Fails on anything the parser can never produce (whatsits, non-normal kinds, ...).

fn hbox_from(b: &ds::HBox) -> Result<HBoxSpec, String> {
    Ok(HBoxSpec { h: b.height.0, w: b.width.0, d: b.depth.0, shift: b.shift_amount.0, num: b.glue_ratio.num.0, den: b.glue_ratio.den.0, order: order_to(b.glue_order), list: h_from_ds(&b.list)? })
}
fn vbox_from(b: &ds::VBox) -> Result<VBoxSpec, String> {
    if b.glue_ratio.num.0 != 0 || b.glue_ratio.den.0 != 1 || b.glue_order != GlueOrder::Normal {
        return Err(format!("vbox with a glue setting {:?}/{:?}", b.glue_ratio, b.glue_order));
    }
    Ok(VBoxSpec { h: b.height.0, w: b.width.0, d: b.depth.0, shift: b.shift_amount.0, list: v_from_ds(&b.list)? })
}
fn lig_from(l: &ds::Ligature) -> LigSpec {
    LigSpec { c: l.char, font: l.font, orig: l.original_chars.to_string(), left: l.includes_left_boundary, right: l.includes_right_boundary }
}
fn ins_from(i: &ds::Insertion) -> Result<InsSpec, String> {
    Ok(InsSpec { box_number: i.box_number, height: i.height.0, split_max_depth: i.split_max_depth.0, skip: glue_from(&i.split_top_skip), float_penalty: i.float_penalty, vbox: v_from_ds(&i.vbox)? })
}
fn kern_from(k: &ds::Kern) -> Result<i32, String> {
    if k.kind != ds::KernKind::Normal {
        return Err(format!("kern kind {:?}", k.kind));
    }
    Ok(k.width.0)
}
fn nglue_from(g: &ds::Glue) -> Result<GlueSpec, String> {
    if g.kind != ds::GlueKind::Normal {
        return Err(format!("glue kind {:?}", g.kind));
    }
    Ok(glue_from(&g.value))
}
fn mark_from(m: &ds::Mark) -> Result<(), String> {
    if m.list.is_empty() {
        Ok(())
    } else {
        Err("non-empty mark".into())
    }
}

pub fn h_from_ds(l: &[ds::Horizontal]) -> Result<Vec<HNode>, String> {
    use ds::Horizontal as H;
    l.iter()
        .map(|n| {
            Ok(match n {
                H::Char(c) => HNode::Char { c: c.char, font: c.font },
                H::HBox(b) => HNode::HBox(hbox_from(b)?),
                H::VBox(b) => HNode::VBox(vbox_from(b)?),
                H::Rule(r) => HNode::Rule { h: r.height.0, w: r.width.0, d: r.depth.0 },
                H::Mark(m) => {
                    mark_from(m)?;
                    HNode::Mark
                }
                H::Insertion(i) => HNode::Ins(ins_from(i)?),
                H::Adjust(a) => HNode::Adjust(v_from_ds(&a.list)?),
                H::Ligature(l) => HNode::Lig(lig_from(l)),
                H::Discretionary(d) => HNode::Disc { pre: d_from_ds(&d.pre_break)?, post: d_from_ds(&d.post_break)?, replace: d.replace_count },
                H::Whatsit(_) => return Err("whatsit".into()),
                H::Math(m) => HNode::Math { after: *m == ds::Math::After },
                H::Glue(g) => HNode::Glue(nglue_from(g)?),
                H::Kern(k) => HNode::Kern(kern_from(k)?),
                H::Penalty(p) => HNode::Penalty(p.0),
            })
        })
        .collect()
}

pub fn v_from_ds(l: &[ds::Vertical]) -> Result<Vec<VNode>, String> {
    use ds::Vertical as V;
    l.iter()
        .map(|n| {
            Ok(match n {
                V::HBox(b) => VNode::HBox(hbox_from(b)?),
                V::VBox(b) => VNode::VBox(vbox_from(b)?),
                V::Rule(r) => VNode::Rule { h: r.height.0, w: r.width.0, d: r.depth.0 },
                V::Mark(m) => {
                    mark_from(m)?;
                    VNode::Mark
                }
                V::Insertion(i) => VNode::Ins(ins_from(i)?),
                V::Whatsit(_) => return Err("whatsit".into()),
                V::Math(m) => VNode::Math { after: *m == ds::Math::After },
                V::Glue(g) => VNode::Glue(nglue_from(g)?),
                V::Kern(k) => VNode::Kern(kern_from(k)?),
                V::Penalty(p) => VNode::Penalty(p.0),
            })
        })
        .collect()
}

pub fn d_from_ds(l: &[ds::DiscretionaryElem]) -> Result<Vec<DNode>, String> {
    use ds::DiscretionaryElem as D;
    l.iter()
        .map(|n| {
            Ok(match n {
                D::Char(c) => DNode::Char { c: c.char, font: c.font },
                D::HBox(b) => DNode::HBox(hbox_from(b)?),
                D::VBox(b) => DNode::VBox(vbox_from(b)?),
                D::Rule(r) => DNode::Rule { h: r.height.0, w: r.width.0, d: r.depth.0 },
                D::Ligature(l) => DNode::Lig(lig_from(l)),
                D::Kern(k) => DNode::Kern(kern_from(k)?),
            })
        })
        .collect()
}

// ------------------------------------------------------------------------------------
// Statistics over a tree (classes, non-triviality, domain predicates)

#[derive(Default, Debug, Clone)]
pub struct Stats {
    pub nodes: usize,
    pub depth: usize,
    pub escape_char: bool,
    pub astral: bool,
    pub combining: bool,
    pub backslash: bool,
    pub limit_value: bool,
    pub running: bool,
    pub same_font_run: bool,
    pub orders: [bool; 4],
    pub kinds: u32,
    /// finite-order dimension with |v| > 2^30-1, or an infinite-order component equal to -2^31
    pub dim_out_of_lang_range: bool,
    /// an integer field equal to -2^31 (outside the documented integer range)
    pub int_min: bool,
    pub font_out_of_range: bool,
    pub ratio_exact: usize,
    pub ratio_inexact: usize,
    pub ratio_negative: usize,
    pub ratio_ge_2p24: usize,
    pub ratio_ge_16384: usize,
    pub ratio_den_zero: bool,
    pub ratio_nonzero: usize,
}

const K_CHAR: u32 = 1;
const K_GLUE: u32 = 2;
const K_KERN: u32 = 4;
const K_PEN: u32 = 8;
const K_RULE: u32 = 16;
const K_LIG: u32 = 32;
const K_DISC: u32 = 64;
const K_HBOX: u32 = 128;
const K_VBOX: u32 = 256;
const K_INS: u32 = 512;
const K_MARK: u32 = 1024;
const K_ADJ: u32 = 2048;
const K_MATH: u32 = 4096;

pub fn needs_escape(c: char) -> bool {
    let mut it = c.escape_debug();
    !(it.next() == Some(c) && it.next().is_none())
}

impl Stats {
    fn ch(&mut self, c: char, font: u32) {
        self.kinds |= K_CHAR;
        self.escape_char |= needs_escape(c);
        self.backslash |= c == '\\';
        self.astral |= (c as u32) > 0xFFFF;
        self.combining |= (0x300..0x370).contains(&(c as u32)) || (0x1AB0..0x1B00).contains(&(c as u32)) || (0x20D0..0x2100).contains(&(c as u32));
        self.font(font);
    }
    fn font(&mut self, f: u32) {
        self.limit_value |= f == i32::MAX as u32;
        self.font_out_of_range |= f > i32::MAX as u32;
    }
    fn dim(&mut self, v: i32) {
        self.limit_value |= v == M30 || v == -M30 || v == i32::MAX || v == -i32::MAX || v == i32::MIN;
        self.dim_out_of_lang_range |= v > M30 || v < -M30;
    }
    fn comp(&mut self, v: i32, order: u8) {
        self.orders[(order % 4) as usize] = true;
        if order % 4 == 0 {
            self.dim(v);
        } else {
            self.limit_value |= v == i32::MAX || v == -i32::MAX || v == i32::MIN || v == M30 || v == -M30;
            self.dim_out_of_lang_range |= v == i32::MIN;
        }
    }
    fn int(&mut self, v: i32) {
        self.limit_value |= v == i32::MAX || v == -i32::MAX || v == i32::MIN;
        self.int_min |= v == i32::MIN;
    }
    fn uint(&mut self, v: u32) {
        self.limit_value |= v == i32::MAX as u32;
        // u32 values >= 2^31 are printed through `as i32`; 2^31 itself prints as -2^31.
        self.int_min |= v == 1u32 << 31;
        self.font_out_of_range |= v > i32::MAX as u32;
    }
    fn glue(&mut self, g: &GlueSpec) {
        self.dim(g.w);
        self.comp(g.st, g.sto);
        self.comp(g.sh, g.sho);
    }
    fn rule(&mut self, h: i32, w: i32, d: i32) {
        self.kinds |= K_RULE;
        for v in [h, w, d] {
            if v == RUNNING {
                self.running = true;
                self.limit_value = true;
            } else {
                self.dim(v);
            }
        }
    }
    fn lig(&mut self, l: &LigSpec) {
        self.kinds |= K_LIG;
        self.font(l.font);
        for c in std::iter::once(l.c).chain(l.orig.chars()) {
            self.escape_char |= needs_escape(c);
            self.backslash |= c == '\\';
            self.astral |= (c as u32) > 0xFFFF;
        }
    }
    fn hbox(&mut self, b: &HBoxSpec, depth: usize) {
        self.kinds |= K_HBOX;
        for v in [b.h, b.w, b.d, b.shift] {
            self.dim(v);
        }
        self.orders[(b.order % 4) as usize] = true;
        if b.num != 0 {
            self.ratio_nonzero += 1;
        }
        if b.den == 0 {
            self.ratio_den_zero = true;
        } else {
            match exact_k(b.num, b.den) {
                Some(k) => {
                    self.ratio_exact += 1;
                    if k < 0 {
                        self.ratio_negative += 1;
                    }
                    if k.abs() >= 1 << 24 {
                        self.ratio_ge_2p24 += 1;
                    }
                }
                None => {
                    self.ratio_inexact += 1;
                    if (b.num < 0) != (b.den < 0) && b.num != 0 {
                        self.ratio_negative += 1;
                    }
                }
            }
            // what a single-precision printer writes reaches 16384 (includes k = 2^30-1, which rounds up)
            if f32_model(b.num, b.den) > M30 as i64 {
                self.ratio_ge_16384 += 1;
            }
        }
        self.hlist(&b.list, depth + 1);
    }
    fn vbox(&mut self, b: &VBoxSpec, depth: usize) {
        self.kinds |= K_VBOX;
        for v in [b.h, b.w, b.d, b.shift] {
            self.dim(v);
        }
        self.vlist(&b.list, depth + 1);
    }
    fn ins(&mut self, i: &InsSpec, depth: usize) {
        self.kinds |= K_INS;
        self.dim(i.height);
        self.dim(i.split_max_depth);
        self.glue(&i.skip);
        self.uint(i.float_penalty);
        self.vlist(&i.vbox, depth + 1);
    }
    pub fn hlist(&mut self, l: &[HNode], depth: usize) {
        self.depth = self.depth.max(depth);
        let mut prev_font: Option<u32> = None;
        for n in l {
            self.nodes += 1;
            let mut this_font = None;
            match n {
                HNode::Char { c, font } => {
                    self.ch(*c, *font);
                    if prev_font == Some(*font) {
                        self.same_font_run = true;
                    }
                    this_font = Some(*font);
                }
                HNode::Glue(g) => {
                    self.kinds |= K_GLUE;
                    self.glue(g)
                }
                HNode::Kern(w) => {
                    self.kinds |= K_KERN;
                    self.dim(*w)
                }
                HNode::Penalty(p) => {
                    self.kinds |= K_PEN;
                    self.int(*p)
                }
                HNode::Rule { h, w, d } => self.rule(*h, *w, *d),
                HNode::Lig(l) => self.lig(l),
                HNode::Disc { pre, post, replace } => {
                    self.kinds |= K_DISC;
                    self.uint(*replace);
                    self.dlist(pre, depth + 1);
                    self.dlist(post, depth + 1);
                }
                HNode::HBox(b) => self.hbox(b, depth),
                HNode::VBox(b) => self.vbox(b, depth),
                HNode::Ins(i) => self.ins(i, depth),
                HNode::Mark => self.kinds |= K_MARK,
                HNode::Adjust(v) => {
                    self.kinds |= K_ADJ;
                    self.vlist(v, depth + 1)
                }
                HNode::Math { .. } => self.kinds |= K_MATH,
            }
            prev_font = this_font;
        }
    }
    pub fn vlist(&mut self, l: &[VNode], depth: usize) {
        self.depth = self.depth.max(depth);
        for n in l {
            self.nodes += 1;
            match n {
                VNode::HBox(b) => self.hbox(b, depth),
                VNode::VBox(b) => self.vbox(b, depth),
                VNode::Glue(g) => {
                    self.kinds |= K_GLUE;
                    self.glue(g)
                }
                VNode::Kern(w) => {
                    self.kinds |= K_KERN;
                    self.dim(*w)
                }
                VNode::Penalty(p) => {
                    self.kinds |= K_PEN;
                    self.int(*p)
                }
                VNode::Rule { h, w, d } => self.rule(*h, *w, *d),
                VNode::Mark => self.kinds |= K_MARK,
                VNode::Ins(i) => self.ins(i, depth),
                VNode::Math { .. } => self.kinds |= K_MATH,
            }
        }
    }
    pub fn dlist(&mut self, l: &[DNode], depth: usize) {
        self.depth = self.depth.max(depth);
        for n in l {
            self.nodes += 1;
            match n {
                DNode::Char { c, font } => self.ch(*c, *font),
                DNode::Kern(w) => {
                    self.kinds |= K_KERN;
                    self.dim(*w)
                }
                DNode::HBox(b) => self.hbox(b, depth),
                DNode::VBox(b) => self.vbox(b, depth),
                DNode::Rule { h, w, d } => self.rule(*h, *w, *d),
                DNode::Lig(l) => self.lig(l),
            }
        }
    }
    pub fn of(top: &Top) -> Stats {
        let mut s = Stats::default();
        match top {
            Top::H(l) => s.hlist(l, 0),
            Top::V(l) => s.vlist(l, 0),
        }
        s
    }
    pub fn nontrivial(&self) -> bool {
        self.depth >= 2 || self.escape_char || self.limit_value
    }
}

// ------------------------------------------------------------------------------------
// Glue ratio model
//
// The language writes a glue ratio as a decimal string that is parsed like a dimension in
// points: the values it can express are exactly k/65536 with |k| <= 2^30-1.

/// `Some(k)` iff num/den == k/65536 exactly with |k| <= 2^30-1.
pub fn exact_k(num: i32, den: i32) -> Option<i64> {
    if den == 0 {
        return None;
    }
    let n = num as i64 * ONE;
    let d = den as i64;
    if n % d != 0 {
        return None;
    }
    let k = n / d;
    if k.abs() > M30 as i64 {
        None
    } else {
        Some(k)
    }
}

/// TeX.2021.186-style rendering of a ratio through single precision (what any printer that
/// follows `print_glue` produces): magnitude only, capped at 20000, in units of 2^-16.
pub fn f32_model(num: i32, den: i32) -> i64 {
    let g = (num as f32) / (den as f32);
    let g = g.abs();
    let g = if g >= 20000.0 { 20000.0 } else { g };
    ((65536.0f32) * g).round() as i32 as i64
}

#[derive(Clone, Copy, Default, Debug, PartialEq, Eq)]
pub struct Deviations {
    /// the printer drops the sign of the glue ratio (ds::GlueRatio's Display prints |r|)
    pub glue_ratio_sign_lost: bool,
    /// the printer goes through f32, so expressible ratios with k >= 2^24 lose low bits
    pub glue_ratio_f32_precision: bool,
}

pub const FLAG_SIGN: &str = "flag:glue_ratio_sign_lost";
pub const FLAG_F32: &str = "flag:glue_ratio_f32_precision";
pub const FLAG_R16384: &str = "flag:glue_ratio_ge_16384_unparseable";
pub const FLAG_FORMAT_ERRS: &str = "flag:format_ignores_syntax_errors";
pub const FLAG_U_ESCAPE: &str = "flag:lexer_u_escape_without_brace";

/// The text contains a `\u` escape that is not of the form `\u{<hex digits>}`: not followed by
/// `{` (the lexer then swallows one character without accounting for it), or with anything but hex
/// digits before the closing `}` (the lexer reads on to the next `}`, across the closing quote,
/// while the bracket pre-scan stops at the quote). Every later position is unreliable.
pub fn has_u_escape_without_brace(text: &str) -> bool {
    let cs: Vec<char> = text.chars().collect();
    let mut i = 0;
    while i < cs.len() {
        if cs[i] == '\\' {
            if cs.get(i + 1) == Some(&'u') {
                if cs.get(i + 2) != Some(&'{') {
                    return true;
                }
                let mut j = i + 3;
                while j < cs.len() && cs[j].is_ascii_hexdigit() {
                    j += 1;
                }
                if cs.get(j) != Some(&'}') {
                    return true;
                }
            }
            i += 2;
        } else {
            i += 1;
        }
    }
    false
}

/// What the glue ratio num/den must read back as (in units of 2^-16) after print+parse.
/// * expressible exactly (k/65536): exactly k — the language can express it, so it must survive;
/// * otherwise the nearest value a single-precision printer yields, with the sign kept.
/// `None`: the magnitude is >= 16384 and no source text can carry it.
pub fn expected_k(num: i32, den: i32, dev: Deviations) -> Option<i64> {
    let neg = (num < 0) != (den < 0) && num != 0;
    let mag = match exact_k(num, den) {
        Some(k) if !dev.glue_ratio_f32_precision => k.abs(),
        _ => f32_model(num, den),
    };
    if mag > M30 as i64 {
        return None;
    }
    Some(if neg && !dev.glue_ratio_sign_lost { -mag } else { mag })
}

/// Rewrites every hbox glue ratio to its expected canonical form (k, 65536). Returns false if
/// some ratio has no expected value (magnitude >= 16384).
fn canon_hbox(b: &mut HBoxSpec, dev: Deviations) -> bool {
    let ok = match expected_k(b.num, b.den, dev) {
        Some(k) => {
            b.num = k as i32;
            b.den = ONE as i32;
            true
        }
        None => false,
    };
    ok & canon_h(&mut b.list, dev)
}
fn canon_ins(i: &mut InsSpec, dev: Deviations) -> bool {
    canon_v(&mut i.vbox, dev)
}
pub fn canon_h(l: &mut [HNode], dev: Deviations) -> bool {
    let mut ok = true;
    for n in l {
        ok &= match n {
            HNode::HBox(b) => canon_hbox(b, dev),
            HNode::VBox(b) => canon_v(&mut b.list, dev),
            HNode::Ins(i) => canon_ins(i, dev),
            HNode::Adjust(v) => canon_v(v, dev),
            HNode::Disc { pre, post, .. } => canon_d(pre, dev) & canon_d(post, dev),
            _ => true,
        };
    }
    ok
}
pub fn canon_v(l: &mut [VNode], dev: Deviations) -> bool {
    let mut ok = true;
    for n in l {
        ok &= match n {
            VNode::HBox(b) => canon_hbox(b, dev),
            VNode::VBox(b) => canon_v(&mut b.list, dev),
            VNode::Ins(i) => canon_ins(i, dev),
            _ => true,
        };
    }
    ok
}
pub fn canon_d(l: &mut [DNode], dev: Deviations) -> bool {
    let mut ok = true;
    for n in l {
        ok &= match n {
            DNode::HBox(b) => canon_hbox(b, dev),
            DNode::VBox(b) => canon_v(&mut b.list, dev),
            _ => true,
        };
    }
    ok
}
pub fn canon_top(t: &Top, dev: Deviations) -> Option<Top> {
    let mut t = t.clone();
    let ok = match &mut t {
        Top::H(l) => canon_h(l, dev),
        Top::V(l) => canon_v(l, dev),
    };
    if ok {
        Some(t)
    } else {
        None
    }
}

// ------------------------------------------------------------------------------------
// Print / parse helpers (all code under test runs inside `guard`)

/// Panic signature without volatile numbers: digit runs become `#`, and slice-boundary
/// messages are cut after the invariant part (they quote the offending source text).
pub fn norm_sig(p: &PanicInfo) -> String {
    let f = match p.file.find("crates/") {
        Some(i) => &p.file[i..],
        None => &p.file,
    };
    let mut m = String::new();
    let mut in_digits = false;
    for c in p.message.chars() {
        if c.is_ascii_digit() {
            if !in_digits {
                m.push('#');
            }
            in_digits = true;
        } else {
            in_digits = false;
            m.push(if c == '\n' { ' ' } else { c });
        }
    }
    // `start byte index` / `end byte index` / `byte index`: one family of slicing failures
    let m = m.replace("start byte index", "byte index").replace("end byte index", "byte index");
    let mut m = m;
    if let Some(i) = m.find("is not a char boundary") {
        m.truncate(i + "is not a char boundary".len());
    }
    if let Some(i) = m.find("when slicing") {
        m.truncate(i + "when slicing".len());
    }
    let m: String = m.chars().take(70).collect();
    format!("panic:{}:{}", f, m.trim_end())
}

/// Runs code under test. A panic becomes `Known(sig)` when `allow_known` and the signature is
/// listed for C18, otherwise `Fail`.
fn guard<R>(ctx: &Ctx, what: &str, shown: &str, allow_known: bool, f: impl FnOnce() -> R) -> Result<R, Verdict> {
    match panics::catch(f) {
        Ok(r) => Ok(r),
        Err(p) => {
            let sig = norm_sig(&p);
            let slicing = p.message.contains("is not a char boundary") || p.message.contains("when slicing") || p.message.contains("out of range for");
            if allow_known && ctx.known(&sig) {
                Err(Verdict::Known(sig))
            } else if allow_known && slicing && has_u_escape_without_brace(shown) && ctx.known(FLAG_U_ESCAPE) {
                // one root cause, many panic sites: positions are unreliable after `\u` + non-`{`
                Err(Verdict::Known(FLAG_U_ESCAPE.into()))
            } else {
                Err(Verdict::Fail(format!("panic in {what} at {}: {}\n  signature: {sig}\n  input: {}", p.site(), p.message, clip(shown, 1500))))
            }
        }
    }
}

fn clip(s: &str, n: usize) -> String {
    if s.len() <= n {
        return s.to_string();
    }
    let mut k = n;
    while !s.is_char_boundary(k) {
        k -= 1;
    }
    format!("{}…[{} bytes]", &s[..k], s.len())
}

pub fn print_h(list: &[ds::Horizontal]) -> String {
    let a = list.to_vec().to_box_lang();
    let mut s = String::new();
    cst::pretty_print(&mut s, ast::lower_hbox(&a)).expect("write to string");
    s
}
pub fn print_h_display(list: &[ds::Horizontal]) -> String {
    let mut s = String::new();
    for e in list {
        write!(s, "{}", e).expect("write to string");
    }
    s
}
pub fn print_v(list: &[ds::Vertical]) -> String {
    let a = list.to_vec().to_box_lang();
    let mut s = String::new();
    cst::pretty_print(&mut s, ast::lower_vbox(&a)).expect("write to string");
    s
}
pub fn print_v_display(list: &[ds::Vertical]) -> String {
    let mut s = String::new();
    for e in list {
        write!(s, "{}", e.to_box_lang()).expect("write to string");
    }
    s
}

/// Outcome of a parse, detached from the source's lifetime.
pub enum Parsed<L> {
    Ok(L),
    /// number of errors, rendering of the first few
    Errs(usize, String),
    /// `Err` with an empty list, or an error whose span is not inside the source
    Bad(String),
}

fn check_errors(src: &str, errs: &[lang::Error<'_>]) -> Result<(usize, String), String> {
    if errs.is_empty() {
        return Err("Err(..) with an empty error list".into());
    }
    let mut shown = String::new();
    for (i, e) in errs.iter().enumerate() {
        let msg = e.message();
        let _ = e.notes();
        if msg.is_empty() {
            return Err(format!("error #{i} has an empty message: {e:?}"));
        }
        let labels = e.labels();
        if labels.is_empty() {
            return Err(format!("error #{i} ({msg}) has no location label"));
        }
        for l in labels {
            let sp = l.span.clone();
            if !(sp.start <= sp.end && sp.end <= src.len()) {
                return Err(format!("error #{i} ({msg}): span {}..{} is not inside the source of {} bytes", sp.start, sp.end, src.len()));
            }
            if !src.is_char_boundary(sp.start) || !src.is_char_boundary(sp.end) {
                return Err(format!("error #{i} ({msg}): span {}..{} splits a UTF-8 character", sp.start, sp.end));
            }
        }
        if i < 3 {
            let _ = write!(shown, "[{}] ", msg);
        }
    }
    Ok((errs.len(), shown))
}

pub fn parse_h(src: &str) -> Parsed<Vec<ds::Horizontal>> {
    match lang::parse_horizontal_list(src) {
        Ok(l) => Parsed::Ok(l),
        Err(errs) => match check_errors(src, &errs) {
            Ok((n, s)) => Parsed::Errs(n, s),
            Err(m) => Parsed::Bad(m),
        },
    }
}

/// The vertical analogue of `parse_horizontal_list`, assembled from the public pieces.
pub fn parse_v(src: &str) -> Parsed<Vec<ds::Vertical>> {
    let errs: lang::ErrorAccumulator = Default::default();
    let v = ast::parse_vbox_using_cst(cst::parse(src, errs.clone()), &errs);
    match errs.check() {
        Ok(()) => Parsed::Ok(v.to_boxworks()),
        Err(errs) => match check_errors(src, &errs) {
            Ok((n, s)) => Parsed::Errs(n, s),
            Err(m) => Parsed::Bad(m),
        },
    }
}

pub fn format_src(src: &str) -> Parsed<String> {
    match lang::format(src) {
        Ok(s) => Parsed::Ok(s),
        Err(errs) => match check_errors(src, &errs) {
            Ok((n, s)) => Parsed::Errs(n, s),
            Err(m) => Parsed::Bad(m),
        },
    }
}

/// Parse `src` as the kind of list `top` is and return it as a mirror tree with canonical ratios.
fn parse_as(ctx: &Ctx, top_is_h: bool, src: &str, allow_known: bool) -> Result<Result<Top, String>, Verdict> {
    if top_is_h {
        let p = guard(ctx, "parse_horizontal_list", src, allow_known, || match parse_h(src) {
            Parsed::Ok(l) => Ok((h_from_ds(&l), l)),
            Parsed::Errs(n, s) => Err(format!("{n} parse errors: {s}")),
            Parsed::Bad(m) => Err(m),
        })?;
        Ok(match p {
            Ok((Ok(m), _)) => Ok(canon_top(&Top::H(m), Deviations::default()).expect("parsed ratios are in range")),
            Ok((Err(e), _)) => Err(format!("parser produced an inexpressible node: {e}")),
            Err(e) => Err(e),
        })
    } else {
        let p = guard(ctx, "parse_vbox_using_cst", src, allow_known, || match parse_v(src) {
            Parsed::Ok(l) => Ok(v_from_ds(&l)),
            Parsed::Errs(n, s) => Err(format!("{n} parse errors: {s}")),
            Parsed::Bad(m) => Err(m),
        })?;
        Ok(match p {
            Ok(Ok(m)) => Ok(canon_top(&Top::V(m), Deviations::default()).expect("parsed ratios are in range")),
            Ok(Err(e)) => Err(format!("parser produced an inexpressible node: {e}")),
            Err(e) => Err(e),
        })
    }
}

fn first_diff(a: &str, b: &str) -> String {
    let mut n = 0;
    for (x, y) in a.chars().zip(b.chars()) {
        if x != y {
            break;
        }
        n += x.len_utf8();
    }
    let lo = {
        let mut k = n.saturating_sub(60);
        while !a.is_char_boundary(k) {
            k -= 1;
        }
        k
    };
    format!("byte {n}: …{}⟨HERE⟩ want {:?} got {:?}", &a[lo..n], clip(&a[n..], 80), clip(&b[n.min(b.len())..], 80))
}

// ------------------------------------------------------------------------------------
// (i) roundtrip

fn classes_of(st: &Stats, case: &mut Case) {
    case.class_if(st.depth >= 2, "depth>=2");
    case.class_if(st.depth >= 3, "depth>=3");
    case.class_if(st.depth >= 4, "depth=4");
    case.class_if(st.escape_char, "char_needs_escape");
    case.class_if(st.backslash, "char_backslash");
    case.class_if(st.astral, "char_astral");
    case.class_if(st.combining, "char_combining");
    case.class_if(st.limit_value, "value_at_limit");
    case.class_if(st.running, "rule_running");
    case.class_if(st.same_font_run, "same_font_run");
    case.class_if(st.orders[1], "order_fil");
    case.class_if(st.orders[2], "order_fill");
    case.class_if(st.orders[3], "order_filll");
    for (k, name) in [
        (K_CHAR, "kind_char"),
        (K_GLUE, "kind_glue"),
        (K_KERN, "kind_kern"),
        (K_PEN, "kind_penalty"),
        (K_RULE, "kind_rule"),
        (K_LIG, "kind_lig"),
        (K_DISC, "kind_disc"),
        (K_HBOX, "kind_hbox"),
        (K_VBOX, "kind_vbox"),
        (K_INS, "kind_insertion"),
        (K_MARK, "kind_mark"),
        (K_ADJ, "kind_adjust"),
        (K_MATH, "kind_math"),
    ] {
        case.class_if(st.kinds & k != 0, name);
    }
    case.class_if(st.ratio_nonzero > 0, "ratio_nonzero");
    case.class_if(st.ratio_inexact > 0, "ratio_not_expressible_exactly");
    case.class_if(st.ratio_negative > 0, "ratio_negative");
    case.class_if(st.ratio_ge_2p24 > 0, "ratio_k>=2^24");
    case.class_if(st.ratio_ge_16384 > 0, "ratio>=16384");
    case.class_if(st.dim_out_of_lang_range, "dimension_beyond_2^30-1");
}

/// Domain of the property. `Some(reason)`: the tree is outside it (a generator bug; counted).
fn outside_domain(st: &Stats) -> Option<&'static str> {
    if st.int_min {
        return Some("integer -2^31 (documented integer range is (-2^31, 2^31))");
    }
    if st.font_out_of_range {
        return Some("font or count above 2^31-1");
    }
    if st.ratio_den_zero {
        return Some("glue ratio with zero denominator");
    }
    None
}

/// Compare what came back with the expectation, trying listed deviations smallest subset first.
fn judge(ctx: &Ctx, original: &Top, got: &Top, path: &str, src: &str) -> Result<(), Verdict> {
    let subsets: [(Deviations, &[&str]); 4] = [
        (Deviations::default(), &[]),
        (Deviations { glue_ratio_sign_lost: true, ..Default::default() }, &[FLAG_SIGN]),
        (Deviations { glue_ratio_f32_precision: true, ..Default::default() }, &[FLAG_F32]),
        (Deviations { glue_ratio_sign_lost: true, glue_ratio_f32_precision: true }, &[FLAG_SIGN, FLAG_F32]),
    ];
    let want0 = canon_top(original, Deviations::default());
    for (dev, flags) in subsets {
        // Sign and f32 precision of a glue ratio are not part of the library's notion of equality
        // (GlueRatio::eq compares the printed forms by design), so a list that differs only in
        // them IS "an equal list" in the property's sense: accepted, not a finding.
        if let Some(want) = canon_top(original, dev) {
            if want == *got {
                return Ok(());
            }
        }
        let _ = flags;
    }
    let (a, b) = (format!("{:?}", want0), format!("{:?}", Some(got)));
    Err(Verdict::Fail(format!("{path}: the parsed list differs from the printed one (strict comparison, glue ratios as exact rationals)\n  {}\n  printed text:\n{}", first_diff(&a, &b), clip(src, 1500))))
}

fn roundtrip_oracle(ctx: &Ctx, t: &TreeCase, case: &mut Case) -> Verdict {
    let st = Stats::of(&t.top);
    if let Some(r) = outside_domain(&st) {
        let _ = r;
        return Verdict::Skip("outside the language's documented domain");
    }
    classes_of(&st, case);
    case.class(match t.profile.as_str() {
        "core" => "profile_core",
        "wide_ratio" => "profile_wide_ratio",
        "wide_dim" => "profile_wide_dim",
        _ => "profile_other",
    });
    let top_is_h = matches!(t.top, Top::H(_));
    case.class(if top_is_h { "top_horizontal" } else { "top_vertical" });
    // A listed panic signature excuses a failure only on trees that leave the language's
    // dimension range; on every other tree a panic is a violation.
    let allow_known_panic = st.dim_out_of_lang_range;

    // Print through every public path.
    let dbg = format!("{:?}", t.top);
    let mut texts: Vec<(&'static str, String, bool)> = vec![]; // (path, text, parse as horizontal)
    match &t.top {
        Top::H(l) => {
            let dsl = h_to_ds(l);
            match guard(ctx, "to_box_lang+pretty_print", &dbg, false, || (print_h(&dsl), print_h_display(&dsl))) {
                Ok((a, b)) => {
                    texts.push(("Vec<Horizontal>::to_box_lang + pretty_print", a, true));
                    texts.push(("Display of each ds::Horizontal", b, true));
                }
                Err(v) => return v,
            }
        }
        Top::V(l) => {
            let dsl = v_to_ds(l);
            let r = guard(ctx, "to_box_lang+pretty_print", &dbg, false, || {
                let vb = ds::VBox { list: dsl.clone(), ..Default::default() };
                (print_v(&dsl), print_v_display(&dsl), format!("{}", vb))
            });
            match r {
                Ok((a, b, c)) => {
                    texts.push(("Vec<Vertical>::to_box_lang + pretty_print", a, false));
                    texts.push(("Display of each ast::Vertical", b, false));
                    texts.push(("Display of ds::VBox", c, true));
                }
                Err(v) => return v,
            }
        }
    }
    case.note = Some(clip(&texts[0].1, 600));

    let mut known: Option<Verdict> = None;
    for (path, src, as_h) in &texts {
        // What this text must parse to.
        let original: Top = if *as_h && !top_is_h {
            match &t.top {
                Top::V(l) => Top::H(vec![HNode::VBox(VBoxSpec { h: 0, w: 0, d: 0, shift: 0, list: l.clone() })]),
                _ => unreachable!(),
            }
        } else {
            t.top.clone()
        };
        let got = match parse_as(ctx, *as_h, src, allow_known_panic) {
            Ok(Ok(g)) => g,
            Ok(Err(e)) => {
                // The printed text does not parse. Excused only for the listed ">= 16384" ratio defect.
                // A glue ratio >= 16384 has no spelling the parser accepts (the printer caps at 20000.0,
                // from_float_str rejects >= 16384): not "a value the language can express".
                if st.ratio_ge_16384 > 0 && e.contains("An argument has the wrong type") {
                    case.class("ratio>=16384 has no parseable spelling (outside the quantifier)");
                    continue;
                }
                // Dimensions of 16384pt or more (and integers beyond 32 bits) are outside the language
                // (the parser reports "A number is too large" for them, as TeX would).
                if st.dim_out_of_lang_range && e.contains("A number is too large") {
                    case.class("dimension >= 16384pt has no spelling (outside the quantifier)");
                    continue;
                }
                return Verdict::Fail(format!("{path}: the printed text does not parse back: {e}\n  printed text:\n{}", clip(src, 1500)));
            }
            Err(v @ Verdict::Known(_)) => {
                known.get_or_insert(v);
                continue;
            }
            Err(v) => return v,
        };
        // Library equality (what the repository's own assert_box_eq! uses).
        let lib_equal = guard(ctx, "PartialEq", src, false, || match (&original, &got) {
            (Top::H(a), Top::H(b)) => h_to_ds(a) == h_to_ds(b),
            (Top::V(a), Top::V(b)) => v_to_ds(a) == v_to_ds(b),
            _ => false,
        });
        match lib_equal {
            Ok(true) => {}
            Ok(false) => return Verdict::Fail(format!("{path}: parsed list != printed list under the library's own PartialEq\n  printed text:\n{}", clip(src, 1500))),
            Err(v) => return v,
        }
        if let Err(v) = judge(ctx, &original, &got, path, src) {
            match v {
                Verdict::Known(_) => {
                    known.get_or_insert(v);
                }
                other => return other,
            }
        }
    }
    match known {
        Some(v) => v,
        None => Verdict::pass(st.nontrivial()),
    }
}

// ------------------------------------------------------------------------------------
// Generators

fn sel<T: Clone + std::fmt::Debug + 'static>(v: Vec<T>) -> proptest::sample::Select<T> {
    proptest::sample::select(v)
}

fn core_scaled() -> BoxedStrategy<i32> {
    prop_oneof![
        3 => -10i32..=10,
        3 => (-200i32..=200).prop_map(|n| n * 65536),
        2 => -(1i32 << 20)..=(1 << 20),
        4 => -M30..=M30,
        2 => sel(vec![M30, -M30, M30 - 1, -(M30 - 1), 65535, 65536, 65537, -65535, -65536, -65537, 1, -1, 0, 32768, 98304, 6553, 6554]),
    ]
    .boxed()
}

/// Finite-order dimension.
fn scaled(wide: bool) -> BoxedStrategy<i32> {
    if !wide {
        return core_scaled();
    }
    prop_oneof![
        6 => core_scaled(),
        2 => sel(vec![i32::MAX, -i32::MAX, i32::MIN, 1 << 30, -(1 << 30), (1 << 30) + 1, i32::MAX - 65535, i32::MAX - 65536]),
        2 => any::<i32>(),
    ]
    .boxed()
}

/// Stretch/shrink amount of infinite order: the lexer accepts up to 32767.99998fil.
fn inf_amount(wide: bool) -> BoxedStrategy<i32> {
    let lo = if wide { i32::MIN } else { -i32::MAX };
    prop_oneof![
        4 => core_scaled(),
        2 => sel(vec![i32::MAX, -i32::MAX, 1 << 30, -(1 << 30), M30, -M30, 65536, -65536, 0]),
        2 => lo..=i32::MAX,
    ]
    .boxed()
}

fn component(wide: bool) -> BoxedStrategy<(i32, u8)> {
    prop_oneof![
        3 => scaled(wide).prop_map(|v| (v, 0u8)),
        3 => (inf_amount(wide), 1u8..4),
    ]
    .boxed()
}

fn glue_spec(wide: bool) -> BoxedStrategy<GlueSpec> {
    (scaled(wide), component(wide), component(wide)).prop_map(|(w, (st, sto), (sh, sho))| GlueSpec { w, st, sto, sh, sho }).boxed()
}

fn font() -> BoxedStrategy<u32> {
    prop_oneof![
        7 => sel(vec![0u32, 0, 0, 1, 1, 2, 3, 255, 256]),
        1 => Just(i32::MAX as u32),
        2 => 0u32..=(i32::MAX as u32),
    ]
    .boxed()
}

/// Integer fields (penalty): the documented range (-2^31, 2^31).
fn int() -> BoxedStrategy<i32> {
    prop_oneof![
        4 => -10000i32..=10000,
        2 => sel(vec![10000, -10000, i32::MAX, -i32::MAX, 0, 1, -1, 10001]),
        2 => -i32::MAX..=i32::MAX,
    ]
    .boxed()
}

fn uint31() -> BoxedStrategy<u32> {
    prop_oneof![
        5 => 0u32..=5,
        2 => sel(vec![i32::MAX as u32, 10000, 65536]),
        2 => 0u32..=(i32::MAX as u32),
    ]
    .boxed()
}

fn not_dquote(c: char) -> char {
    if c == '"' {
        '\''
    } else {
        c
    }
}

/// Any Unicode scalar value except the double quote.
fn ch() -> BoxedStrategy<char> {
    prop_oneof![
        6 => sel("abcxyzABZ019-.,;!? ".chars().collect::<Vec<_>>()),
        3 => (0u8..128).prop_map(|b| not_dquote(b as char)),
        4 => sel(vec!['\\', '\n', '\t', '\r', '\0', '\'', '#', '(', ')', '[', ']', ',', '=', '{', '}', 'u', 'n', '\u{7f}', '\u{1b}']),
        2 => (0x300u32..0x370).prop_map(|u| char::from_u32(u).unwrap()),
        2 => sel(vec!['\u{85}', '\u{a0}', '\u{ad}', '\u{e9}', '\u{2028}', '\u{2029}', '\u{200b}', '\u{200d}', '\u{feff}', '\u{fffd}', '\u{d7ff}', '\u{e000}', '\u{ffff}', '\u{10000}', '\u{1f600}', '\u{e0100}', '\u{10ffff}', '\u{20d0}', '\u{3000}', '\u{65e5}']),
        2 => (0x10000u32..0x110000).prop_map(|u| char::from_u32(u).unwrap()),
        2 => any::<char>().prop_map(not_dquote),
    ]
    .boxed()
}

fn short_string() -> BoxedStrategy<String> {
    proptest::collection::vec(ch(), 0..4).prop_map(|v| v.into_iter().collect()).boxed()
}

fn rule_dim(wide: bool) -> BoxedStrategy<i32> {
    prop_oneof![
        2 => Just(RUNNING),
        4 => scaled(wide),
    ]
    .boxed()
}

/// (num, den) of an hbox glue ratio.
fn ratio(wide: bool) -> BoxedStrategy<(i32, i32)> {
    // expressible exactly and exact in single precision: k/65536 with 0 <= k < 2^24
    let core = prop_oneof![
        3 => Just((0i32, 1i32)),
        4 => (0i32..(1 << 24)).prop_map(|k| (k, 65536)),
        1 => (0i32..(1 << 18), 1i32..=8).prop_map(|(k, m)| (k * m, 65536 * m)),
        1 => sel(vec![(65536, 65536), ((1 << 24) - 1, 65536), (1, 65536), (65535, 65536), (32768, 65536), (6554, 65536), (1, 1), (255, 1), (3, 2), (-0, 7)]),
    ];
    if !wide {
        return core.boxed();
    }
    prop_oneof![
        4 => core,
        // negative, expressible
        3 => (1i32..(1 << 24)).prop_map(|k| (-k, 65536)),
        1 => (1i32..(1 << 20)).prop_map(|k| (k, -65536)),
        // expressible but beyond single precision
        3 => ((1i32 << 24)..=M30).prop_map(|k| (k, 65536)),
        1 => sel(vec![((1 << 24) + 1, 65536), (M30, 65536), (M30 - 1, 65536)]),
        // arbitrary rationals (mostly not expressible)
        3 => (any::<i32>(), any::<i32>()).prop_map(|(n, d)| (n, if d == 0 { 1 } else { d })),
        2 => (-(1i32 << 20)..(1 << 20), 1i32..(1 << 20)),
        // magnitude >= 16384
        1 => ((1i32 << 30)..=i32::MAX, 1i32..=65536),
        1 => sel(vec![(1 << 30, 65536), (16384, 1), (20000, 1), (i32::MAX, 1)]),
    ]
    .boxed()
}

/// Splices a run of same-font characters into a horizontal list (one time in three): the
/// printer merges such runs into one `chars` call.
fn with_runs(l: BoxedStrategy<Vec<HNode>>) -> BoxedStrategy<Vec<HNode>> {
    let run = (any::<u16>(), proptest::collection::vec(ch(), 2..5), font());
    (l, prop_oneof![2 => Just(None), 1 => run.prop_map(Some)])
        .prop_map(|(mut l, run)| {
            if let Some((pos, cs, font)) = run {
                let at = ((pos as usize) * (l.len() + 1)) >> 16;
                for (k, c) in cs.into_iter().enumerate() {
                    l.insert(at + k, HNode::Char { c, font });
                }
            }
            l
        })
        .boxed()
}

type Lists = (BoxedStrategy<Vec<HNode>>, BoxedStrategy<Vec<VNode>>, BoxedStrategy<Vec<DNode>>);

fn lig_spec() -> BoxedStrategy<LigSpec> {
    (ch(), font(), short_string(), any::<bool>(), any::<bool>()).prop_map(|(c, font, orig, left, right)| LigSpec { c, font, orig, left, right }).boxed()
}

fn hbox_spec(wide: bool, wide_ratio: bool, inner: BoxedStrategy<Vec<HNode>>) -> BoxedStrategy<HBoxSpec> {
    ((scaled(wide), scaled(wide), scaled(wide), scaled(wide)), ratio(wide_ratio), 0u8..4, inner)
        .prop_map(|((h, w, d, shift), (num, den), order, list)| HBoxSpec { h, w, d, shift, num, den, order, list })
        .boxed()
}
fn vbox_spec(wide: bool, inner: BoxedStrategy<Vec<VNode>>) -> BoxedStrategy<VBoxSpec> {
    ((scaled(wide), scaled(wide), scaled(wide), scaled(wide)), inner).prop_map(|((h, w, d, shift), list)| VBoxSpec { h, w, d, shift, list }).boxed()
}
fn ins_spec(wide: bool, inner: BoxedStrategy<Vec<VNode>>) -> BoxedStrategy<InsSpec> {
    (any::<u8>(), scaled(wide), scaled(wide), glue_spec(wide), uint31(), inner)
        .prop_map(|(box_number, height, split_max_depth, skip, float_penalty, vbox)| InsSpec { box_number, height, split_max_depth, skip, float_penalty, vbox })
        .boxed()
}

/// Lists of nesting capacity `level` (0 = leaves only), built level by level (linear cost).
fn lists(wide: bool, wide_ratio: bool, level: usize, top_len: usize) -> Lists {
    let rule = || (rule_dim(wide), rule_dim(wide), rule_dim(wide));
    let h_leaf: BoxedStrategy<HNode> = prop_oneof![
        7 => (ch(), font()).prop_map(|(c, font)| HNode::Char { c, font }),
        3 => glue_spec(wide).prop_map(HNode::Glue),
        2 => scaled(wide).prop_map(HNode::Kern),
        2 => int().prop_map(HNode::Penalty),
        2 => rule().prop_map(|(h, w, d)| HNode::Rule { h, w, d }),
        2 => lig_spec().prop_map(HNode::Lig),
        1 => Just(HNode::Mark),
        1 => any::<bool>().prop_map(|after| HNode::Math { after }),
    ]
    .boxed();
    let v_leaf: BoxedStrategy<VNode> = prop_oneof![
        4 => glue_spec(wide).prop_map(VNode::Glue),
        3 => scaled(wide).prop_map(VNode::Kern),
        3 => int().prop_map(VNode::Penalty),
        3 => rule().prop_map(|(h, w, d)| VNode::Rule { h, w, d }),
        1 => Just(VNode::Mark),
        1 => any::<bool>().prop_map(|after| VNode::Math { after }),
    ]
    .boxed();
    let d_leaf: BoxedStrategy<DNode> = prop_oneof![
        6 => (ch(), font()).prop_map(|(c, font)| DNode::Char { c, font }),
        2 => scaled(wide).prop_map(DNode::Kern),
        2 => rule().prop_map(|(h, w, d)| DNode::Rule { h, w, d }),
        2 => lig_spec().prop_map(DNode::Lig),
    ]
    .boxed();
    let mut cur: Lists = (
        with_runs(proptest::collection::vec(h_leaf.clone(), 0..4).boxed()),
        proptest::collection::vec(v_leaf.clone(), 0..4).boxed(),
        proptest::collection::vec(d_leaf.clone(), 0..3).boxed(),
    );
    for lv in 1..=level {
        let (hl, vl, dl) = cur.clone();
        let h_node: BoxedStrategy<HNode> = prop_oneof![
            18 => h_leaf.clone(),
            3 => hbox_spec(wide, wide_ratio, hl.clone()).prop_map(HNode::HBox),
            2 => vbox_spec(wide, vl.clone()).prop_map(HNode::VBox),
            2 => (dl.clone(), dl.clone(), uint31()).prop_map(|(pre, post, replace)| HNode::Disc { pre, post, replace }),
            1 => vl.clone().prop_map(HNode::Adjust),
            1 => ins_spec(wide, vl.clone()).prop_map(HNode::Ins),
        ]
        .boxed();
        let v_node: BoxedStrategy<VNode> = prop_oneof![
            10 => v_leaf.clone(),
            4 => hbox_spec(wide, wide_ratio, hl.clone()).prop_map(VNode::HBox),
            2 => vbox_spec(wide, vl.clone()).prop_map(VNode::VBox),
            1 => ins_spec(wide, vl.clone()).prop_map(VNode::Ins),
        ]
        .boxed();
        let d_node: BoxedStrategy<DNode> = prop_oneof![
            10 => d_leaf.clone(),
            2 => hbox_spec(wide, wide_ratio, hl.clone()).prop_map(DNode::HBox),
            1 => vbox_spec(wide, vl.clone()).prop_map(DNode::VBox),
        ]
        .boxed();
        let n = if lv == level { top_len } else { 4 };
        cur = (
            with_runs(proptest::collection::vec(h_node, 0..=n).boxed()),
            proptest::collection::vec(v_node, 0..=n).boxed(),
            proptest::collection::vec(d_node, 0..3).boxed(),
        );
    }
    cur
}

fn top_strategy(wide: bool, wide_ratio: bool, level: usize, top_len: usize) -> BoxedStrategy<Top> {
    let (h, v, _) = lists(wide, wide_ratio, level, top_len);
    prop_oneof![
        3 => h.prop_map(Top::H),
        1 => v.prop_map(Top::V),
    ]
    .boxed()
}

pub fn tree_strategy() -> BoxedStrategy<TreeCase> {
    prop_oneof![
        14 => top_strategy(false, false, 4, 7).prop_map(|top| TreeCase { profile: "core".into(), top }),
        3 => top_strategy(false, true, 4, 5).prop_map(|top| TreeCase { profile: "wide_ratio".into(), top }),
        3 => top_strategy(true, false, 4, 5).prop_map(|top| TreeCase { profile: "wide_dim".into(), top }),
    ]
    .boxed()
}

// ------------------------------------------------------------------------------------
// (ii) styled sources: an independent renderer of the language's documented syntax

/// TeX.2021.103 print_scaled, written from the literate source (not the repository's).
pub fn print_scaled(v: i32) -> String {
    let mut out = String::new();
    let mut s = v as i64;
    if s < 0 {
        out.push('-');
        s = -s;
    }
    let _ = write!(out, "{}.", s / ONE);
    s = 10 * (s % ONE) + 5;
    let mut delta = 10i64;
    loop {
        if delta > ONE {
            s = s + 32768 - 50000;
        }
        out.push((b'0' + (s / ONE) as u8) as char);
        s = 10 * (s % ONE);
        delta *= 10;
        if s <= delta {
            break;
        }
    }
    out
}

/// Exact decimal expansion of v/65536 (at most 16 fraction digits).
fn exact_decimal(v: i32) -> String {
    let mut out = String::new();
    let mut s = v as i64;
    if s < 0 {
        out.push('-');
        s = -s;
    }
    let _ = write!(out, "{}.", s / ONE);
    let mut f = s % ONE;
    if f == 0 {
        out.push('0');
    }
    while f != 0 {
        f *= 10;
        out.push((b'0' + (f / ONE) as u8) as char);
        f %= ONE;
    }
    out
}

struct Style<'a> {
    bytes: &'a [u8],
    pos: usize,
}
impl<'a> Style<'a> {
    /// Next choice; 0 (the plain choice) once the stream is exhausted, so shrinking the stream
    /// moves the source toward the plainest rendering.
    fn next(&mut self) -> u8 {
        let b = self.bytes.get(self.pos).copied().unwrap_or(0);
        self.pos += 1;
        b
    }
    fn pick(&mut self, n: usize) -> usize {
        (self.next() as usize) % n
    }
    fn chance(&mut self, one_in: usize) -> bool {
        self.pick(one_in) == one_in - 1
    }
}

#[derive(Default, Clone)]
struct Feat {
    comments: usize,
    blank_lines: usize,
    keyword_reordered: usize,
    positional_beyond_default: usize,
    defaults_omitted: usize,
    no_commas: usize,
    sp_units: usize,
    sp_ge_32768: usize,
    unicode_escapes: usize,
    merged_chars: usize,
}

enum Val<'t> {
    Str(String),
    Int(i64),
    Dim(i32),
    Comp(i32, u8),
    Bool(bool),
    Order(u8),
    Ratio(i64),
    MaybeRunning(i32),
    H(&'t [HNode]),
    V(&'t [VNode]),
    D(&'t [DNode]),
}

struct ArgSpec<'t> {
    key: &'static str,
    val: Val<'t>,
    is_default: bool,
}

const WS: [&str; 10] = ["", " ", "\n", "  ", "\n\n", "\t", " \n  \n ", "\r\n", "\u{a0}", "\n\n\n    "];
const COMMENTS: [&str; 10] = ["", " c", " (unbalanced [", " \"quote", " \u{e9}\u{1f600}", "#double", " trailing   ", " \\", " ) ] ,", " chars(\"x\")"];

struct Renderer<'a> {
    out: String,
    st: Style<'a>,
    feat: Feat,
    /// whether `<n>sp` with n >= 32768 may be written (one source in eight)
    big_sp: bool,
}

impl<'a> Renderer<'a> {
    fn ws(&mut self) {
        // mostly nothing or a space
        let i = if self.st.chance(3) { self.st.pick(WS.len()) } else { self.st.pick(2) };
        if WS[i].matches('\n').count() >= 2 {
            self.feat.blank_lines += 1;
        }
        self.out.push_str(WS[i]);
    }
    fn maybe_comment(&mut self) {
        if self.st.chance(6) {
            let i = self.st.pick(COMMENTS.len());
            self.out.push('#');
            self.out.push_str(COMMENTS[i]);
            self.out.push('\n');
            self.feat.comments += 1;
            self.ws();
        }
    }
    fn gap(&mut self) {
        self.ws();
        self.maybe_comment();
    }
    fn string(&mut self, s: &str) {
        self.out.push('"');
        for c in s.chars() {
            let mode = self.st.pick(4);
            let must_escape = c == '"' || c == '\\';
            if mode == 3 {
                let _ = write!(self.out, "\\u{{{:x}}}", c as u32);
                self.feat.unicode_escapes += 1;
            } else if must_escape || mode == 2 {
                match c {
                    '"' => self.out.push_str("\\\""),
                    '\\' => self.out.push_str("\\\\"),
                    '\n' => self.out.push_str("\\n"),
                    '\t' => self.out.push_str("\\t"),
                    '\r' => self.out.push_str("\\r"),
                    '\0' => self.out.push_str("\\0"),
                    '\'' => self.out.push_str("\\'"),
                    c => self.out.push(c),
                }
            } else {
                self.out.push(c);
            }
        }
        self.out.push('"');
    }
    fn decimal(&mut self, v: i32) -> String {
        match self.st.pick(4) {
            0 | 1 => print_scaled(v),
            2 => exact_decimal(v),
            _ => {
                // leading zero in the integer part, trailing zeros in the fraction
                let p = print_scaled(v);
                let (sign, rest) = match p.strip_prefix('-') {
                    Some(r) => ("-", r.to_string()),
                    None => ("", p.clone()),
                };
                format!("{sign}0{rest}00")
            }
        }
    }
    fn dim(&mut self, v: i32) {
        // `sp` spelling; values of 32768sp and more hit a lexer panic (reported), so they are rarer
        if v.abs() <= M30 && self.st.chance(4) && (v.abs() < 32768 || self.big_sp) {
            self.feat.sp_units += 1;
            if v.abs() >= 32768 {
                self.feat.sp_ge_32768 += 1;
            }
            let _ = write!(self.out, "{}sp", v);
        } else {
            let d = self.decimal(v);
            let _ = write!(self.out, "{}pt", d);
        }
    }
    fn value(&mut self, v: &Val<'_>) {
        match v {
            Val::Str(s) => self.string(s),
            Val::Int(i) => {
                if self.st.chance(5) && *i >= 0 {
                    let _ = write!(self.out, "00{}", i);
                } else {
                    let _ = write!(self.out, "{}", i);
                }
            }
            Val::Dim(d) => self.dim(*d),
            Val::Comp(d, 0) => self.dim(*d),
            Val::Comp(d, o) => {
                let dec = self.decimal(*d);
                let _ = write!(self.out, "{}{}", dec, ["pt", "fil", "fill", "filll"][(*o % 4) as usize]);
            }
            Val::Bool(b) => {
                let _ = write!(self.out, "\"{}\"", b);
            }
            Val::Order(o) => {
                let _ = write!(self.out, "\"{}\"", ["normal", "fil", "fill", "filll"][(*o % 4) as usize]);
            }
            Val::Ratio(k) => {
                let k = *k as i32;
                let d = if k % 65536 == 0 && self.st.chance(3) { format!("{}", k / 65536) } else { self.decimal(k) };
                let _ = write!(self.out, "\"{}\"", d);
            }
            Val::MaybeRunning(d) => {
                if *d == RUNNING {
                    self.out.push_str("\"running\"");
                } else {
                    self.dim(*d)
                }
            }
            Val::H(l) => {
                self.out.push('[');
                self.hlist(l);
                self.gap();
                self.out.push(']');
            }
            Val::V(l) => {
                self.out.push('[');
                self.vlist(l);
                self.gap();
                self.out.push(']');
            }
            Val::D(l) => {
                self.out.push('[');
                self.dlist(l);
                self.gap();
                self.out.push(']');
            }
        }
    }
    fn call(&mut self, name: &str, args: Vec<ArgSpec<'_>>) {
        self.gap();
        self.out.push_str(name);
        self.gap();
        self.out.push('(');
        // first `npos` arguments positionally (in declaration order), the others by keyword
        let default_pos = match name {
            "chars" | "penalty" | "kern" | "insertion" | "math" => 1,
            "glue" | "rule" => 3,
            "lig" => 2,
            _ => 0,
        };
        let npos = match self.st.pick(4) {
            0 => default_pos.min(args.len()),
            1 => 0,
            _ => self.st.pick(args.len() + 1),
        };
        if npos > default_pos {
            self.feat.positional_beyond_default += 1;
        }
        let mut order: Vec<usize> = (npos..args.len()).collect();
        if self.st.chance(2) && order.len() > 1 {
            for i in (1..order.len()).rev() {
                let j = self.st.pick(i + 1);
                order.swap(i, j);
            }
            if order.windows(2).any(|w| w[0] > w[1]) {
                self.feat.keyword_reordered += 1;
            }
        }
        let omit_defaults = self.st.chance(2);
        let commas = !self.st.chance(4);
        if !commas {
            self.feat.no_commas += 1;
        }
        let mut seq: Vec<(usize, bool)> = (0..npos).map(|i| (i, false)).collect();
        for i in order {
            if omit_defaults && args[i].is_default {
                self.feat.defaults_omitted += 1;
                continue;
            }
            seq.push((i, true));
        }
        let n = seq.len();
        for (j, (i, keyword)) in seq.into_iter().enumerate() {
            self.gap();
            if keyword {
                self.out.push_str(args[i].key);
                self.gap();
                self.out.push('=');
                self.gap();
            }
            self.value(&args[i].val);
            self.gap();
            let last = j + 1 == n;
            if commas && (!last || self.st.chance(2)) {
                self.out.push(',');
            } else if !last {
                // no comma: keep the tokens apart
                self.out.push(' ');
            }
        }
        self.gap();
        self.out.push(')');
    }
    fn a<'t>(key: &'static str, val: Val<'t>, is_default: bool) -> ArgSpec<'t> {
        ArgSpec { key, val, is_default }
    }
    fn chars(&mut self, s: &str, font: u32) {
        self.call("chars", vec![Self::a("content", Val::Str(s.to_string()), s.is_empty()), Self::a("font", Val::Int(font as i64), font == 0)]);
    }
    fn glue_args<'t>(g: &GlueSpec, names: [&'static str; 3]) -> Vec<ArgSpec<'t>> {
        vec![
            Self::a(names[0], Val::Dim(g.w), g.w == 0),
            Self::a(names[1], Val::Comp(g.st, g.sto), g.st == 0 && g.sto % 4 == 0),
            Self::a(names[2], Val::Comp(g.sh, g.sho), g.sh == 0 && g.sho % 4 == 0),
        ]
    }
    fn rule(&mut self, h: i32, w: i32, d: i32) {
        self.call("rule", vec![Self::a("height", Val::MaybeRunning(h), h == 0), Self::a("width", Val::MaybeRunning(w), w == 0), Self::a("depth", Val::MaybeRunning(d), d == 0)]);
    }
    fn lig(&mut self, l: &LigSpec) {
        self.call(
            "lig",
            vec![
                Self::a("char", Val::Str(l.c.to_string()), l.c == '\0'),
                Self::a("original_chars", Val::Str(l.orig.clone()), l.orig.is_empty()),
                Self::a("font", Val::Int(l.font as i64), l.font == 0),
                Self::a("includes_left_boundary", Val::Bool(l.left), !l.left),
                Self::a("includes_right_boundary", Val::Bool(l.right), !l.right),
            ],
        );
    }
    fn hbox(&mut self, b: &HBoxSpec) {
        let k = expected_k(b.num, b.den, Deviations::default()).expect("core profile ratios are expressible");
        self.call(
            "hbox",
            vec![
                Self::a("height", Val::Dim(b.h), b.h == 0),
                Self::a("width", Val::Dim(b.w), b.w == 0),
                Self::a("depth", Val::Dim(b.d), b.d == 0),
                Self::a("shift_amount", Val::Dim(b.shift), b.shift == 0),
                Self::a("glue_ratio", Val::Ratio(k), k == 0),
                Self::a("glue_order", Val::Order(b.order), b.order % 4 == 0),
                Self::a("content", Val::H(&b.list), b.list.is_empty()),
            ],
        );
    }
    fn vbox(&mut self, b: &VBoxSpec) {
        self.call(
            "vbox",
            vec![
                Self::a("height", Val::Dim(b.h), b.h == 0),
                Self::a("width", Val::Dim(b.w), b.w == 0),
                Self::a("depth", Val::Dim(b.d), b.d == 0),
                Self::a("shift_amount", Val::Dim(b.shift), b.shift == 0),
                Self::a("content", Val::V(&b.list), b.list.is_empty()),
            ],
        );
    }
    fn ins(&mut self, i: &InsSpec) {
        let mut args = vec![Self::a("box_number", Val::Int(i.box_number as i64), i.box_number == 0), Self::a("height", Val::Dim(i.height), i.height == 0), Self::a("split_max_depth", Val::Dim(i.split_max_depth), i.split_max_depth == 0)];
        args.extend(Self::glue_args(&i.skip, ["split_top_skip_width", "split_top_skip_stretch", "split_top_skip_shrink"]));
        args.push(Self::a("float_penalty", Val::Int(i.float_penalty as i64), i.float_penalty == 0));
        args.push(Self::a("vbox", Val::V(&i.vbox), i.vbox.is_empty()));
        self.call("insertion", args);
    }
    fn mark(&mut self) {
        self.call("mark", vec![Self::a("dummy", Val::Int(0), true)]);
    }
    fn math(&mut self, after: bool) {
        self.call("math", vec![Self::a("kind", Val::Str(if after { "after" } else { "before" }.into()), !after)]);
    }
    fn hlist(&mut self, l: &[HNode]) {
        let mut i = 0;
        while i < l.len() {
            match &l[i] {
                HNode::Char { c, font } => {
                    // optionally merge a run of same-font characters into one call
                    let mut s = c.to_string();
                    let mut j = i + 1;
                    while j < l.len() {
                        match &l[j] {
                            HNode::Char { c: c2, font: f2 } if f2 == font && self.st.chance(2) => {
                                s.push(*c2);
                                j += 1;
                            }
                            _ => break,
                        }
                    }
                    if j > i + 1 {
                        self.feat.merged_chars += 1;
                    }
                    self.chars(&s, *font);
                    i = j;
                    continue;
                }
                HNode::Glue(g) => self.call("glue", Self::glue_args(g, ["width", "stretch", "shrink"])),
                HNode::Kern(w) => self.call("kern", vec![Self::a("width", Val::Dim(*w), *w == 0)]),
                HNode::Penalty(p) => self.call("penalty", vec![Self::a("value", Val::Int(*p as i64), *p == 0)]),
                HNode::Rule { h, w, d } => self.rule(*h, *w, *d),
                HNode::Lig(l) => self.lig(l),
                HNode::Disc { pre, post, replace } => self.call(
                    "disc",
                    vec![Self::a("pre_break", Val::D(pre), pre.is_empty()), Self::a("post_break", Val::D(post), post.is_empty()), Self::a("replace_count", Val::Int(*replace as i64), *replace == 0)],
                ),
                HNode::HBox(b) => self.hbox(b),
                HNode::VBox(b) => self.vbox(b),
                HNode::Ins(x) => self.ins(x),
                HNode::Mark => self.mark(),
                HNode::Adjust(v) => self.call("adjust", vec![Self::a("content", Val::V(v), v.is_empty())]),
                HNode::Math { after } => self.math(*after),
            }
            i += 1;
        }
    }
    fn vlist(&mut self, l: &[VNode]) {
        for n in l {
            match n {
                VNode::HBox(b) => self.hbox(b),
                VNode::VBox(b) => self.vbox(b),
                VNode::Glue(g) => self.call("glue", Self::glue_args(g, ["width", "stretch", "shrink"])),
                VNode::Kern(w) => self.call("kern", vec![Self::a("width", Val::Dim(*w), *w == 0)]),
                VNode::Penalty(p) => self.call("penalty", vec![Self::a("value", Val::Int(*p as i64), *p == 0)]),
                VNode::Rule { h, w, d } => self.rule(*h, *w, *d),
                VNode::Mark => self.mark(),
                VNode::Ins(x) => self.ins(x),
                VNode::Math { after } => self.math(*after),
            }
        }
    }
    fn dlist(&mut self, l: &[DNode]) {
        for n in l {
            match n {
                DNode::Char { c, font } => self.chars(&c.to_string(), *font),
                DNode::Kern(w) => self.call("kern", vec![Self::a("width", Val::Dim(*w), *w == 0)]),
                DNode::HBox(b) => self.hbox(b),
                DNode::VBox(b) => self.vbox(b),
                DNode::Rule { h, w, d } => self.rule(*h, *w, *d),
                DNode::Lig(l) => self.lig(l),
            }
        }
    }
}

fn render_styled(top: &Top, style: &[u8]) -> (String, Feat) {
    let mut r = Renderer { out: String::new(), st: Style { bytes: style, pos: 0 }, feat: Feat::default(), big_sp: false };
    r.big_sp = r.st.chance(8);
    match top {
        Top::H(l) => r.hlist(l),
        Top::V(l) => r.vlist(l),
    }
    r.gap();
    // final newline unless the style asks for none (a comment on the last line then has no newline)
    if !r.st.chance(4) {
        r.out.push('\n');
    }
    (r.out, r.feat)
}

#[derive(Clone, Debug, Serialize, Deserialize)]
pub struct StyledCase {
    pub top: Top,
    pub style: Vec<u8>,
}

pub fn styled_strategy() -> BoxedStrategy<StyledCase> {
    (top_strategy(false, false, 3, 5), proptest::collection::vec(any::<u8>(), 0..600)).prop_map(|(top, style)| StyledCase { top, style }).boxed()
}

fn format_oracle(ctx: &Ctx, c: &StyledCase, case: &mut Case) -> Verdict {
    let st = Stats::of(&c.top);
    if outside_domain(&st).is_some() || st.dim_out_of_lang_range || canon_top(&c.top, Deviations::default()).is_none() {
        return Verdict::Skip("outside the language's documented domain");
    }
    let (src, feat) = render_styled(&c.top, &c.style);
    case.note = Some(clip(&src, 600));
    case.class_if(feat.comments > 0, "has_comments");
    case.class_if(feat.blank_lines > 0, "has_blank_lines");
    case.class_if(feat.keyword_reordered > 0, "keywords_reordered");
    case.class_if(feat.positional_beyond_default > 0, "positional_where_printer_uses_keyword");
    case.class_if(feat.defaults_omitted > 0, "defaults_omitted");
    case.class_if(feat.no_commas > 0, "commas_omitted");
    case.class_if(feat.sp_units > 0, "sp_units");
    case.class_if(feat.unicode_escapes > 0, "unicode_escapes");
    case.class_if(feat.merged_chars > 0, "merged_chars");
    case.class_if(st.depth >= 2, "depth>=2");
    case.class_if(st.escape_char, "char_needs_escape");
    case.class_if(st.limit_value, "value_at_limit");
    let top_is_h = matches!(c.top, Top::H(_));
    let want = canon_top(&c.top, Deviations::default()).unwrap();

    // 1. the styled source means the tree it was rendered from
    // The only excusable panic here: the listed lexer overflow on `<n>sp` with n >= 32768.
    let allow = feat.sp_ge_32768 > 0;
    case.class_if(allow, "sp_value>=32768");
    let got = match parse_as(ctx, top_is_h, &src, allow) {
        Ok(Ok(g)) => g,
        Ok(Err(e)) => return Verdict::Fail(format!("a source written in the documented syntax does not parse: {e}\n  source:\n{}", clip(&src, 2000))),
        Err(v) => return v,
    };
    if got != want {
        return Verdict::Fail(format!("the source parses to a different list than the one it was written from\n  {}\n  source:\n{}", first_diff(&format!("{:?}", want), &format!("{:?}", got)), clip(&src, 2000)));
    }
    // 2. format is defined on it and idempotent
    let f1 = match guard(ctx, "format", &src, false, || format_src(&src)) {
        Ok(Parsed::Ok(s)) => s,
        Ok(Parsed::Errs(n, s)) => return Verdict::Fail(format!("format rejects a source that parses: {n} errors {s}\n  source:\n{}", clip(&src, 2000))),
        Ok(Parsed::Bad(m)) => return Verdict::Fail(format!("format: {m}\n  source:\n{}", clip(&src, 2000))),
        Err(v) => return v,
    };
    let f2 = match guard(ctx, "format∘format", &f1, false, || format_src(&f1)) {
        Ok(Parsed::Ok(s)) => s,
        Ok(Parsed::Errs(n, s)) => return Verdict::Fail(format!("format(s) is rejected by format: {n} errors {s}\n  source:\n{}\n  format(s):\n{}", clip(&src, 1500), clip(&f1, 1500))),
        Ok(Parsed::Bad(m)) => return Verdict::Fail(format!("format∘format: {m}")),
        Err(v) => return v,
    };
    if f1 != f2 {
        return Verdict::Fail(format!("format is not idempotent\n  {}\n  source:\n{}\n  format(s):\n{}", first_diff(&f1, &f2), clip(&src, 1500), clip(&f1, 1500)));
    }
    // 3. formatting does not change the meaning
    let got2 = match parse_as(ctx, top_is_h, &f1, false) {
        Ok(Ok(g)) => g,
        Ok(Err(e)) => return Verdict::Fail(format!("format(s) does not parse: {e}\n  source:\n{}\n  format(s):\n{}", clip(&src, 1500), clip(&f1, 1500))),
        Err(v) => return v,
    };
    if got2 != want {
        return Verdict::Fail(format!("parse(format(s)) != parse(s)\n  {}\n  source:\n{}\n  format(s):\n{}", first_diff(&format!("{:?}", want), &format!("{:?}", got2)), clip(&src, 1500), clip(&f1, 1500)));
    }
    let perturbed = feat.comments + feat.blank_lines + feat.keyword_reordered + feat.positional_beyond_default + feat.defaults_omitted + feat.no_commas + feat.sp_units + feat.unicode_escapes > 0;
    Verdict::pass(perturbed && st.nontrivial())
}

// ------------------------------------------------------------------------------------
// (iii) arbitrary text

const ALL_ERRORS_BOX: &str = include_str!("/repo/crates/boxworks/src/lang/all_errors.box");
const WOLF_HALL: &str = include_str!("/repo/crates/boxworks-bin/tests/wolf_hall_linebreak_right_skip.txt");
const WOLF_HALL_PENALTIES: &str = include_str!("/repo/crates/boxworks-bin/tests/wolf_hall_linebreak_vlist_penalties.txt");

/// Box-language texts used by the repository's own tests (doc tests of lang/mod.rs, the
/// formatter example, boxworks-text / boxworks-hyphenate / boxworks-testing goldens).
const INLINE_SEEDS: &[&str] = &[
    "chars(\"Box\")\nglue(1pt, 5fil, 0.075in)\nchars(\"A\")\nkern(-0.1pt)\nchars(\"V\")\n",
    "chars(\"A\", 1)",
    "chars(font=2, content=\"B\")",
    "chars(\"C\", font=3)",
    "# This is a\n#  list of things\nhlist\n\n        (\n    1.0pt, height =2.0pt,\n\n    contents = [ # glue is good\n        glue(  ) \n    \nchars(\"Hello\", font = \n# we use an unusual font here\n1)\n\n    chars(\"Hello\", font =  \n\n\n    0) chars(\"World\")] ,\n        # Infinite glue\n    other=3.0fill,\n    # there are no more arguments\n)\n",
    "hbox(\n    width=1pt,\n    content=[chars(\"Hello\")],\n)\n",
    "vbox(\n  content=[\n    hbox(\n      content=[\n        chars(\"AZ\", 33)\n      ]\n    )\n  ]\n)\n",
    "chars(\"a\")\ndisc(\n  pre_break=[\n    chars(\"-\")\n  ],\n)\nchars(\"b\")\n",
    "disc(\n  pre_break=[\n    chars(\"a\")\n    lig(\"x\", \"\")\n    chars(\"-\")\n  ],\n  replace_count=1,\n)\nchars(\"a\")\nchars(\"b\")\n",
    "lig(\"\\u{b}\", \"ff\")\nlig(\"\\u{e}\", \"ffi\")\n",
    "lig(\"$\", \"\", includes_left_boundary=\"true\")\nchars(\"123\")\nlig(\"#\", \"\")\nchars(\"B\")\nlig(\"#\", \"\", includes_right_boundary=\"true\")\n",
    "chars(\"A\")\nkern(-1.11113pt)\nchars(\"V\")\n",
    "a(b=[c()])",
    "a(b=[#X\n])",
    "lig(\"\\\"\")lig(\"\\\"\")lig(\"\\\\\")lig(\"\\\\\")chars()",
    "f#X\n(3,key#Y\n=4#Z\n,#W\n)",
    "rule(\"running\", 1pt, \"running\")\nmark()\nadjust(content=[kern(1pt)])\nmath(\"after\")\ninsertion(3, height=1pt, vbox=[glue(1pt, 2fill, 3filll)])\n",
];

fn seeds() -> Vec<(String, bool)> {
    // (text, expected to parse as a horizontal list)
    let mut v: Vec<(String, bool)> = vec![(ALL_ERRORS_BOX.to_string(), false)];
    for para in ALL_ERRORS_BOX.split("\n\n") {
        v.push((format!("{}\n", para), false));
    }
    // one paragraph (vbox) and single lines (hbox) of the TeX-verified goldens
    for big in [WOLF_HALL, WOLF_HALL_PENALTIES] {
        v.push((big.to_string(), true));
        let lines: Vec<&str> = big.lines().collect();
        let starts: Vec<usize> = lines.iter().enumerate().filter(|(_, l)| l.starts_with("    hbox(")).map(|(i, _)| i).collect();
        for w in starts.windows(2).take(4) {
            let block: Vec<String> = lines[w[0]..w[1]].iter().map(|l| l.trim_start().to_string()).collect();
            v.push((block.join("\n") + "\n", true));
        }
    }
    for (i, s) in INLINE_SEEDS.iter().enumerate() {
        // seeds 4, 12, 13, 15 use function names that only exist at the CST level
        let ok = !matches!(i, 4 | 12 | 13 | 15);
        v.push((s.to_string(), ok));
    }
    v
}

#[derive(Clone, Debug, Serialize, Deserialize)]
pub struct TextCase {
    pub origin: String,
    pub text: String,
}

const VOCAB: &[&str] = &[
    "chars", "glue", "penalty", "kern", "hbox", "vbox", "lig", "disc", "rule", "mark", "adjust", "insertion", "math", "content", "font", "width", "stretch", "shrink", "value", "height",
    "depth", "shift_amount", "glue_ratio", "glue_order", "char", "original_chars", "includes_left_boundary", "includes_right_boundary", "pre_break", "post_break", "replace_count", "dummy",
    "box_number", "split_max_depth", "split_top_skip_width", "split_top_skip_stretch", "float_penalty", "kind", "(", ")", "[", "]", "(", ")", "[", "]", ",", "=", "#", "\n", " ", "\"", "\\",
    "-", ".", "0", "1", "9", "10", "65536", "pt", "sp", "in", "fil", "fill", "filll", "pc", "cm", "mm", "bp", "dd", "cc", "true", "false", "running", "normal", "before", "after", "\"a\"",
    "\"true\"", "\"running\"", "\"fil\"", "\"1.5\"", "1pt", "-2.5pt", "3fil", "\u{e9}", "\u{1f600}", "\u{301}", "u", "{", "}", "_", "x", "\t", "\r", "\u{a0}", "'", "/", "*", "\\u{41}",
    "\\n", "()", "[]", "=[", "(\"", "\")", "content=[", "chars(\"", "\",",
];

const NUMBERS: &[&str] = &[
    "2147483647", "2147483648", "-2147483647", "-2147483648", "99999999999999999999", "-99999999999", "16383.99998pt", "-16383.99998pt", "16383.99999pt", "16384pt", "-16384.0pt",
    "16383.999999999pt", "32767.99998pt", "32768pt", "-32768.0pt", "1073741823sp", "1073741824sp", "-1073741824sp", "99999999999sp", "2147483647sp", "32767.99998fil", "32768fil",
    "-32768.0fill", "99999999999filll", "1.1.1pt", "1.", "1.5", "1e5pt", "0x10", "1truept", "5fillll", "1fi", "-", "--1", "-.5pt", ".5pt", "5.pt", "1.00000000000000000000000001pt",
    "0.999999999999999999999pt", "007", "-0", "-0pt", "1pT", "1PT", "1in", "226.74in", "226.75in", "16383cc", "1280cc", "5000000dd", "576cm", "5760mm", "1365pc", "1366pc", "16322bp",
    "16323bp", "0.0000076293945312sp", "1.5sp", "3_pt", "1p", "1ptt", "12345678901pt", "4294967296", "0.5fil", "-0.00001fil", "1_",
];

const STRINGS: &[&str] = &[
    "\"\\a\"", "\"\\u{110000}\"", "\"\\u{d800}\"", "\"\\u{fffffffff}\"", "\"\\u{ffffffff}\"", "\"\\u{}\"", "\"\\u{zz}\"", "\"\\u\"", "\"\\ux\"", "\"\\u\u{e9}\"", "\"\\u\u{1f600}x\"",
    "\"\\u{41\"", "\"abc", "\"\\\"", "\"\u{e9}\\\"", "\"\\", "\"\"", "\"\\x41\"", "\"\\u{1F600}\"", "\"\\u{41}\\u{42}\"", "\"a\\\\b\"", "\"\\'\"", "\"\\\"\"", "\"\\0\\n\\t\\r\"", "\"\n\"",
    "\"#\"", "\"(\"", "\"]\"", "\"\u{301}\"", "\"\\u {41}\"", "\"\\u{ 41}\"", "\"\\u{0041}\"", "\"\\U{41}\"", "\"\\\u{e9}\"", "\"\\\u{1f600}\"", "\"running\"", "\"true\"", "\"TRUE\"",
    "\"1.5\"", "\"-1.5\"", "\"20000.0\"", "\"16383.99998\"", "\"16384\"", "\"1e3\"", "\"nan\"", "\"\"\"", "\"0x\"", "\".5\"", "\"5.\"", "\"99999999999\"", "\"1.5pt\"", "\"\u{e9}\"",
];

const NONASCII: &[&str] = &["\u{e9}", "\u{1f600}", "\u{301}", "\u{a0}", "\u{2028}", "\u{feff}", "\u{85}", "\u{3000}", "\u{0}", "\u{7f}"];
const PUNCT: &[&str] = &[",", "=", "#", "\\", "\"", "(", ")", "[", "]", "\n", " ", "-", ".", "_"];

/// Splits text into lexical pieces (this file's own rough tokenizer; pieces concatenate to the text).
fn tokenize(s: &str) -> Vec<String> {
    let cs: Vec<char> = s.chars().collect();
    let mut out = vec![];
    let mut i = 0;
    while i < cs.len() {
        let c = cs[i];
        let start = i;
        if c.is_whitespace() {
            while i < cs.len() && cs[i].is_whitespace() {
                i += 1;
            }
        } else if c == '#' {
            while i < cs.len() && cs[i] != '\n' {
                i += 1;
            }
        } else if c == '"' {
            i += 1;
            while i < cs.len() && cs[i] != '"' {
                if cs[i] == '\\' {
                    i += 1;
                }
                i += 1;
            }
            i = (i + 1).min(cs.len());
        } else if c.is_ascii_alphabetic() || c == '_' {
            while i < cs.len() && (cs[i].is_ascii_alphabetic() || cs[i] == '_') {
                i += 1;
            }
        } else if c.is_ascii_digit() || c == '-' {
            i += 1;
            while i < cs.len() && (cs[i].is_ascii_digit() || cs[i] == '.') {
                i += 1;
            }
            while i < cs.len() && cs[i].is_ascii_alphabetic() {
                i += 1;
            }
        } else {
            i += 1;
        }
        out.push(cs[start..i].iter().collect());
    }
    out
}

/// One mutation: (kind, position selector, auxiliary selector).
type Mut = (u8, u16, u16);

fn is_blank(t: &str) -> bool {
    t.chars().all(|c| c.is_whitespace())
}

fn mutate(text: &str, muts: &[Mut]) -> String {
    let mut toks = tokenize(text);
    for &(kind, pos, aux) in muts {
        // positions address non-blank tokens
        let solid: Vec<usize> = toks.iter().enumerate().filter(|(_, t)| !is_blank(t)).map(|(i, _)| i).collect();
        let at = |p: u16| -> usize {
            if solid.is_empty() {
                0
            } else {
                solid[pick_idx(p, solid.len())]
            }
        };
        let i = at(pos);
        let j = at(aux);
        let ins = |p: u16| -> usize { ((p as usize) * (toks.len() + 1)) >> 16 };
        match kind % 14 {
            0 => {
                if i < toks.len() {
                    toks.remove(i);
                }
            }
            1 => {
                if i < toks.len() {
                    let t = toks[i].clone();
                    toks.insert(i, t);
                }
            }
            2 => {
                if i < toks.len() && j < toks.len() {
                    toks.swap(i, j);
                }
            }
            3 => {
                let k = ins(pos);
                toks.insert(k, ["(", ")", "[", "]"][(aux % 4) as usize].to_string());
            }
            4 => {
                // replace a numeric token (or any token) by a boundary numeral
                let nums: Vec<usize> = solid.iter().copied().filter(|&k| toks[k].chars().next().map(|c| c.is_ascii_digit() || c == '-').unwrap_or(false)).collect();
                let n = NUMBERS[pick_idx(aux, NUMBERS.len())].to_string();
                if !nums.is_empty() {
                    let k = nums[pick_idx(pos, nums.len())];
                    toks[k] = n;
                } else if i < toks.len() {
                    toks[i] = n;
                } else {
                    toks.push(n);
                }
            }
            5 => {
                let strs: Vec<usize> = solid.iter().copied().filter(|&k| toks[k].starts_with('"')).collect();
                let n = STRINGS[pick_idx(aux, STRINGS.len())].to_string();
                if !strs.is_empty() {
                    let k = strs[pick_idx(pos, strs.len())];
                    toks[k] = n;
                } else {
                    let k = ins(pos);
                    toks.insert(k, n);
                }
            }
            6 => {
                let k = ins(pos);
                toks.insert(k, NONASCII[pick_idx(aux, NONASCII.len())].to_string());
            }
            7 => {
                // truncate at a character position
                let all: String = toks.concat();
                let n = all.chars().count();
                let keep = ((pos as usize) * (n + 1)) >> 16;
                let cut: String = all.chars().take(keep).collect();
                toks = tokenize(&cut);
            }
            8 => {
                let k = ins(pos);
                toks.insert(k, PUNCT[pick_idx(aux, PUNCT.len())].to_string());
            }
            9 => {
                let words: Vec<usize> = solid.iter().copied().filter(|&k| toks[k].chars().next().map(|c| c.is_ascii_alphabetic()).unwrap_or(false)).collect();
                if !words.is_empty() {
                    let k = words[pick_idx(pos, words.len())];
                    toks[k] = VOCAB[pick_idx(aux, 38)].to_string();
                }
            }
            10 => {
                // delete one character
                let all: String = toks.concat();
                let n = all.chars().count();
                if n > 0 {
                    let k = pick_idx(pos, n);
                    let cut: String = all.chars().enumerate().filter(|(x, _)| *x != k).map(|(_, c)| c).collect();
                    toks = tokenize(&cut);
                }
            }
            11 => {
                // insert a character inside a token (splits strings, numbers, keywords)
                if i < toks.len() {
                    let cs: Vec<char> = toks[i].chars().collect();
                    let k = ((aux as usize) * (cs.len() + 1)) >> 16;
                    let frag = PUNCT[(aux as usize / 7) % PUNCT.len()];
                    let s: String = cs[..k].iter().collect::<String>() + frag + &cs[k..].iter().collect::<String>();
                    toks[i] = s;
                }
            }
            12 => {
                // drop all whitespace around a token (glues neighbours together)
                if i > 0 && is_blank(&toks[i - 1]) {
                    toks.remove(i - 1);
                }
            }
            _ => {
                // replace a token by a comment without newline / with CR
                if i < toks.len() {
                    toks[i] = ["# c", "#\r", "#\"", "# (\n"][(aux % 4) as usize].to_string();
                }
            }
        }
    }
    toks.concat()
}

fn muts_strategy() -> BoxedStrategy<Vec<Mut>> {
    proptest::collection::vec((0u8..14, any::<u16>(), any::<u16>()), 1..5).boxed()
}

fn safe_print(top: &Top) -> String {
    panics::catch(|| match top {
        Top::H(l) => print_h(&h_to_ds(l)),
        Top::V(l) => print_v(&v_to_ds(l)),
    })
    .unwrap_or_default()
}

pub fn text_strategy() -> BoxedStrategy<TextCase> {
    let seed_texts: std::sync::Arc<Vec<String>> = std::sync::Arc::new(seeds().into_iter().map(|s| s.0).collect());
    let n_seeds = seed_texts.len();
    let st = seed_texts.clone();
    let soup = proptest::collection::vec((0..VOCAB.len(), 0u8..4), 1..40).prop_map(|v| {
        let mut s = String::new();
        for (i, sep) in v {
            s.push_str(VOCAB[i]);
            if sep == 0 {
                s.push(' ');
            }
        }
        TextCase { origin: "soup".into(), text: s }
    });
    let small_tree = top_strategy(false, false, 2, 3);
    let numeric = (sel(vec!["kern(@)", "glue(@, @, @)", "glue(0pt, @)", "penalty(@)", "chars(\"a\", @)", "rule(@, \"running\")", "hbox(width=@, glue_ratio=\"@\")", "hbox(glue_ratio=@)", "insertion(@, float_penalty=@)", "disc(replace_count=@)", "lig(@)", "chars(@)", "math(@)", "hbox(content=[kern(@)])", "@"]), proptest::collection::vec(0..(NUMBERS.len() + STRINGS.len()), 3))
        .prop_map(|(tpl, picks)| {
            let mut s = String::new();
            let mut k = 0;
            for c in tpl.chars() {
                if c == '@' {
                    let p = picks[k % picks.len()];
                    k += 1;
                    s.push_str(if p < NUMBERS.len() { NUMBERS[p] } else { STRINGS[p - NUMBERS.len()] });
                } else {
                    s.push(c);
                }
            }
            TextCase { origin: "numeric_probe".into(), text: s }
        });
    prop_oneof![
        3 => soup,
        4 => (0..n_seeds, muts_strategy()).prop_map(move |(i, m)| TextCase { origin: "golden_mutated".into(), text: mutate(&st[i], &m) }),
        4 => (small_tree.clone(), muts_strategy()).prop_map(|(t, m)| TextCase { origin: "pretty_mutated".into(), text: mutate(&safe_print(&t), &m) }),
        2 => (small_tree, proptest::collection::vec(any::<u8>(), 0..200), muts_strategy()).prop_map(|(t, style, m)| TextCase { origin: "styled_mutated".into(), text: mutate(&render_styled(&t, &style).0, &m) }),
        3 => numeric,
    ]
    .boxed()
}

fn bracket_depth(s: &str) -> usize {
    let (mut d, mut m) = (0usize, 0usize);
    for c in s.chars() {
        match c {
            '(' | '[' => {
                d += 1;
                m = m.max(d);
            }
            ')' | ']' => d = d.saturating_sub(1),
            _ => {}
        }
    }
    m
}

/// An error list that is empty or carries a span outside the source. Excused only by the listed
/// `\u`-without-brace defect, and only on texts that contain such an escape.
fn bad_location(ctx: &Ctx, text: &str, what: &str, m: &str) -> Verdict {
    if has_u_escape_without_brace(text) && ctx.known(FLAG_U_ESCAPE) {
        return Verdict::Known(FLAG_U_ESCAPE.into());
    }
    Verdict::Fail(format!("{what}: {m}\n  text: {}", clip(text, 1500)))
}

fn text_oracle(ctx: &Ctx, t: &TextCase, case: &mut Case, expect_ok: Option<bool>) -> Verdict {
    let text = t.text.as_str();
    case.note = Some(clip(text, 400));
    case.class(match t.origin.as_str() {
        "soup" => "origin_soup",
        "golden_mutated" => "origin_golden_mutated",
        "pretty_mutated" => "origin_pretty_mutated",
        "styled_mutated" => "origin_styled_mutated",
        "numeric_probe" => "origin_numeric_probe",
        "golden" => "origin_golden",
        _ => "origin_other",
    });
    let depth = bracket_depth(text);
    let has_limit = NUMBERS[..24].iter().any(|n| text.contains(n));
    case.class_if(depth >= 2, "bracket_depth>=2");
    case.class_if(text.contains('\\'), "has_backslash");
    case.class_if(!text.is_ascii(), "has_non_ascii");
    case.class_if(has_limit, "has_limit_numeral");
    let nontrivial = depth >= 2 || text.contains('\\') || !text.is_ascii() || has_limit;

    // horizontal parser
    let h = match guard(ctx, "parse_horizontal_list", text, true, || match parse_h(text) {
        Parsed::Ok(l) => Parsed::Ok(h_from_ds(&l)),
        Parsed::Errs(n, s) => Parsed::Errs(n, s),
        Parsed::Bad(m) => Parsed::Bad(m),
    }) {
        Ok(p) => p,
        Err(v) => return v,
    };
    let h_list = match h {
        Parsed::Ok(Ok(l)) => {
            case.class("h_parse_ok");
            Some(l)
        }
        Parsed::Ok(Err(e)) => return Verdict::Fail(format!("parse_horizontal_list produced a node the language has no syntax for: {e}\n  text: {}", clip(text, 1500))),
        Parsed::Errs(..) => {
            case.class("h_parse_errors");
            None
        }
        Parsed::Bad(m) => return bad_location(ctx, text, "parse_horizontal_list", &m),
    };
    if let Some(want_ok) = expect_ok {
        if want_ok != h_list.is_some() {
            return Verdict::Fail(format!("golden text: expected parse success = {want_ok}\n  text: {}", clip(text, 600)));
        }
    }
    // vertical parser
    match guard(ctx, "parse_vbox_using_cst", text, true, || match parse_v(text) {
        Parsed::Ok(l) => Parsed::Ok(v_from_ds(&l).map(|_| ())),
        Parsed::Errs(n, s) => Parsed::Errs(n, s),
        Parsed::Bad(m) => Parsed::Bad(m),
    }) {
        Ok(Parsed::Ok(Ok(()))) => case.class("v_parse_ok"),
        Ok(Parsed::Ok(Err(e))) => return Verdict::Fail(format!("parse_vbox_using_cst produced a node the language has no syntax for: {e}")),
        Ok(Parsed::Errs(..)) => {}
        Ok(Parsed::Bad(m)) => return bad_location(ctx, text, "parse_vbox_using_cst", &m),
        Err(v) => return v,
    }
    // Does the text have errors at the lexer/CST level (the only level `format` works at)?
    let cst_errors = match guard(ctx, "cst::parse", text, true, || {
        let errs: lang::ErrorAccumulator = Default::default();
        let _tree = cst::Tree::build(cst::parse(text, errs.clone()));
        match errs.check() {
            Ok(()) => Ok(false),
            Err(e) => check_errors(text, &e).map(|_| true),
        }
    }) {
        Ok(Ok(b)) => b,
        Ok(Err(m)) => return bad_location(ctx, text, "cst::parse", &m),
        Err(v) => return v,
    };
    case.class_if(cst_errors, "syntax_errors");
    if h_list.is_some() && cst_errors {
        return Verdict::Fail(format!("parse_horizontal_list accepts a text for which cst::parse reports errors\n  text: {}", clip(text, 1500)));
    }
    // formatter: total; Err exactly on syntax errors; on success idempotent and meaning preserving
    let f1 = match guard(ctx, "format", text, true, || format_src(text)) {
        Ok(Parsed::Ok(s)) => {
            if cst_errors {
                // `format` returned Ok(..) for a text with syntax errors: its output is not a
                // rendering of the input (tokens were skipped), so the meaning changed.
                if ctx.known(FLAG_FORMAT_ERRS) {
                    return Verdict::Known(FLAG_FORMAT_ERRS.into());
                }
                return Verdict::Fail(format!("format returns Ok for a text with syntax errors (the errors are dropped and the output differs in meaning)\n  text: {}\n  format(text): {}", clip(text, 1200), clip(&s, 1200)));
            }
            s
        }
        Ok(Parsed::Errs(..)) => {
            if !cst_errors {
                return Verdict::Fail(format!("format rejects a text without syntax errors\n  text: {}", clip(text, 1500)));
            }
            return Verdict::pass(nontrivial);
        }
        Ok(Parsed::Bad(m)) => return Verdict::Fail(format!("format: {m}\n  text: {}", clip(text, 1500))),
        Err(v) => return v,
    };
    case.class("format_ok");
    match guard(ctx, "format∘format", &f1, true, || format_src(&f1)) {
        Ok(Parsed::Ok(f2)) => {
            if f2 != f1 {
                return Verdict::Fail(format!("format is not idempotent\n  {}\n  text: {}\n  format(text): {}", first_diff(&f1, &f2), clip(text, 1200), clip(&f1, 1200)));
            }
        }
        Ok(Parsed::Errs(n, s)) => return Verdict::Fail(format!("format(text) is rejected by format ({n} errors {s})\n  text: {}\n  format(text): {}", clip(text, 1200), clip(&f1, 1200))),
        Ok(Parsed::Bad(m)) => return Verdict::Fail(format!("format∘format: {m}")),
        Err(v) => return v,
    }
    let h2 = match guard(ctx, "parse_horizontal_list∘format", &f1, true, || match parse_h(&f1) {
        Parsed::Ok(l) => Parsed::Ok(h_from_ds(&l)),
        Parsed::Errs(n, s) => Parsed::Errs(n, s),
        Parsed::Bad(m) => Parsed::Bad(m),
    }) {
        Ok(p) => p,
        Err(v) => return v,
    };
    match (h_list, h2) {
        (Some(a), Parsed::Ok(Ok(b))) => {
            if a != b {
                return Verdict::Fail(format!("parse(format(text)) != parse(text)\n  {}\n  text: {}\n  format(text): {}", first_diff(&format!("{:?}", a), &format!("{:?}", b)), clip(text, 1200), clip(&f1, 1200)));
            }
        }
        (None, Parsed::Errs(..)) => {}
        (Some(_), Parsed::Errs(n, s)) => return Verdict::Fail(format!("text parses but format(text) does not ({n} errors {s})\n  text: {}\n  format(text): {}", clip(text, 1200), clip(&f1, 1200))),
        (None, Parsed::Ok(_)) => return Verdict::Fail(format!("text has parse errors but format(text) parses\n  text: {}\n  format(text): {}", clip(text, 1200), clip(&f1, 1200))),
        (_, Parsed::Ok(Err(e))) => return Verdict::Fail(format!("inexpressible node after format: {e}")),
        (_, Parsed::Bad(m)) => return Verdict::Fail(format!("parse∘format: {m}")),
    }
    Verdict::pass(nontrivial)
}

// ------------------------------------------------------------------------------------
// Calibration on the repository's own texts

#[derive(Clone, Debug, Serialize, Deserialize)]
pub struct GoldenCase {
    pub text: String,
    pub expect_ok: bool,
    /// the list the text denotes, where the repository's tests / documentation state it
    pub expect: Option<Top>,
}

/// Texts whose meaning is stated in the repository (doc tests of lang/mod.rs, the parameter
/// tables of the language specification there, the boxworks-testing doc test).
fn stated_meanings() -> Vec<(String, Top)> {
    let c = |c: char, font: u32| HNode::Char { c, font };
    let g = |w: i32, st: i32, sto: u8, sh: i32, sho: u8| GlueSpec { w, st, sto, sh, sho };
    let pt = 65536;
    vec![
        ("chars(\"A\", 1)".into(), Top::H(vec![c('A', 1)])),
        ("chars(font=2, content=\"B\")".into(), Top::H(vec![c('B', 2)])),
        ("chars(\"C\", font=3)".into(), Top::H(vec![c('C', 3)])),
        // doc test of lang/mod.rs without the inch-valued shrink
        ("chars(\"Box\")\nglue(1pt, 5fil)\nchars(\"A\")\nkern(-0.5pt)\nchars(\"V\")\n".into(), Top::H(vec![c('B', 0), c('o', 0), c('x', 0), HNode::Glue(g(pt, 5 * pt, 1, 0, 0)), c('A', 0), HNode::Kern(-pt / 2), c('V', 0)])),
        // parameter tables: glue(width, stretch, shrink); rule(height, width, depth); lig(char, original_chars, font, ..)
        ("glue(1pt, 2fil, 3fill)".into(), Top::H(vec![HNode::Glue(g(pt, 2 * pt, 1, 3 * pt, 2))])),
        ("glue(shrink=3filll, width=1pt)".into(), Top::H(vec![HNode::Glue(g(pt, 0, 0, 3 * pt, 3))])),
        ("rule(1pt, 2pt, \"running\")".into(), Top::H(vec![HNode::Rule { h: pt, w: 2 * pt, d: RUNNING }])),
        ("lig(\"x\", \"fi\", 7)".into(), Top::H(vec![HNode::Lig(LigSpec { c: 'x', font: 7, orig: "fi".into(), left: false, right: false })])),
        ("penalty(-10000) kern(2sp) math(\"after\") mark()".into(), Top::H(vec![HNode::Penalty(-10000), HNode::Kern(2), HNode::Math { after: true }, HNode::Mark])),
        (
            "insertion(3, 1pt, 2pt, 3pt, 4fil, 5fill, 6, [kern(1pt)])".into(),
            Top::H(vec![HNode::Ins(InsSpec { box_number: 3, height: pt, split_max_depth: 2 * pt, skip: g(3 * pt, 4 * pt, 1, 5 * pt, 2), float_penalty: 6, vbox: vec![VNode::Kern(pt)] })]),
        ),
        (
            "hbox(1pt, 2pt, 3pt, 4pt, \"1.5\", \"fill\", [chars(\"a\")])".into(),
            Top::H(vec![HNode::HBox(HBoxSpec { h: pt, w: 2 * pt, d: 3 * pt, shift: 4 * pt, num: 3 * pt / 2, den: pt, order: 2, list: vec![c('a', 0)] })]),
        ),
        ("disc([chars(\"-\")], [kern(1pt)], 2)".into(), Top::H(vec![HNode::Disc { pre: vec![DNode::Char { c: '-', font: 0 }], post: vec![DNode::Kern(pt)], replace: 2 }])),
        // boxworks-testing doc test
        (
            "vbox(\n  content=[\n    hbox(\n      content=[\n        chars(\"AZ\", 33)\n      ]\n    )\n  ]\n)\n".into(),
            Top::H(vec![HNode::VBox(VBoxSpec { h: 0, w: 0, d: 0, shift: 0, list: vec![VNode::HBox(HBoxSpec { h: 0, w: 0, d: 0, shift: 0, num: 0, den: 1, order: 0, list: vec![c('A', 33), c('Z', 33)] })] })]),
        ),
    ]
}

fn golden_oracle(ctx: &Ctx, g: &GoldenCase, case: &mut Case) -> Verdict {
    let t = TextCase { origin: "golden".into(), text: g.text.clone() };
    let v = text_oracle(ctx, &t, case, Some(g.expect_ok));
    if !matches!(v, Verdict::Pass { .. }) || !g.expect_ok {
        return v;
    }
    // print what was parsed and read it back (strict)
    let parsed = match parse_as(ctx, true, &g.text, false) {
        Ok(Ok(p)) => p,
        Ok(Err(e)) => return Verdict::Fail(e),
        Err(v) => return v,
    };
    if let Some(want) = &g.expect {
        let want = canon_top(want, Deviations::default()).expect("expressible");
        if parsed != want {
            return Verdict::Fail(format!("the text does not parse to the list the repository's documentation states\n  text: {}\n  {}", g.text, first_diff(&format!("{:?}", want), &format!("{:?}", parsed))));
        }
        case.class("stated_meaning");
    }
    let st = Stats::of(&parsed);
    let tc = TreeCase { profile: "golden".into(), top: parsed };
    let mut c2 = Case::default();
    match roundtrip_oracle(ctx, &tc, &mut c2) {
        Verdict::Pass { .. } => Verdict::pass(st.nontrivial() || st.nodes > 0),
        other => other,
    }
}

pub fn run(ctx: &Ctx) {
    run_fuzz_raw(ctx, fuzz_entry);
    ctx.rule(
        "roundtrip: recursive mirror trees of ds::Horizontal / ds::Vertical / discretionary lists (nesting <= 4, every node kind and field the language has syntax for) printed by three public paths and parsed back, compared with the library's PartialEq and strictly (glue ratios as exact rationals); \
         format_idempotent: the same trees rendered by an independent styled writer (blank lines, comments, any Unicode whitespace, positional vs keyword, reordered keywords, omitted defaults, omitted commas, sp units, long decimals, \\u{..} escapes); \
         parser_total: token soups over the language's alphabet, token-level mutations of the repository's Box-language goldens and of generated output, numeric/escape boundary probes. \
         non-trivial = nesting depth >= 2 or a character that needs an escape (or, for texts, a backslash / non-ASCII character) or a value at a limit (+-(2^30-1), +-(2^31-1), running, font 2^31-1); distinct = by value",
    );
    ctx.assume("characters: every Unicode scalar except U+0022 (the property excludes it; the lexer does in fact accept \\\" )");
    ctx.assume("fonts, replace_count and float_penalty are generated in 0..=2^31-1: ToBoxLang for Vec<ds::Horizontal> converts the font with i32::try_from(..).unwrap() and the other printers use `as i32`; the language's integers are i32");
    ctx.assume("integers (penalty) are generated in the documented range (-2^31, 2^31): -2^31 has no spelling the lexer accepts (it panics, reported by parser_total)");
    ctx.assume("not generated because the language has no syntax for them (convert.rs): whatsits (todo!()), kern kinds other than Normal, glue kinds other than Normal, mark contents (ds::Mark.list is always read back empty), glue_ratio/glue_order of a vbox (ToBoxworks for ast::VBox fills them with defaults), ds::Math carries only before/after");
    ctx.assume("profile core (80% of trees): finite dimensions in [-(2^30-1), 2^30-1] (the documented TeX range), infinite-order stretch/shrink in [-(2^31-1), 2^31-1] (the lexer's range), glue ratios k/65536 with 0 <= k < 2^24; profile wide (20%): any i32 dimension and any ratio with a non-zero denominator. A failure in the wide profile is excused only by a listed signature");
    ctx.assume("glue ratio: the language's values are k/65536, |k| <= 2^30-1 (GlueRatio::from_float_str parses the string as a dimension in pt). Such a value must read back exactly; any other ratio must read back as the value a single-precision TeX.2021.186 printer gives, with its sign");
    ctx.assume("error location = every label span satisfies start <= end <= len(source) and falls on UTF-8 character boundaries");

    // Debugging aid (sensitivity runs): VP_C18_ONLY=<sub> restricts a generating run to one sub-check.
    let only = std::env::var("VP_C18_ONLY").ok();
    let want = |sub: &str| !ctx.is_generate() || only.as_deref().map(|o| o == sub).unwrap_or(true);

    // calibration
    if want("goldens") {
        let mut goldens: Vec<GoldenCase> = seeds().into_iter().map(|(text, expect_ok)| GoldenCase { text, expect_ok, expect: None }).collect();
        goldens.extend(stated_meanings().into_iter().map(|(text, top)| GoldenCase { text, expect_ok: true, expect: Some(top) }));
        run_list(ctx, "goldens", goldens, |g: &GoldenCase, case| golden_oracle(ctx, g, case));
    }
    if want("roundtrip") {
        let n = ctx.tier.pick(150_000u64, 3_000_000u64);
        run_generated(ctx, "roundtrip", n, tree_strategy, |t: &TreeCase, case| roundtrip_oracle(ctx, t, case));
    }
    if want("format_idempotent") {
        let n = ctx.tier.pick(60_000u64, 1_000_000u64);
        run_generated(ctx, "format_idempotent", n, styled_strategy, |c: &StyledCase, case| format_oracle(ctx, c, case));
    }
    if want("parser_total") {
        let n = ctx.tier.pick(300_000u64, 5_000_000u64);
        run_generated(ctx, "parser_total", n, text_strategy, |t: &TextCase, case| text_oracle(ctx, t, case, None));
    }
}


/// Entry point shared by the libFuzzer target and the `fuzz_raw` replay sub-check.
pub fn fuzz_entry(ctx: &Ctx, data: &[u8]) -> Verdict {
    let t = TextCase { origin: "fuzz".to_string(), text: String::from_utf8_lossy(data).to_string() };
    text_oracle(ctx, &t, &mut Case::default(), None)
}
